#!/bin/bash
# Confirm a sub-agent's seeded change in its scratch worktree and file it under /verif/seeded/<id>/.
# usage: confirm_seeded.sh <worktree-name, ending in the property id, e.g. R2C07> [seeded-dir-name]
set -u
wtname=$1; id=${wtname: -3}; name=${2:-$id}
wt=/tmp/wt/$wtname
cd $wt || exit 2
demo=tests/seeded_demo.rs
[ -f $demo ] || demo=$(ls _seeded/*.rs 2>/dev/null | head -1)
[ -f tests/seeded_demo.rs ] || cp "$demo" tests/seeded_demo.rs
git diff -- src sonic-number sonic-simd > /tmp/patch_$name.diff
[ -s /tmp/patch_$name.diff ] || { echo "NO SOURCE CHANGE in $wt"; exit 1; }
# 1. applies to /repo HEAD
git -C /repo apply --check /tmp/patch_$name.diff || { echo "PATCH DOES NOT APPLY TO /repo"; exit 1; }
# 2. existing suite passes with the change (demo moved away)
mv tests/seeded_demo.rs /tmp/demo_$name.rs
suite=$(cargo test --workspace --no-fail-fast --offline 2>&1 | grep -E "^test result" | tr '\n' ' ')
mv /tmp/demo_$name.rs tests/seeded_demo.rs
echo "suite with change: $suite"
echo "$suite" | grep -q "FAILED\|failed; [1-9]" && { echo "SUITE FAILS WITH THE CHANGE"; exit 1; }
echo "$suite" | grep -q "90 passed" || { echo "SUITE DID NOT RUN 90 TESTS"; exit 1; }
# 3. demo fails with the change
with=$(timeout 600 cargo test --offline ${DEMO_ARGS:-} --test seeded_demo 2>&1 | grep -E "^test result|error\[|signal|overflow" | tr '\n' ' ')
echo "demo with change: $with"
# 4. demo passes without
git apply -R /tmp/patch_$name.diff
without=$(timeout 600 cargo test --offline ${DEMO_ARGS:-} --test seeded_demo 2>&1 | grep -E "^test result|error\[|signal" | tr '\n' ' ')
git apply /tmp/patch_$name.diff
echo "demo without change: $without"
echo "$without" | grep -q "test result: ok" || { echo "DEMO DOES NOT PASS ON THE UNCHANGED CODE"; exit 1; }
echo "$with" | grep -q "test result: ok" && { echo "DEMO PASSES WITH THE CHANGE"; exit 1; }
d=/verif/seeded/$name
mkdir -p $d
cp /tmp/patch_$name.diff $d/patch.diff
cp tests/seeded_demo.rs $d/seeded_demo.rs
[ -f _seeded/notes.md ] && cp _seeded/notes.md $d/notes.md
python3 - "$d" "$id" "$suite" "$with" "$without" <<'P'
import json,sys
d,id,suite,w,wo=sys.argv[1:6]
json.dump({"property":id,"needs":"see notes.md","confirmed":{"suite_with_change":suite,"demo_with_change":w,"demo_without_change":wo,"how":"tools/confirm_seeded.sh in the sub-agent's scratch worktree: git apply --check against /repo HEAD; cargo test --workspace with the change (demo moved away); cargo test --test seeded_demo with the change (fails) and with the source change stashed (passes)"}},open(d+"/meta.json","w"),indent=1)
P
echo "CONFIRMED $name"
