#!/bin/bash
# Apply one seeded change to /repo, run the given checks (default: the property it targets) in the
# quick tier, print whether each fired, and undo the change.  Usage: run_seeded.sh <seeded/dir> [checks...]
set -u
d=$(readlink -f "$1"); shift
id=$(basename "$d")
prop=$(python3 -c "import json,sys; print(json.load(open('$d/meta.json'))['property'])" 2>/dev/null || echo "${id%%-*}")
checks=${*:-$prop}
cd /repo || exit 2
if ! git diff --quiet; then echo "refusing: /repo has uncommitted changes"; exit 2; fi
git apply "$d/patch.diff" || { echo "patch does not apply"; exit 2; }
trap 'git -C /repo checkout -- . ; ' EXIT
cd /verif
for c in $checks; do
  out=$(./check $c quick 2>&1); rc=$?
  nv=$(echo "$out" | grep -ac "^VIOLATION")
  echo "SEEDED $id check=$c exit=$rc violations=$nv"
  echo "$out" | grep -a "^  sig=" | cut -c1-260 | head -4
done
