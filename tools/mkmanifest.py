#!/usr/bin/env python3
"""Regenerate MANIFEST.json from the table below (kept in one place so it stays valid)."""
import json, os, subprocess
ROOT = os.path.dirname(os.path.dirname(os.path.abspath(__file__)))
props = [json.loads(l) for l in open(os.path.join(ROOT, "properties.jsonl"))]

# id -> (technique, level text, level note, design ref)
CHECKS = {
 "C01": ("crash/abort/panic observation of sharded worker processes + ASan/LSan + allocation ledger + UTF-8 validity monitor over ~60 safe entry points on hostile inputs (native release, native debug with overflow checks, ASan)",
         "Exploration: every generated, mutated, truncated, deeply nested, large and corpus input is pushed through every safe entry point and carrier in three builds; the oracle is the process status, the panic hook, the sanitizer runtime, a counting allocator (second identical execution must not change the live block count) and from_utf8 over every str handed out. Held on the executions observed.",
         "Trusted: rustc, ASan/LSan runtime, the harness supervisor. 'Bounded stack' is read as: fits Rust's default 2 MiB thread stack in native builds (8 MiB under ASan instrumentation). Unsafe *_unchecked entry points are not driven here."),
 "C03": ("differential runtime monitor: DOM walked through the public read API against an independent reference parse tree (order, duplicates, strings, number classes bit-exact); whole-input, embedded, Vec and stream drivers; default/rawnumber/lossy configs; ASan + arbitrary_precision builds",
         "Exploration over seeded generated documents (incl. duplicate keys), all valid token sequences up to 4 tokens, the repository's corpus files under blank-prefix alignments and documents above the thread-local node-buffer threshold.",
         "Trusted: harness recogniser + Rust std float parsing as number oracle (literal -0 may be I64(0) or F64(-0.0))."),
 "C05": ("runtime monitor: serde_json as executable model (structural comparison through an independent recogniser), specification escaper and re-indenter, byte equality across 14 writers, failing/short-writing writers at every byte, PROT_NONE guard pages behind strings (release over-read path), ASan",
         "Exploration: strings of every length 0..200 (thorough: to 4200 around block/page multiples) with each special-character class at every position, random Unicode texts, and values generated through the whole serde::Serializer surface (all integer widths, f32/f64 incl. non-finite, char, bytes, options, tuples, structs, four enum shapes, maps with non-string keys).",
         "Trusted: serde_json's serializer as the value model, harness escaper/re-indenter/recogniser, mmap/mprotect. Float map keys are not generated (their spelling is not fixed by the property)."),
 "C09": ("differential runtime monitor: independent strict and lossy string decoders as oracle over 16 decoders (in-place, copying, borrowing, key, map-key, lazy, iterator key) x {strict, utf8_lossy}; Cow variant / &str success observed for borrowed-ness; ASan",
         "Exploration: all 1,114,112 code points through \\u escapes (exhaustive, batched), all 2048 unpaired surrogates, 23 byte classes (escapes, multi-byte, malformed) on a position x length x start-offset grid (sampled; denser in thorough), random literals with injected defects.",
         "Trusted: harness decoders (strict decoder cross-checked against serde_json in the selftest). For literals that are not one string token, lossy Deserializer::deserialize (which ignores what follows the first token) carries no expectation except UTF-8 validity."),
 "C10": ("differential runtime monitor: reference parse tree + path lookup as oracle for 20 lookup APIs (get/get_from_* over 5 carriers + guard-page slice, unchecked variants, Value::pointer/get/Index, LazyValue/OwnedLazyValue get/pointer); raw text and byte offset compared with the reference span; ASan",
         "Exploration over seeded well-formed documents built for the block-based skipper (strings with brackets/quotes/backslash runs, whitespace runs to 70, duplicate keys) x all their paths (<= 40) plus perturbed paths (missing key, index = len, wrong kind, escaped key, empty key).",
         "Trusted: harness recogniser and lookup. Error categories are judged for the checked variants only (NotFound / TypeUnmatched); the unchecked variants are held to the same found/not-found answer."),
 "C11": ("runtime monitor: single-path get and the reference tree as model for get_many / get_many_unchecked (slot count, order, exact span and offset, empty slot = missing key, repeated paths identical); literal reference merge for get_by_schema; native release + debug (overflow checks) + ASan",
         "Exploration over duplicate-free generated documents x 3 shape-consistent path sets each (shared prefixes, prefix-that-is-a-target, repeated paths, root path, missing keys) and 2 generated schemas each.",
         "Trusted: harness recogniser; serde_json for building expected schema results. Member order of the get_by_schema result is not judged."),
 "C12": ("runtime monitor: reference member list (decoded key, exact span, offset) and a latch check (3 further polls) over checked/unchecked iterators x 5 carriers and LazyValue::into_*_iter; ASan",
         "Exploration over generated arrays/objects of every size 0..70, nested, escaped keys, whitespace variants, trailing bytes, and their mutations (14 mutators) incl. non-UTF-8.",
         "Trusted: harness recogniser. A number/literal glued to further bytes (`00`, `1x`) may count as a member followed by a violation or as a malformed token (both accepted). Non-UTF-8 input: only the one-directional requirements."),
 "C14": ("runtime monitor: every fragment returned by checked get/get_many/get_by_schema/iterators must be UTF-8, one well-formed value, inside the input, and justified by a strict reference walk that validates everything traversed before it; every prefix and every single-byte substitution of generated documents; ASan",
         "Exploration: all prefixes and all 1-byte substitutions of 1.5k (quick) documents x their paths, 30k targeted mutations (garbage between tokens, inside skipped siblings, bad escapes, invalid UTF-8), hand-written traps.",
         "Trusted: harness strict walker. One-directional (a returned value must be justified; rejections are never judged). get_many with duplicate names is justified by 'span inside input and everything up to its end is a well-formed JSON prefix'."),
 "C13": ("runtime monitor: DOM of the raw text as model for the full accessor transcript of LazyValue/OwnedLazyValue from 10 sources; verbatim re-serialisation; fragment-tree model for random mutation histories (pointer_mut/get_mut/replace/push/append_pair/take/clone) with earlier clones re-checked at the end; ASan",
         "Exploration over generated values of every JSON type (incl. bare literals), padded with random blanks, and 30k random mutation histories of up to 12 steps.",
         "Trusted: the DOM (itself under C03) as accessor model; harness fragment model (a parsed container re-serialises compactly with re-escaped keys, untouched children verbatim)."),
 "C07": ("differential runtime monitor: Rust std str::parse (bit comparison) and an integer classifier as oracle for sonic_number::parse_number (every terminator, long/short remainder) and for from_str into f64/f32/Number/Value and all 11 integer widths; native and baseline-x86-64 builds (SIMD and scalar digit readers)",
         "Exploration: exhaustive small-grammar strings, all digit counts 1..800, all powers of ten -400..400, exact halfway/near-halfway decimal expansions around arbitrary, subnormal, power-of-two, power-of-ten and max-finite f64 values (big-decimal arithmetic in the harness), 19/20-digit integer boundaries, long digit runs, huge and zero-padded exponents; quick ~20M parses.",
         "Trusted: Rust std float parsing and formatting (exact decimal expansion via {:.1080}). For the literal `-0` both I64(0) and F64(-0.0) are accepted."),
 "C08": ("runtime monitor: write->read bit identity for f64/f32/all integer widths (text route and DOM route), JSON-number recogniser on every output, RawNumber verbatim + accessor agreement with the literal classifier; arbitrary_precision build",
         "Exploration: all 8/16-bit integers, wide/128-bit integers at boundaries and random, f64 over every exponent x {edge, random} mantissas incl. subnormals and -0.0, f32 stratified 2^24 (quick) / all 2^32 (thorough), 380k raw-number literals bare and quoted.",
         "Trusted: harness JSON-number recogniser and classifier."),
 "C04": ("differential runtime monitor: serde_json as executable model for 50 target types (Ok/Err agreement and PartialEq, floats by bits) over from_slice and from_str; ASan",
         "Exploration over type-directed texts: matching (serialised random instances, boundary +-1 integers of every width incl. 128-bit), near-matching (14 mutators), padded and generic texts; ~2M comparisons in quick.",
         "Trusted: serde_json 1.0.151 as model, run under its own panic guard (it panics on non-ASCII keys of bool-keyed maps; such cases carry no verdict). Documented exceptions implemented literally: depth > 64 not generated; f32 model = (f64 parse) as f32; a rejection by sonic of a text that is not well-formed JSON / not UTF-8 is never an alarm (serde_json is lenient for skipped strings and byte buffers); messages are not compared."),
 "C06": ("runtime monitor: fixpoint / equality / order / digit-preservation oracle against the reference parse tree of the source text; builds: default, sort_keys (reference = stable key sort), arbitrary_precision and use_rawnumber (number tokens verbatim); Display/to_string/to_vec equality; pretty = re-indented compact; ASan",
         "Exploration over 100k (quick) generated documents with duplicates, long numbers and escapes, and the corpus files, each through 4 routes.",
         "Trusted: harness recogniser and re-indenter."),
 "C19": ("runtime monitor: the text route as model for the DOM route (to_value vs parse(to_string), from_value vs from_str) with the documented failure table implemented literally; reference tree equality as oracle for ==, symmetry, member-order and construction-route insensitivity and primitive comparisons; ASan",
         "Exploration over 60k (quick) generated values driving every Serializer method, 31 typed targets x matching texts, 50k document pairs. Two known findings are matched by computed signatures (F8 duplicate-key asymmetry, F15 f32 widening); any other difference fails.",
         "Trusted: harness recogniser; the F15 classification re-serialises the value with every f32 widened and requires exact DOM equality."),
 "C20": ("runtime monitor: every Err from ~40 parse/lookup/stream/iterator entry points is checked against the input (offset <= len, line/column recomputed from the offset with the crate's convention, displayable, category rule) plus a latch check (3 further polls) on streams and iterators; ASan",
         "Exploration: every truncation and every 1-byte corruption of 600 (quick) multi-line documents, 40k mutated documents (half multi-line), token sequences; ~12M judged results in quick.",
         "Trusted: harness position recomputation. Position-less errors (line 0) are tolerated only for the TypeUnmatched category (serde creates them after the deserializer returned, as in serde_json); consequence: a change that merely drops a position is not detected, a wrong position is."),
 "C15": ("history checker: every public mutation operation (55 kinds: Value/Array/Object/Entry/Index/IndexMut/pointer_mut/take/clone/IntoIter/drain/...) applied in lock-step to real Values and to a Vec/BTreeMap model over 4 registers; results, all registers and the structural-invariant hook (verif_check) compared after every step; native release, native debug, ASan",
         "Exploration: all sequences of length <= 2 (quick) / <= 3 (thorough) over 74 concrete operations (exhaustive, aliasing between two registers) and 20k (quick) random 200-step histories from 7 kinds of starting values (parsed root, subtree by clone/take, owned, to_value, json!, embedded).",
         "Trusted: the model (std Vec/BTreeMap). Starting objects are duplicate-free; documented panics (IndexMut out of range / wrong kind, insert/remove/split_off/drain out of range) count as 'fails' and must leave every register unchanged."),
 "C16": ("runtime monitors: content oracle for every surviving handle + arena ledger hook (live arenas == arenas referenced by live values, no double unregistration) + structural check + counting allocator, over all drop permutations of sharing scenarios and random parse/clone/take/insert/mutate/thread/drop histories; ASan/LSan; TSan for the threaded stress",
         "Exploration: every drop order of 32 templates (<= 6 handles, 720 orders; whole-input, struct-embedded, Vec, stream, cross-document insertion, mutated clones, rawnumber), 20k (quick) random histories, 8-thread barrier stress.",
         "Trusted: hooks H2/H3 (sonic-rs feature verif_hooks), ASan/LSan/TSan runtimes (TSan built with -Zbuild-std)."),
 "C17": ("cross-build runtime monitor: per-case digests of every observable (Ok/Err, values, raw spans and offsets, serialised bytes, error offset/line/column/message) over the C02/C03/C05/C09/C10/C12 case streams, joined case by case between the native (AVX2/PCLMUL) and the baseline x86-64 build; every public sonic_simd primitive vs scalar loops in each build and under Miri for riscv64 (pure-Rust vector types)",
         "Exploration: ~720k (quick) transcribed cases compared pairwise; primitives: eq/le/gt/splat/loadu/storeu/mask ops/bitmask for all 256 byte values in every lane of u8x16/u8x32/u8x64, i8x32, BitMask methods of u16/u32/u64 for all single bits, boundaries and random masks.",
         "Trusted: FNV-1a digests (a collision would hide a difference); the private helpers (prefix_xor, get_nonspace_bits, simd_str2int) are not callable and are covered only through the transcripts."),
 "C18": ("runtime monitors: (1) Miri (Tree Borrows, data-race detector, leak check, its own preemption and weak-CAS failure injection, 16 seeds x 4 rate settings); (2) turn-based scheduler behind the verif_hooks yield points serialising 2-3 readers at every atomic operation of the lazy caches according to seeded schedule vectors (with weak-CAS failure injection), result oracle + allocation ledger per run, distinct observed event sequences counted; (3) free-running barrier stress under ASan/LSan and TSan",
         "Exploration: 7 scenarios; a stateless depth-first search by replay enumerates every schedule at the granularity of the hooked atomic operations (6 of the 7 scenarios are exhausted within the quick budget of 20k schedules each, the seventh within the thorough budget or reported as budget-reached in the evidence notes), plus 6400 random schedule vectors per scenario, 16 Miri seeds and free-running stress. The claim is the measured set recorded in the evidence, not a proof over all interleavings of the machine-level atomics.",
         "Trusted: Miri, TSan/ASan runtimes, hook H1. The scheduler serialises threads, so it explores interleavings at the granularity of the hooked atomic operations only."),
 "C02": ("differential runtime monitor: independent RFC 8259 recogniser as accept/reject oracle over enumerated token sequences and mutated documents; ASan build",
         "Exploration: every listed entry point x carrier is executed on all token sequences up to the bound and on seeded generated/mutated documents; an independent recogniser decides what must be accepted. Held on the cases observed, not a proof over all byte strings.",
         "Trusted: the harness recogniser (cross-checked against serde_json), rustc, ASan runtime. Depth is capped at 64 so the permitted nesting-limit rejection never explains a verdict."),
}
NA_REASON = "monitor not built yet in this session (planned, see DESIGN.md section 5)"

hooks_commits = []
try:
    out = subprocess.run(["git", "-C", "/repo", "log", "--format=%H %s"], stdout=subprocess.PIPE, text=True).stdout
    hooks_commits = [l.split()[0] for l in out.splitlines() if " verif-hook:" in l or l.split(" ", 1)[1].startswith("verif-hook")]
except Exception:
    pass

m = {
 "version": 1,
 "setup_cmd": "./check setup",
 "hooks": {
   "guard": "cargo feature verif_hooks (sonic-rs), off by default",
   "enable": "harness built with --features hooks, which enables sonic-rs/verif_hooks",
   "baseline_off_cmd": "cd /repo && cargo test --workspace --no-fail-fast --offline",
   "source_commits": hooks_commits,
   "add_only": False,
 },
 "engines": [
   {"name": "sv", "path": "harness", "serves_properties": sorted(CHECKS), "kind_free_text": "Rust harness: seeded generators, reference models, one monitor per property; run as sharded worker processes by ./check under native, debug, ASan/LSan, TSan, valgrind builds"},
 ],
 "checks": [],
 "not_applicable": [],
 "notes": "All checks decide by observing executions of the real crate built from /repo's working tree (runtime monitoring and sanitizers). Exit 2 = harness error / promised coverage class empty (never reported as a violation).",
}
for p in props:
    i = p["id"]
    if i in CHECKS:
        tech, text, note = CHECKS[i]
        m["checks"].append({
          "property_id": i,
          "quick_cmd": "./check %s quick" % i,
          "thorough_cmd": "./check %s thorough" % i,
          "evidence_file": "evidence/%s.json" % i,
          "replay_cmd_template": "./check replay {path}",
          "engine": "sv",
          "level_claimed": {"category": "exploration", "text": text, "design_ref": "DESIGN.md section 5, " + i},
          "level_note": note,
          "technique": tech,
        })
    else:
        m["not_applicable"].append({"property_id": i, "reason": NA_REASON})
json.dump(m, open(os.path.join(ROOT, "MANIFEST.json"), "w"), indent=1)
print("checks:", len(m["checks"]), "not_applicable:", len(m["not_applicable"]))
