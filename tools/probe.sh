#!/bin/bash
# dev helper (not registered in MANIFEST): build the harness into target/probe and run all 16 quick
# shards of the given checks on the native build without touching evidence/ or the check's target dirs.
# usage: tools/probe.sh C08 [C09 ...]   (env SEED=1)
set -u
cd /verif/harness || exit 2
CARGO_TARGET_DIR=/verif/target/probe cargo build --release --offline --bin sv --features hooks,sanitize 2>&1 | grep -E "^error" -A 14 | head -60
for c in "$@"; do
  out=/verif/out/probe_$c; rm -rf $out; mkdir -p $out
  for sh in $(seq 0 15); do /verif/target/probe/release/sv run $c --tier quick --seed ${SEED:-1} --shard $sh/16 --build native-rel --out $out --scale 1.0 --skip-until 0 >/dev/null 2>&1 & done; wait
  python3 - $c $out <<'P'
import json,glob,sys
c,out=sys.argv[1:3]
n=0; fails=[]; shards=0
for f in glob.glob(out+'/shard_*.json'):
    d=json.load(open(f,errors='replace')); shards+=1
    n+=d.get('evaluations',0)
    fails+=d.get('violations',[])
print(c,'shards',shards,'evaluations',n,'failures',len(fails))
seen=set()
for x in fails:
    if x.get('sig') in seen: continue
    seen.add(x.get('sig')); print('  ',x.get('sig'),'|',x.get('msg','')[:500])
P
done
