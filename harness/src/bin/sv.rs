use std::process::exit;

use sv::core::{self, Case, GenParams, RunOpts, Tier};

fn arg(args: &[String], name: &str) -> Option<String> {
    args.iter().position(|a| a == name).and_then(|i| args.get(i + 1).cloned())
}

fn main() {
    let args: Vec<String> = std::env::args().collect();
    if args.len() < 2 {
        eprintln!("usage: sv run <check> --tier quick|thorough --seed N --shard i/n --build NAME --out DIR [--scale F] [--skip-until K]\n       sv replay <file> --build NAME\n       sv slot <file>\n       sv list");
        exit(2);
    }
    match args[1].as_str() {
        "list" => {
            for c in sv::mon::registry() {
                println!("{}", c.id());
            }
        }
        "run" => {
            let id = &args[2];
            let chk = match sv::mon::find(id) {
                Some(c) => c,
                None => {
                    eprintln!("unknown check {}", id);
                    exit(2)
                }
            };
            let tier = if arg(&args, "--tier").as_deref() == Some("thorough") { Tier::Thorough } else { Tier::Quick };
            let seed: u64 = arg(&args, "--seed").and_then(|s| s.parse().ok()).unwrap_or(1);
            let sh = arg(&args, "--shard").unwrap_or("0/1".into());
            let (a, b) = sh.split_once('/').unwrap_or(("0", "1"));
            let g = GenParams {
                tier,
                seed,
                shard: a.parse().unwrap_or(0),
                nshards: b.parse().unwrap_or(1),
                build: arg(&args, "--build").unwrap_or("native-rel".into()),
                scale: arg(&args, "--scale").and_then(|s| s.parse().ok()).unwrap_or(1.0),
            };
            let opts = RunOpts {
                out_dir: arg(&args, "--out").unwrap_or(".".into()),
                skip_until: arg(&args, "--skip-until").and_then(|s| s.parse().ok()).unwrap_or(0),
                max_cases: arg(&args, "--max-cases").and_then(|s| s.parse().ok()),
            };
            exit(core::run_shard(chk, g, opts));
        }
        "replay" => {
            let txt = std::fs::read_to_string(&args[2]).expect("read replay file");
            let v: serde_json::Value = serde_json::from_str(&txt).expect("replay json");
            let id = v["check"].as_str().expect("check").to_string();
            let case: Case = serde_json::from_value(v["case"].clone()).expect("case");
            let build = arg(&args, "--build").unwrap_or(v["build"].as_str().unwrap_or("native-rel").to_string());
            let chk = sv::mon::find(&id).expect("unknown check");
            let ctx = core::replay(chk, &build, case);
            if ctx.viols.is_empty() {
                println!("REPLAY held: no violation observed for this case on build {}", build);
                exit(0);
            }
            for v in &ctx.viols {
                println!("REPLAY violation property={} sig={} :: {}", id, v.sig, v.msg);
            }
            exit(1);
        }
        "slot" => match core::read_slot(&args[2]) {
            Some((idx, c, complete)) => {
                println!("{}", serde_json::json!({"index": idx, "case": c, "complete": complete}));
            }
            None => exit(1),
        },
        _ => {
            eprintln!("unknown command");
            exit(2)
        }
    }
}
