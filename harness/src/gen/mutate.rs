//! Mutators producing (mostly) rejected inputs from well-formed documents.
use crate::rng::Rng;

pub const STRUCT_ALPHABET: &[u8] = b"[]{},:\"\\ \n0-1.eEtfn/u\x00\x1f\x7f\x80\xc0\xe0\xf0\xf8\xff";

pub const BAD_UTF8: &[&[u8]] = &[
    b"\x80",             // lone continuation
    b"\xc0\xaf",         // overlong
    b"\xe0\x80\xaf",     // overlong 3
    b"\xed\xa0\x80",     // surrogate encoding
    b"\xf4\x90\x80\x80", // > U+10FFFF
    b"\xe2\x82",         // truncated 3-byte
    b"\xf0\x9f\x98",     // truncated 4-byte
    b"\xc3",             // truncated 2-byte
    b"\xf5",
    b"\xff",
    b"\xfe",
];

pub const BAD_ESCAPES: &[&[u8]] = &[
    b"\\x", b"\\u12", b"\\uZZZZ", b"\\ud800", b"\\udc00\\ud800", b"\\ud800\\u0041", b"\\u123", b"\\'", b"\\a",
    b"\\ud800\\ud800", b"\\udfff", b"\\u 123", b"\\U0041", b"\\0", b"\\v",
];

pub const NUMBER_TAILS: &[&[u8]] = &[
    b"1.", b"1e", b"01", b"-", b"1e+", b"1.e3", b".5", b"+1", b"1.2.3", b"1ee3", b"0x10", b"-01", b"1e999",
    b"-1e999", b"--1", b"1-", b"00", b"-0.", b"1E", b"1e-", b"Infinity", b"NaN", b"-a", b"1_000", b"0e",
];

/// positions of the string literal bodies (start after the quote, end at closing quote), roughly:
/// computed by a tiny scanner that assumes well-formed input.
pub fn string_bodies(b: &[u8]) -> Vec<(usize, usize)> {
    let mut v = vec![];
    let mut i = 0;
    while i < b.len() {
        if b[i] == b'"' {
            let s = i + 1;
            i += 1;
            while i < b.len() && b[i] != b'"' {
                if b[i] == b'\\' {
                    i += 1;
                }
                i += 1;
            }
            v.push((s, i.min(b.len())));
        }
        i += 1;
    }
    v
}

/// token boundaries (positions where inserting structural bytes is "between tokens")
pub fn token_gaps(b: &[u8]) -> Vec<usize> {
    let mut v = vec![0];
    let mut i = 0;
    while i < b.len() {
        match b[i] {
            b'"' => {
                i += 1;
                while i < b.len() && b[i] != b'"' {
                    if b[i] == b'\\' {
                        i += 1;
                    }
                    i += 1;
                }
                i += 1;
                v.push(i.min(b.len()));
            }
            b'[' | b']' | b'{' | b'}' | b',' | b':' => {
                v.push(i);
                i += 1;
                v.push(i);
            }
            _ => i += 1,
        }
    }
    v.sort();
    v.dedup();
    v
}

/// one random mutation; returns a short label of the mutation class
pub fn mutate(r: &mut Rng, doc: &[u8]) -> (Vec<u8>, &'static str) {
    let mut b = doc.to_vec();
    let k = r.below(18);
    match k {
        16 | 17 => {
            // something that is not a blank where blanks are expected: a control character (or a
            // look-alike: VT, FF, NEL, NBSP, DEL) at a token gap, alone, between two blanks, or
            // hidden somewhere in a run of up to 700 real blanks
            let gaps = token_gaps(&b);
            let at = (*r.pick(&gaps)).min(b.len());
            let odd: &[u8] = *r.pick(&[b"\x00" as &[u8], b"\x0b", b"\x0c", b"\x1f", b"\x01", b"\x7f", b"\x08", b"\xc2\x85", b"\xc2\xa0", b"\x1c", b"\x0e"]);
            let run = match r.below(4) {
                0 => 0,
                1 => r.range(1, 4),
                2 => r.range(60, 140),
                _ => r.range(250, 700),
            };
            let pos = if run == 0 { 0 } else { r.below(run as u64 + 1) as usize };
            let mono = r.chance(1, 2);
            let mut ins: Vec<u8> = Vec::with_capacity(run + odd.len());
            for i in 0..=run {
                if i == pos {
                    ins.extend_from_slice(odd);
                }
                if i < run {
                    ins.push(if mono { b' ' } else { *r.pick(b" \t\r\n   ") });
                }
            }
            b.splice(at..at, ins);
            (b, "odd-byte-among-blanks")
        }
        0 => {
            // truncate
            let n = r.below(b.len() as u64 + 1) as usize;
            b.truncate(n);
            (b, "prefix")
        }
        1 | 2 => {
            if b.is_empty() {
                return (b, "subst");
            }
            let i = r.below(b.len() as u64) as usize;
            b[i] = if r.chance(3, 4) { *r.pick(STRUCT_ALPHABET) } else { r.next() as u8 };
            (b, "subst")
        }
        3 => {
            let gaps = token_gaps(&b);
            let i = *r.pick(&gaps);
            let c = *r.pick(b"[]{},:\"x1");
            b.insert(i.min(b.len()), c);
            (b, "insert-struct")
        }
        4 => {
            if b.is_empty() {
                return (b, "delete");
            }
            let i = r.below(b.len() as u64) as usize;
            b.remove(i);
            (b, "delete")
        }
        5 => {
            // invalid UTF-8 inside a string
            let bodies = string_bodies(&b);
            if bodies.is_empty() {
                return (b, "bad-utf8-in-string");
            }
            let (s, e) = *r.pick(&bodies);
            // insert at a position that is not right after a backslash
            let mut at = r.range(s, e);
            while at > s && b[at - 1] == b'\\' {
                at -= 1;
            }
            let ins = *r.pick(BAD_UTF8);
            for (n, c) in ins.iter().enumerate() {
                b.insert(at + n, *c);
            }
            (b, "bad-utf8-in-string")
        }
        6 => {
            // invalid UTF-8 anywhere
            let at = r.below(b.len() as u64 + 1) as usize;
            let ins = *r.pick(BAD_UTF8);
            for (n, c) in ins.iter().enumerate() {
                b.insert(at + n, *c);
            }
            (b, "bad-utf8-anywhere")
        }
        7 => {
            let bodies = string_bodies(&b);
            if bodies.is_empty() {
                return (b, "bad-escape");
            }
            let (s, e) = *r.pick(&bodies);
            let mut at = r.range(s, e);
            while at > s && b[at - 1] == b'\\' {
                at -= 1;
            }
            let ins = *r.pick(BAD_ESCAPES);
            for (n, c) in ins.iter().enumerate() {
                b.insert(at + n, *c);
            }
            (b, "bad-escape")
        }
        8 => {
            // replace a number-ish region / append number tail at a gap
            let gaps = token_gaps(&b);
            let i = (*r.pick(&gaps)).min(b.len());
            let ins = *r.pick(NUMBER_TAILS);
            for (n, c) in ins.iter().enumerate() {
                b.insert(i + n, *c);
            }
            (b, "number-tail")
        }
        9 => {
            // swap two bytes
            if b.len() < 2 {
                return (b, "swap");
            }
            let i = r.below(b.len() as u64) as usize;
            let j = r.below(b.len() as u64) as usize;
            b.swap(i, j);
            (b, "swap")
        }
        10 => {
            // raw control char inside a string
            let bodies = string_bodies(&b);
            if bodies.is_empty() {
                return (b, "raw-control");
            }
            let (s, e) = *r.pick(&bodies);
            let mut at = r.range(s, e);
            while at > s && b[at - 1] == b'\\' {
                at -= 1;
            }
            b.insert(at, *r.pick(&[0u8, 1, 9, 10, 13, 0x1f]));
            (b, "raw-control")
        }
        14 | 15 => {
            // a number-shaped token (long digit runs, `.`/`e` on every lane, malformed tails)
            // replacing an existing number or inserted as an extra element
            let t = crate::gen::numlit::number_shape(r.range(1, 140), r.below(64) as usize, r.chance(1, 4), r.range(0, 40));
            let digits: Vec<usize> = (0..b.len()).filter(|i| b[*i].is_ascii_digit() && (*i == 0 || !b[*i - 1].is_ascii_digit())).collect();
            if !digits.is_empty() && r.chance(2, 3) {
                let s = *r.pick(&digits);
                let mut e = s;
                while e < b.len() && (b[e].is_ascii_digit() || matches!(b[e], b'.' | b'e' | b'E' | b'+' | b'-')) {
                    e += 1;
                }
                b.splice(s..e, t.bytes());
            } else {
                let gaps = token_gaps(&b);
                let i = (*r.pick(&gaps)).min(b.len());
                b.splice(i..i, t.bytes());
            }
            (b, "number-shape")
        }
        11 => {
            // trailing garbage
            let t: &[u8] = *r.pick(&[b"x" as &[u8], b",", b"]", b"}", b" 1", b"\"", b"\x00", b"null", b"\xff"]);
            b.extend_from_slice(t);
            (b, "trailing")
        }
        12 => {
            // duplicate a chunk
            if b.len() < 2 {
                return (b, "dup-chunk");
            }
            let i = r.below(b.len() as u64) as usize;
            let j = r.range(i, b.len() - 1);
            let chunk = b[i..=j].to_vec();
            let at = r.below(b.len() as u64 + 1) as usize;
            for (n, c) in chunk.iter().enumerate() {
                b.insert(at + n, *c);
            }
            (b, "dup-chunk")
        }
        _ => {
            // remove a closing / opening bracket
            let idx: Vec<usize> = b.iter().enumerate().filter(|(_, c)| matches!(c, b'[' | b']' | b'{' | b'}' | b'"' | b':' | b',')).map(|x| x.0).collect();
            if idx.is_empty() {
                return (b, "drop-struct");
            }
            let i = *r.pick(&idx);
            b.remove(i);
            (b, "drop-struct")
        }
    }
}
