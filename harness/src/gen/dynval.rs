//! A dynamically generated serialisable value whose `Serialize` impl drives the whole surface of
//! the `serde::Serializer` trait (all integer widths, floats, char, bytes, option, unit, tuples,
//! structs, the four enum variant shapes, maps with non-string keys, collect_str).
use serde::ser::{
    SerializeMap, SerializeSeq, SerializeStruct, SerializeStructVariant, SerializeTuple, SerializeTupleStruct,
    SerializeTupleVariant,
};
use serde::{Serialize, Serializer};

use crate::gen::doc::KEY_POOL;
use crate::rng::Rng;

#[derive(Clone, Debug, PartialEq)]
pub enum Key {
    Str(String),
    I(i64),
    U(u64),
    I8(i8),
    I16(i16),
    I32(i32),
    U8(u8),
    U16(u16),
    U32(u32),
    I128(i128),
    U128(u128),
    NewtypeStr(String),
    Bool(bool),
    Char(char),
    F64(f64),
    UnitVariant(&'static str),
    F32(f32),
    CollectStr(String),
    /// not stringifiable kinds (both serializers must refuse them)
    BadBytes,
    BadUnitStruct,
    BadNewtypeVariant,
    BadNone,
    BadTuple,
    BadTupleStruct,
    BadTupleVariant,
    BadMap,
    BadStruct,
    BadStructVariant,
    /// not stringifiable: a sequence as key
    BadSeq,
    /// not stringifiable: unit / none
    BadUnit,
}

#[derive(Clone, Debug, PartialEq)]
pub enum Dyn {
    Unit,
    None,
    Some(Box<Dyn>),
    Bool(bool),
    I8(i8),
    I16(i16),
    I32(i32),
    I64(i64),
    I128(i128),
    U8(u8),
    U16(u16),
    U32(u32),
    U64(u64),
    U128(u128),
    F32(f32),
    F64(f64),
    Char(char),
    Str(String),
    CollectStr(String),
    /// collect_str of a Display impl that emits char by char (`write_char`) / with fill padding
    CollectChars(String, u8),
    Bytes(Vec<u8>),
    Seq(Vec<Dyn>),
    Tuple(Vec<Dyn>),
    TupleStruct(Vec<Dyn>),
    Map(Vec<(Key, Dyn)>),
    Struct(Vec<(&'static str, Dyn)>),
    UnitStruct,
    NewtypeStruct(Box<Dyn>),
    UnitVariant(&'static str),
    NewtypeVariant(&'static str, Box<Dyn>),
    TupleVariant(&'static str, Vec<Dyn>),
    StructVariant(&'static str, Vec<(&'static str, Dyn)>),
}

/// a Display implementation that does not go through `write_str` with the whole text
pub struct CharsDisplay<'a>(pub &'a str, pub u8);

impl std::fmt::Display for CharsDisplay<'_> {
    fn fmt(&self, f: &mut std::fmt::Formatter<'_>) -> std::fmt::Result {
        use std::fmt::Write;
        match self.1 % 3 {
            0 => {
                for c in self.0.chars() {
                    f.write_char(c)?;
                }
                Ok(())
            }
            1 => {
                // alternate pieces and single chars through format arguments
                for (i, c) in self.0.chars().enumerate() {
                    if i % 2 == 0 {
                        write!(f, "{}", c)?;
                    } else {
                        let mut b = [0u8; 4];
                        f.write_str(c.encode_utf8(&mut b))?;
                    }
                }
                Ok(())
            }
            _ => {
                // fill padding with the first char of the text (may be a control / quote)
                let fill = self.0.chars().next().unwrap_or('\t');
                for _ in 0..3 {
                    f.write_char(fill)?;
                }
                f.write_str(self.0)
            }
        }
    }
}

/// what `CharsDisplay` prints
pub fn chars_display_text(x: &str, mode: u8) -> String {
    format!("{}", CharsDisplay(x, mode))
}

impl Key {
    /// a kind neither serializer can turn into a member name (or a non-finite float)
    pub fn is_bad(&self) -> bool {
        match self {
            Key::F64(f) => !f.is_finite(),
            Key::F32(f) => !f.is_finite(),
            Key::BadSeq | Key::BadUnit | Key::BadBytes | Key::BadUnitStruct | Key::BadNewtypeVariant | Key::BadNone | Key::BadTuple | Key::BadTupleStruct | Key::BadTupleVariant | Key::BadMap | Key::BadStruct | Key::BadStructVariant => true,
            _ => false,
        }
    }
}

impl Serialize for Key {
    fn serialize<S: Serializer>(&self, s: S) -> Result<S::Ok, S::Error> {
        match self {
            Key::Str(x) => s.serialize_str(x),
            Key::I(x) => s.serialize_i64(*x),
            Key::U(x) => s.serialize_u64(*x),
            Key::I8(x) => s.serialize_i8(*x),
            Key::I16(x) => s.serialize_i16(*x),
            Key::I32(x) => s.serialize_i32(*x),
            Key::U8(x) => s.serialize_u8(*x),
            Key::U16(x) => s.serialize_u16(*x),
            Key::U32(x) => s.serialize_u32(*x),
            Key::I128(x) => s.serialize_i128(*x),
            Key::NewtypeStr(x) => s.serialize_newtype_struct("N", x.as_str()),
            Key::U128(x) => s.serialize_u128(*x),
            Key::Bool(x) => s.serialize_bool(*x),
            Key::Char(x) => s.serialize_char(*x),
            Key::F64(x) => s.serialize_f64(*x),
            Key::UnitVariant(n) => s.serialize_unit_variant("E", 0, n),
            Key::F32(x) => s.serialize_f32(*x),
            Key::CollectStr(x) => s.collect_str(x),
            Key::BadBytes => s.serialize_bytes(b"ab"),
            Key::BadUnitStruct => s.serialize_unit_struct("U"),
            Key::BadNewtypeVariant => s.serialize_newtype_variant("E", 0, "V", "x"),
            Key::BadNone => s.serialize_none(),
            Key::BadTuple => {
                use serde::ser::SerializeTuple;
                let mut q = s.serialize_tuple(1)?;
                q.serialize_element(&1u8)?;
                q.end()
            }
            Key::BadTupleStruct => {
                use serde::ser::SerializeTupleStruct;
                let mut q = s.serialize_tuple_struct("T", 1)?;
                q.serialize_field(&1u8)?;
                q.end()
            }
            Key::BadTupleVariant => {
                use serde::ser::SerializeTupleVariant;
                let mut q = s.serialize_tuple_variant("E", 0, "V", 1)?;
                q.serialize_field(&1u8)?;
                q.end()
            }
            Key::BadMap => {
                use serde::ser::SerializeMap;
                let mut q = s.serialize_map(Some(1))?;
                q.serialize_entry("k", &1u8)?;
                q.end()
            }
            Key::BadStruct => {
                use serde::ser::SerializeStruct;
                let mut q = s.serialize_struct("S", 1)?;
                q.serialize_field("k", &1u8)?;
                q.end()
            }
            Key::BadStructVariant => {
                use serde::ser::SerializeStructVariant;
                let mut q = s.serialize_struct_variant("E", 0, "V", 1)?;
                q.serialize_field("k", &1u8)?;
                q.end()
            }
            Key::BadSeq => {
                let mut q = s.serialize_seq(Some(1))?;
                q.serialize_element(&1u8)?;
                q.end()
            }
            Key::BadUnit => s.serialize_unit(),
        }
    }
}

impl Serialize for Dyn {
    fn serialize<S: Serializer>(&self, s: S) -> Result<S::Ok, S::Error> {
        match self {
            Dyn::Unit => s.serialize_unit(),
            Dyn::None => s.serialize_none(),
            Dyn::Some(x) => s.serialize_some(&**x),
            Dyn::Bool(x) => s.serialize_bool(*x),
            Dyn::I8(x) => s.serialize_i8(*x),
            Dyn::I16(x) => s.serialize_i16(*x),
            Dyn::I32(x) => s.serialize_i32(*x),
            Dyn::I64(x) => s.serialize_i64(*x),
            Dyn::I128(x) => s.serialize_i128(*x),
            Dyn::U8(x) => s.serialize_u8(*x),
            Dyn::U16(x) => s.serialize_u16(*x),
            Dyn::U32(x) => s.serialize_u32(*x),
            Dyn::U64(x) => s.serialize_u64(*x),
            Dyn::U128(x) => s.serialize_u128(*x),
            Dyn::F32(x) => s.serialize_f32(*x),
            Dyn::F64(x) => s.serialize_f64(*x),
            Dyn::Char(x) => s.serialize_char(*x),
            Dyn::Str(x) => s.serialize_str(x),
            Dyn::CollectStr(x) => s.collect_str(x),
            Dyn::CollectChars(x, mode) => s.collect_str(&CharsDisplay(x, *mode)),
            Dyn::Bytes(x) => s.serialize_bytes(x),
            // the same sequence is announced in different ways (exact length, no length, serde's
            // collect_seq with an exact and with a zero lower-bound size hint)
            Dyn::Seq(v) => match v.len() % 4 {
                0 => {
                    let mut q = s.serialize_seq(Some(v.len()))?;
                    for x in v {
                        q.serialize_element(x)?;
                    }
                    q.end()
                }
                1 => {
                    let mut q = s.serialize_seq(None)?;
                    for x in v {
                        q.serialize_element(x)?;
                    }
                    q.end()
                }
                2 => s.collect_seq(v.iter()),
                _ => s.collect_seq(v.iter().filter(|_| true)),
            },
            Dyn::Tuple(v) => {
                let mut q = s.serialize_tuple(v.len())?;
                for x in v {
                    q.serialize_element(x)?;
                }
                q.end()
            }
            Dyn::TupleStruct(v) => {
                let mut q = s.serialize_tuple_struct("TS", v.len())?;
                for x in v {
                    q.serialize_field(x)?;
                }
                q.end()
            }
            Dyn::Map(v) => match v.len() % 4 {
                0 => {
                    let mut q = s.serialize_map(Some(v.len()))?;
                    for (k, x) in v {
                        q.serialize_entry(k, x)?;
                    }
                    q.end()
                }
                1 => {
                    let mut q = s.serialize_map(None)?;
                    for (k, x) in v {
                        q.serialize_key(k)?;
                        q.serialize_value(x)?;
                    }
                    q.end()
                }
                2 => s.collect_map(v.iter().map(|(k, x)| (k, x))),
                _ => s.collect_map(v.iter().filter(|_| true).map(|(k, x)| (k, x))),
            },
            Dyn::Struct(v) => {
                let mut q = s.serialize_struct("S", v.len())?;
                for (k, x) in v {
                    q.serialize_field(k, x)?;
                }
                q.end()
            }
            Dyn::UnitStruct => s.serialize_unit_struct("US"),
            Dyn::NewtypeStruct(x) => s.serialize_newtype_struct("NS", &**x),
            Dyn::UnitVariant(n) => s.serialize_unit_variant("E", 0, n),
            Dyn::NewtypeVariant(n, x) => s.serialize_newtype_variant("E", 1, n, &**x),
            Dyn::TupleVariant(n, v) => {
                let mut q = s.serialize_tuple_variant("E", 2, n, v.len())?;
                for x in v {
                    q.serialize_field(x)?;
                }
                q.end()
            }
            Dyn::StructVariant(n, v) => {
                let mut q = s.serialize_struct_variant("E", 3, n, v.len())?;
                for (k, x) in v {
                    q.serialize_field(k, x)?;
                }
                q.end()
            }
        }
    }
}

#[derive(Clone, Debug)]
pub struct DynOpts {
    pub max_depth: usize,
    pub bad_keys: bool,
    pub nonfinite: bool,
    pub wide_ints: bool,
    pub exotic_keys: bool,
    /// float map keys (their spelling is sonic's own: only for route-vs-route comparisons)
    pub float_keys: bool,
}

impl Default for DynOpts {
    fn default() -> Self {
        DynOpts { max_depth: 4, bad_keys: false, nonfinite: true, wide_ints: true, exotic_keys: true, float_keys: false }
    }
}

pub fn rand_text(r: &mut Rng) -> String {
    let o = crate::gen::doc::DocOpts::default();
    let mut g = crate::gen::doc::Gen::new(r, o);
    g.text()
}

pub fn rand_f64(r: &mut Rng) -> f64 {
    match r.below(8) {
        0 => *r.pick(&[0.0, -0.0, 1.0, -1.0, 0.1, 1e16, 1e-7, 1e21, 5e-324, f64::MAX, f64::MIN_POSITIVE, 123456789.125, f64::INFINITY, f64::NEG_INFINITY, f64::NAN]),
        1 => (r.next() as i64 as f64) / 1000.0,
        2 => r.below(1000) as f64,
        3 => f64::from_bits(r.next()),
        4 => {
            let e = r.below(2047);
            f64::from_bits((r.next() & 0x800F_FFFF_FFFF_FFFF) | (e << 52))
        }
        5 => (r.below(100000) as f64) * 10f64.powi(r.below(40) as i32 - 20),
        _ => r.below(1 << 53) as f64 * if r.chance(1, 2) { -1.0 } else { 1.0 },
    }
}

pub fn rand_f32(r: &mut Rng) -> f32 {
    match r.below(6) {
        0 => *r.pick(&[0.0f32, -0.0, 1.0, 0.1, 1e10, 1e-10, f32::MAX, f32::MIN_POSITIVE, 1.0e-45, 1678.6666, 16777216.0, f32::INFINITY, f32::NAN]),
        1 => f32::from_bits(r.next() as u32),
        2 => r.below(100000) as f32 / 100.0,
        3 => {
            let e = r.below(255) as u32;
            f32::from_bits((r.next() as u32 & 0x807F_FFFF) | (e << 23))
        }
        _ => (r.next() as i32 as f32) / 7.0,
    }
}

fn fix_nonfinite_f64(x: f64, allow: bool) -> f64 {
    if !allow && !x.is_finite() {
        1.5
    } else {
        x
    }
}

pub fn gen_key(r: &mut Rng, o: &DynOpts) -> Key {
    if o.bad_keys && r.chance(1, 8) {
        return match r.below(12) {
            0 => Key::BadSeq,
            1 => Key::BadUnit,
            2 => Key::BadBytes,
            3 => Key::BadUnitStruct,
            4 => Key::BadNewtypeVariant,
            5 => Key::BadNone,
            6 => Key::BadTuple,
            7 => Key::BadTupleStruct,
            8 => Key::BadTupleVariant,
            9 => Key::BadMap,
            10 => Key::BadStruct,
            _ => Key::BadStructVariant,
        };
    }
    if o.float_keys && r.chance(1, 12) {
        return if r.chance(1, 3) { Key::F32(rand_f32(r)) } else { Key::F64(if r.chance(1, 2) { rand_f32(r) as f64 } else { rand_f64(r) }) };
    }
    if !o.exotic_keys || r.chance(2, 3) {
        return Key::Str(if r.chance(2, 3) { r.pick(KEY_POOL).to_string() } else { rand_text(r) });
    }
    match r.below(16) {
        8 => Key::I16(r.next() as i16),
        9 => Key::I32(r.next() as i32),
        10 => Key::U8(r.next() as u8),
        11 => Key::U16(r.next() as u16),
        12 => Key::U32(r.next() as u32),
        13 => Key::I128(match r.below(4) {
            0 => i128::MIN,
            1 => i64::MIN as i128 - 1,
            2 => -(1i128 << 64),
            _ => (r.next() as i64 as i128) << r.below(64),
        }),
        14 => Key::NewtypeStr(rand_text(r)),
        15 => Key::CollectStr(rand_text(r)),
        0 => Key::I(r.next() as i64 >> r.below(64)),
        1 => Key::U(r.next() >> r.below(64)),
        2 => Key::I8(r.next() as i8),
        3 => Key::U128((r.next() as u128) << r.below(64)),
        4 => Key::Bool(r.chance(1, 2)),
        5 => Key::Char(*r.pick(&['a', '"', '\\', '\n', 'é', '日', '😀', '\u{0}', '\u{7f}'])),
        6 => Key::UnitVariant(*r.pick(&["A", "B", "quote\"", "nl\n"])),
        // float keys are left out: their spelling (e176 vs e+176) is not fixed by the property
        _ => Key::I(r.next() as i64),
    }
}

pub fn gen_dyn(r: &mut Rng, o: &DynOpts, depth: usize) -> Dyn {
    let leaf = depth >= o.max_depth;
    let k = if leaf { r.below(22) } else { r.below(34) };
    let n = |r: &mut Rng| match r.below(6) {
        0 => 0,
        1 | 2 => 1,
        3 | 4 => r.range(2, 4),
        _ => r.range(3, 9),
    };
    match k {
        0 => Dyn::Unit,
        1 => Dyn::None,
        2 => Dyn::Bool(r.chance(1, 2)),
        3 => Dyn::I8(r.next() as i8),
        4 => Dyn::I16(r.next() as i16),
        5 => Dyn::I32(r.next() as i32),
        6 => Dyn::I64(match r.below(4) {
            0 => i64::MIN,
            1 => i64::MAX,
            _ => r.next() as i64 >> r.below(64),
        }),
        7 => Dyn::I128(if o.wide_ints {
            match r.below(9) {
                0 => i128::MIN,
                1 => i128::MAX,
                2 => -(1i128 << 64),
                // the 64-bit boundaries, where the DOM route switches between Ok and Err
                3 => *r.pick(&[i64::MIN as i128, i64::MIN as i128 - 1, i64::MIN as i128 + 1, i64::MAX as i128, i64::MAX as i128 + 1]),
                4 => *r.pick(&[u64::MAX as i128, u64::MAX as i128 + 1, u64::MAX as i128 - 1, 0, -1]),
                _ => (((r.next() as u128) << 64) | r.next() as u128) as i128 >> r.below(128),
            }
        } else {
            r.next() as i64 as i128
        }),
        8 => Dyn::U8(r.next() as u8),
        9 => Dyn::U16(r.next() as u16),
        10 => Dyn::U32(r.next() as u32),
        11 => Dyn::U64(match r.below(4) {
            0 => u64::MAX,
            1 => 0,
            _ => r.next() >> r.below(64),
        }),
        12 => Dyn::U128(if o.wide_ints {
            match r.below(6) {
                0 => u128::MAX,
                1 => 1u128 << 64,
                2 => *r.pick(&[u64::MAX as u128, u64::MAX as u128 + 1, u64::MAX as u128 - 1, i64::MAX as u128, i64::MAX as u128 + 1]),
                _ => (((r.next() as u128) << 64) | r.next() as u128) >> r.below(128),
            }
        } else {
            r.next() as u128
        }),
        13 => Dyn::F32({
            let x = rand_f32(r);
            if !o.nonfinite && !x.is_finite() {
                2.5
            } else {
                x
            }
        }),
        14 => Dyn::F64(fix_nonfinite_f64(rand_f64(r), o.nonfinite)),
        15 => Dyn::Char(*r.pick(&['a', 'Z', '"', '\\', '\n', '\t', '\u{0}', '\u{1f}', '\u{7f}', 'é', '日', '😀', '\u{10ffff}', '/'])),
        16 | 17 => Dyn::Str(rand_text(r)),
        18 => {
            if r.chance(1, 2) {
                Dyn::CollectStr(rand_text(r))
            } else {
                Dyn::CollectChars(rand_text(r), r.next() as u8)
            }
        }
        19 => {
            // byte strings of every small length and around the 64 / 128 / 256 block sizes
            let n = match r.below(4) {
                0 => *r.pick(&[63usize, 64, 65, 127, 128, 129, 191, 192, 193, 255, 256, 257, 300]),
                _ => r.range(0, 40),
            };
            Dyn::Bytes((0..n).map(|_| r.next() as u8).collect())
        }
        20 => Dyn::UnitStruct,
        21 => Dyn::UnitVariant(*r.pick(&["A", "B", "quote\"", "nl\n", "é"])),
        22 => Dyn::Some(Box::new(gen_dyn(r, o, depth + 1))),
        23 | 24 => Dyn::Seq((0..n(r)).map(|_| gen_dyn(r, o, depth + 1)).collect()),
        25 => Dyn::Tuple((0..n(r)).map(|_| gen_dyn(r, o, depth + 1)).collect()),
        26 => Dyn::TupleStruct((0..n(r)).map(|_| gen_dyn(r, o, depth + 1)).collect()),
        27 | 28 => {
            let c = n(r);
            let mut v: Vec<(Key, Dyn)> = vec![];
            for _ in 0..c {
                let k = gen_key(r, o);
                if v.iter().any(|(k2, _)| key_text(k2) == key_text(&k)) {
                    continue;
                }
                v.push((k, gen_dyn(r, o, depth + 1)));
            }
            Dyn::Map(v)
        }
        29 | 30 => {
            let c = n(r);
            let mut v: Vec<(&'static str, Dyn)> = vec![];
            for _ in 0..c {
                let k = *r.pick(KEY_POOL);
                if v.iter().any(|(k2, _)| *k2 == k) {
                    continue;
                }
                v.push((k, gen_dyn(r, o, depth + 1)));
            }
            Dyn::Struct(v)
        }
        31 => Dyn::NewtypeStruct(Box::new(gen_dyn(r, o, depth + 1))),
        32 => Dyn::NewtypeVariant(*r.pick(&["N", "quote\"", "日"]), Box::new(gen_dyn(r, o, depth + 1))),
        _ => {
            if r.chance(1, 2) {
                Dyn::TupleVariant(*r.pick(&["T", "t\t"]), (0..n(r)).map(|_| gen_dyn(r, o, depth + 1)).collect())
            } else {
                let c = n(r);
                let mut v: Vec<(&'static str, Dyn)> = vec![];
                for _ in 0..c {
                    let k = *r.pick(KEY_POOL);
                    if v.iter().any(|(k2, _)| *k2 == k) {
                        continue;
                    }
                    v.push((k, gen_dyn(r, o, depth + 1)));
                }
                Dyn::StructVariant(*r.pick(&["SV", "s v"]), v)
            }
        }
    }
}

/// the string a stringifiable key becomes (None for the non-stringifiable kinds)
pub fn key_text(k: &Key) -> Option<String> {
    Some(match k {
        Key::Str(s) => s.clone(),
        Key::I(x) => x.to_string(),
        Key::U(x) => x.to_string(),
        Key::I8(x) => x.to_string(),
        Key::I16(x) => x.to_string(),
        Key::I32(x) => x.to_string(),
        Key::U8(x) => x.to_string(),
        Key::U16(x) => x.to_string(),
        Key::U32(x) => x.to_string(),
        Key::I128(x) => x.to_string(),
        Key::NewtypeStr(x) => x.clone(),
        Key::U128(x) => x.to_string(),
        Key::Bool(x) => x.to_string(),
        Key::Char(c) => c.to_string(),
        Key::F64(_) | Key::F32(_) => return None,
        Key::CollectStr(x) => x.clone(),
        Key::UnitVariant(n) => n.to_string(),
        _ => return None,
    })
}

impl Dyn {
    pub fn has_bad_key(&self) -> bool {
        self.any(&|d| matches!(d, Dyn::Map(v) if v.iter().any(|(k, _)| k.is_bad())))
    }
    pub fn any(&self, f: &dyn Fn(&Dyn) -> bool) -> bool {
        if f(self) {
            return true;
        }
        match self {
            Dyn::Some(x) | Dyn::NewtypeStruct(x) | Dyn::NewtypeVariant(_, x) => x.any(f),
            Dyn::Seq(v) | Dyn::Tuple(v) | Dyn::TupleStruct(v) | Dyn::TupleVariant(_, v) => v.iter().any(|x| x.any(f)),
            Dyn::Map(v) => v.iter().any(|(_, x)| x.any(f)),
            Dyn::Struct(v) | Dyn::StructVariant(_, v) => v.iter().any(|(_, x)| x.any(f)),
            _ => false,
        }
    }
}
