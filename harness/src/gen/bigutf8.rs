//! Documents of a few MiB whose multi-byte characters straddle the offsets k * 256 KiB (what a
//! block-wise UTF-8 validation, a chunked copy or a chunked escaper would cut at), and the same
//! with one ill-formed sequence sitting right on such an offset.

/// number of distinct documents
pub const VARIANTS: usize = 32;

const CHARS: [&str; 6] = ["é", "中", "€", "😀", "𝄞", "\u{10FFFF}"];
/// (character, bytes before the boundary)
const SPLITS: [(usize, usize); 8] = [(0, 1), (1, 1), (2, 2), (3, 1), (4, 2), (5, 3), (3, 3), (1, 2)];
/// ill-formed sequences (the first byte promises more than what follows delivers)
const BAD: [&[u8]; 8] = [b"\xed\xa0\x80", b"\xe0\x80\x80", b"\xf0\x80\x80\x80", b"\xf4\x90\x80\x80", b"\xc0\x80", b"\xe2\x82", b"\x80", b"\xf8\x88\x80\x80\x80"];

/// variant j: (document, is it well-formed). The document is
/// `{"s":"<body>","arr":[1,"<short>"],"t":17}`; variants 0..8 are well-formed, 8..32 carry one
/// ill-formed sequence whose first byte lies 1..3 bytes before a boundary.
pub fn make(j: usize) -> (Vec<u8>, bool) {
    let j = j % VARIANTS;
    let bound = 1usize << 18;
    let nb = 9; // boundaries 1..=9 (2.25 MiB)
    let mut d: Vec<u8> = b"{\"s\":\"".to_vec();
    let bad_at = if j >= 8 { Some(1 + (j * 5) % nb) } else { None };
    for k in 1..=nb {
        let b = k * bound;
        if Some(k) == bad_at {
            let seq = BAD[j % 8];
            let before = 1 + (j / 8 + k) % 3;
            while d.len() < b - before {
                d.push(b'a' + (d.len() % 23) as u8);
            }
            d.extend_from_slice(seq);
        } else {
            let (c, before) = SPLITS[(j + k) % 8];
            while d.len() < b - before {
                d.push(b'a' + (d.len() % 23) as u8);
            }
            d.extend_from_slice(CHARS[c].as_bytes());
        }
    }
    d.extend_from_slice(b" tail\",\"arr\":[1,\"\xc3\xa9x\"],\"t\":17}");
    (d, bad_at.is_none())
}
