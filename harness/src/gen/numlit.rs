//! Number-literal generators: exact decimal expansions, halfway cases, boundaries.
use crate::rng::Rng;

/// exact decimal expansion of a finite non-negative f64 as (integer digits, fraction digits),
/// fraction has exactly `PREC` digits
const PREC: usize = 1080;

pub fn exact_dec(x: f64) -> (Vec<u8>, Vec<u8>) {
    let s = format!("{:.*}", PREC, x);
    let (i, f) = s.split_once('.').unwrap();
    (i.bytes().map(|c| c - b'0').collect(), f.bytes().map(|c| c - b'0').collect())
}

/// a + b on (int, frac) digit vectors with equal fraction lengths
pub fn add(a: &(Vec<u8>, Vec<u8>), b: &(Vec<u8>, Vec<u8>)) -> (Vec<u8>, Vec<u8>) {
    let fl = a.1.len().max(b.1.len());
    let mut fa = a.1.clone();
    fa.resize(fl, 0);
    let mut fb = b.1.clone();
    fb.resize(fl, 0);
    let il = a.0.len().max(b.0.len()) + 1;
    let mut ia = vec![0u8; il - a.0.len()];
    ia.extend_from_slice(&a.0);
    let mut ib = vec![0u8; il - b.0.len()];
    ib.extend_from_slice(&b.0);
    let mut carry = 0;
    let mut f = vec![0u8; fl];
    for k in (0..fl).rev() {
        let s = fa[k] + fb[k] + carry;
        f[k] = s % 10;
        carry = s / 10;
    }
    let mut i = vec![0u8; il];
    for k in (0..il).rev() {
        let s = ia[k] + ib[k] + carry;
        i[k] = s % 10;
        carry = s / 10;
    }
    while i.len() > 1 && i[0] == 0 {
        i.remove(0);
    }
    (i, f)
}

/// x / 2 (one more fraction digit)
pub fn halve(a: &(Vec<u8>, Vec<u8>)) -> (Vec<u8>, Vec<u8>) {
    let mut rem = 0u8;
    let mut i = Vec::with_capacity(a.0.len());
    for d in &a.0 {
        let v = rem * 10 + d;
        i.push(v / 2);
        rem = v % 2;
    }
    let mut f = Vec::with_capacity(a.1.len() + 1);
    for d in &a.1 {
        let v = rem * 10 + d;
        f.push(v / 2);
        rem = v % 2;
    }
    f.push(rem * 10 / 2);
    while i.len() > 1 && i[0] == 0 {
        i.remove(0);
    }
    (i, f)
}

pub fn render(a: &(Vec<u8>, Vec<u8>)) -> String {
    let mut s = String::new();
    for d in &a.0 {
        s.push((b'0' + d) as char);
    }
    let mut f = a.1.clone();
    while f.last() == Some(&0) {
        f.pop();
    }
    if !f.is_empty() {
        s.push('.');
        for d in &f {
            s.push((b'0' + d) as char);
        }
    }
    s
}

/// the three literals around the midpoint between `x` and its successor: just below, exact, just above
pub fn halfway(x: f64) -> Option<[String; 3]> {
    if !x.is_finite() || x < 0.0 {
        return None;
    }
    let y = f64::from_bits(x.to_bits() + 1);
    if !y.is_finite() {
        // midpoint between MAX and "2^1024"
        let ulp = x - f64::from_bits(x.to_bits() - 1);
        let mid = add(&exact_dec(x), &halve(&exact_dec(ulp)));
        return Some(around(&mid));
    }
    let ulp = y - x; // exact (power of two, representable)
    let mid = add(&exact_dec(x), &halve(&exact_dec(ulp)));
    Some(around(&mid))
}

/// the halfway point with a deviation only beyond the 768 significant digits a bounded decimal
/// buffer keeps: `exact` followed by zeros and a final 1 (just above), and the just-below spelling
/// carried on with 9s
pub fn halfway_far(x: f64, total: usize) -> Option<[String; 2]> {
    let [below, exact, _] = halfway(x)?;
    let sig = |s: &str| s.bytes().filter(|c| c.is_ascii_digit()).skip_while(|c| *c == b'0').count();
    let mut above = if exact.contains('.') { exact.clone() } else { format!("{}.", exact) };
    let n = sig(&above);
    above.push_str(&"0".repeat(total.saturating_sub(n + 1)));
    above.push('1');
    let mut b = below;
    let n = sig(&b);
    b.push_str(&"9".repeat(total.saturating_sub(n)));
    Some([b, above])
}

fn around(mid: &(Vec<u8>, Vec<u8>)) -> [String; 3] {
    let exact = render(mid);
    // just above: append a 1 far behind
    let above = if exact.contains('.') { format!("{}0001", exact) } else { format!("{}.0001", exact) };
    // just below: the last significant digit is non-zero: decrement it and append 9s
    let mut b = exact.clone().into_bytes();
    let mut k = b.len() - 1;
    while b[k] == b'.' || b[k] == b'0' {
        k -= 1;
    }
    b[k] -= 1;
    let mut below = String::from_utf8(b).unwrap();
    if !below.contains('.') {
        below.push('.');
    }
    below.push_str("9999");
    // normalise a possible leading zero run like "09" -> keep JSON-valid: strip leading zeros of int part
    [fix_leading(below), fix_leading(exact), fix_leading(above)]
}

fn fix_leading(s: String) -> String {
    let (i, f) = match s.split_once('.') {
        Some((i, f)) => (i.to_string(), Some(f.to_string())),
        None => (s.clone(), None),
    };
    let t = i.trim_start_matches('0');
    let i = if t.is_empty() { "0" } else { t };
    match f {
        Some(f) => format!("{}.{}", i, f),
        None => i.to_string(),
    }
}

/// re-spell a plain decimal literal with an exponent (value unchanged)
pub fn respell(r: &mut Rng, lit: &str) -> String {
    let (neg, body) = match lit.strip_prefix('-') {
        Some(b) => (true, b),
        None => (false, lit),
    };
    let (i, f) = body.split_once('.').unwrap_or((body, ""));
    let digits: String = format!("{}{}", i, f);
    let point = i.len() as i64; // value = 0.digits * 10^point
    let dtrim = digits.trim_start_matches('0');
    if dtrim.is_empty() {
        return lit.to_string();
    }
    let lead_zeros = (digits.len() - dtrim.len()) as i64;
    let point = point - lead_zeros;
    // d.ddd e(point-1)
    let mut m = String::new();
    m.push_str(&dtrim[..1]);
    if dtrim.len() > 1 {
        m.push('.');
        m.push_str(&dtrim[1..]);
    }
    let e = point - 1;
    let es = match r.below(3) {
        0 => format!("e{}", e),
        1 => format!("E{}{}", if e >= 0 { "+" } else { "" }, e),
        _ => format!("e{}{:03}", if e < 0 { "-" } else { "" }, e.abs()),
    };
    format!("{}{}{}", if neg { "-" } else { "" }, m, es)
}

/// re-spell a plain decimal literal as an integer significand with an exponent (value unchanged):
/// `562949953421312.0625` -> `5629499534213120625e-4`, optionally with padding zeros
/// (`...06250e-5`) or a few of the trailing integer zeros moved into the exponent
pub fn respell_int(r: &mut Rng, lit: &str) -> String {
    let (neg, body) = match lit.strip_prefix('-') {
        Some(b) => (true, b),
        None => (false, lit),
    };
    let (i, f) = body.split_once('.').unwrap_or((body, ""));
    let mut digits: String = format!("{}{}", i, f);
    let mut e = -(f.len() as i64);
    let t = digits.trim_start_matches('0').to_string();
    if t.is_empty() {
        return lit.to_string();
    }
    digits = t;
    match r.below(3) {
        0 => {}
        1 => {
            let k = 1 + r.below(3) as usize;
            digits.push_str(&"0".repeat(k));
            e -= k as i64;
        }
        _ => {
            while digits.len() > 1 && digits.ends_with('0') && r.chance(2, 3) {
                digits.pop();
                e += 1;
            }
        }
    }
    format!("{}{}e{}", if neg { "-" } else { "" }, digits, e)
}

/// doubles whose tie with the successor has at most 19 significant decimal digits, a few of them
/// behind the point (integers of 47..53 bits, optionally scaled by a small power of two)
pub fn short_tie_base(r: &mut Rng) -> f64 {
    let bits = 44 + r.below(10);
    let m = (1u64 << bits) | (r.next() & ((1u64 << bits) - 1));
    let m = if r.chance(1, 2) { m & !1 } else { m };
    let x = m as f64;
    match r.below(4) {
        0 => x,
        1 => x / 2.0,
        2 => x / 8.0,
        _ => x * 4.0,
    }
}

pub fn random_f64_bits(r: &mut Rng) -> f64 {
    match r.below(8) {
        0 => f64::from_bits(r.next() & 0x7FFF_FFFF_FFFF_FFFF),
        1 => f64::from_bits(r.below(0x0010_0000_0000_0000 * 2)), // subnormals and first normals
        2 => f64::from_bits(0x7FEF_FFFF_FFFF_FFFF - r.below(1 << 20)), // near max
        3 => {
            // around powers of two
            let e = r.below(2046) + 1;
            let base = e << 52;
            f64::from_bits(if r.chance(1, 2) { base + r.below(4) } else { base - 1 - r.below(4) })
        }
        4 => {
            // around powers of ten
            let p = r.below(600) as i32 - 300;
            let x = 10f64.powi(p);
            f64::from_bits((x.to_bits() as i64 + r.below(5) as i64 - 2) as u64 & 0x7FFF_FFFF_FFFF_FFFF)
        }
        5 => (r.next() >> r.below(64)) as f64,
        6 => {
            let e = r.below(2047);
            f64::from_bits((e << 52) | *r.pick(&[0u64, 1, 0xF_FFFF_FFFF_FFFF, 0x8_0000_0000_0000]))
        }
        _ => f64::from_bits(r.next() & 0x7FFF_FFFF_FFFF_FFFF),
    }
}

/// k-digit mantissas around the largest finite double (and around the rounding threshold to
/// infinity) with the matching exponent: `17976931348623157e292`, `2000000000000000000e290`, ...
/// in integer, fraction and exponent spellings
pub fn overflow_boundary(r: &mut Rng) -> String {
    let (ip, _) = exact_dec(f64::MAX);
    let maxd: String = ip.iter().map(|d| (b'0' + d) as char).collect(); // 309 digits
    let k = match r.below(4) {
        0 => r.range(1, 22),
        1 => r.range(15, 21),
        2 => 19,
        _ => r.range(1, 60),
    }
    .min(maxd.len());
    let mut m: Vec<u8> = match r.below(6) {
        0 => vec![b'9'; k],
        1 => {
            let mut v = vec![b'0'; k];
            v[0] = b'2';
            v
        }
        2 => {
            let mut v = vec![b'0'; k];
            v[0] = b'1';
            if k > 1 {
                v[1] = b'8';
            }
            v
        }
        _ => maxd.as_bytes()[..k].to_vec(),
    };
    // +-1..2 in the last place (with carry)
    let delta = r.below(5) as i32 - 2;
    let mut carry = delta;
    for i in (0..m.len()).rev() {
        if carry == 0 {
            break;
        }
        let d = (m[i] - b'0') as i32 + carry;
        if d > 9 {
            m[i] = b'0' + (d - 10) as u8;
            carry = 1;
        } else if d < 0 {
            m[i] = b'0' + (d + 10) as u8;
            carry = -1;
        } else {
            m[i] = b'0' + d as u8;
            carry = 0;
        }
    }
    if m[0] == b'0' {
        m[0] = b'1';
    }
    let e = 309 - k as i64 + (r.below(3) as i64 - 1) * (r.chance(1, 3) as i64);
    let ms = String::from_utf8(m).unwrap();
    let sign = if r.chance(1, 4) { "-" } else { "" };
    match r.below(4) {
        0 if k > 1 => {
            let j = r.range(1, k - 1).max(1);
            format!("{}{}.{}e{}", sign, &ms[..j], &ms[j..], e + (k - j) as i64)
        }
        1 => format!("{}{}E+{}", sign, ms, e),
        2 if e >= 0 && e < 330 => format!("{}{}{}", sign, ms, "0".repeat(e as usize)),
        _ => format!("{}{}e{}", sign, ms, e),
    }
}

/// assorted hostile literals (valid and invalid)
pub fn hostile(r: &mut Rng) -> String {
    let digits = |r: &mut Rng, lo: usize, hi: usize| -> String {
        let n = r.range(lo, hi);
        (0..n).map(|_| (b'0' + r.below(10) as u8) as char).collect()
    };
    let nz = |r: &mut Rng| (b'1' + r.below(9) as u8) as char;
    match r.below(26) {
        24 | 25 => {
            // exponents of four and more digits that the significand's padding zeros compensate
            // (the scanned exponent is not the net exponent)
            let k = *r.pick(&[330usize, 999, 1000, 1001, 1740, 2047, 2048, 2049, 2500, 4000, 9999, 10000]);
            let d = 1 + r.below(9);
            match r.below(4) {
                0 => format!("0.{}{}e{}", "0".repeat(k - 1), d, k),
                1 => format!("{}{}e-{}", d, "0".repeat(k), k),
                2 => format!("0.{}{}E+{}", "0".repeat(k), d, k + r.below(3) as usize),
                _ => format!("{}{}.5e-{}", d, "0".repeat(k), k + r.below(3) as usize),
            }
        }
        22 | 23 => overflow_boundary(r),
        0 => format!("{}{}", nz(r), digits(r, 0, 800)),
        1 => format!("0.{}{}", "0".repeat(r.range(0, 400)), digits(r, 1, 30)),
        2 => format!("{}e{}", r.below(1000), r.below(800) as i64 - 400),
        3 => format!("{}.{}e{}", r.below(10), digits(r, 1, 25), r.below(800) as i64 - 400),
        4 => {
            // 19/20 digit boundaries
            let b: u128 = *r.pick(&[1u128 << 63, 1u128 << 64, 10u128.pow(19), 10u128.pow(18), (1u128 << 63) - 1, u64::MAX as u128, 99999999999999999999u128, 18446744073709551610]);
            let v = b as i128 + r.below(5) as i128 - 2;
            format!("{}{}", if r.chance(1, 2) { "-" } else { "" }, v)
        }
        5 => {
            // '.'/'e' at every offset of a long digit run
            let n = r.range(1, 70);
            let m = r.range(1, 40);
            if r.chance(1, 2) {
                format!("{}{}.{}", nz(r), digits(r, n - 1, n - 1), digits(r, m, m))
            } else {
                format!("{}{}e{}", nz(r), digits(r, n - 1, n - 1), r.below(40) as i64 - 20)
            }
        }
        6 => format!("{}e{}", nz(r), *r.pick(&["400", "-400", "308", "309", "-323", "-324", "-325", "999999999", "-999999999", "99999999999999999999", "-99999999999999999999", "2147483647", "2147483648", "-2147483649", "18446744073709551616"])),
        7 => format!("0e{}", *r.pick(&["0", "999", "-999", "99999999999999999999", "+5"])),
        8 => format!("0.{}e{}", "0".repeat(r.range(1, 30)), r.below(100)),
        9 => format!("{}.{}", r.next(), r.next()),
        10 => format!("-{}", digits(r, 1, 30).trim_start_matches('0')),
        11 => format!("{}{}", *r.pick(&["1.7976931348623157e308", "1.7976931348623158e308", "1.7976931348623159e308", "4.9e-324", "2.4703282292062327e-324", "2.4703282292062328e-324", "2.2250738585072014e-308", "2.2250738585072011e-308", "9007199254740993", "9007199254740992.5", "0.1", "1e23", "8.5e-324"]), ""),
        12 => format!("{}", (r.next() as i64) >> r.below(63)),
        13 => format!("{}", r.next() >> r.below(64)),
        14 => format!("{}.0", r.next() >> r.below(64)),
        15 => format!("{}E{}", r.below(100), r.below(30)),
        // invalid spellings
        16 => (*r.pick(&["01", "-01", "1.", ".5", "-", "1e", "1e+", "+1", "--1", "1.e3", "00", "-0.", "1.2.3", "1ee3", "0x10", "1_0", "1e1.5", "e5", "-.5", "1E-", "Infinity", "NaN", "-Infinity", "1e٣"])).to_string(),
        17 => format!("{}{}", digits(r, 1, 25), *r.pick(&[".", "e", "e-", "E+", ".e1", "..1"])),
        18 => format!("0{}", digits(r, 1, 20)),
        19 => format!("{}e{}", r.below(100), *r.pick(&["-0", "+0", "00", "-00", "+007"])),
        20 => format!("{}{}e-{}", nz(r), digits(r, 17, 40), r.range(1, 60)),
        _ => format!("-0{}", *r.pick(&["", ".0", "e0", "e-5", ".000", "E+10", ".0e0", "0"])),
    }
}

/// Number-shaped tokens built for the block-wise number skipper: `n` integer digits followed by a
/// well-formed or malformed tail, so that the `.` / `e` / sign lands on every lane of a 32-byte
/// block as `n` varies. Returns (token, is_valid_json_number).
pub const SHAPE_TAILS: &[&str] = &["", ".", ".5", ".e5", "e", "e5", "e+", "e+5", "E-", ".5e", ".5e-", ".5e-3", "..5", ".5.5", "e5e5", "-", "+1", ".-5", "e.5", ".5E+07", "x"];

pub fn number_shape(n: usize, tail: usize, neg: bool, frac_digits: usize) -> String {
    let mut s = String::new();
    if neg {
        s.push('-');
    }
    for i in 0..n {
        s.push((b'1' + (i % 9) as u8) as char);
    }
    let t = SHAPE_TAILS[tail % SHAPE_TAILS.len()];
    // stretch the fraction so the exponent marker also moves across lanes
    if frac_digits > 0 && t.starts_with(".5") {
        s.push_str(".5");
        for i in 0..frac_digits {
            s.push((b'0' + (i % 10) as u8) as char);
        }
        s.push_str(&t[2..]);
    } else {
        s.push_str(t);
    }
    s
}
