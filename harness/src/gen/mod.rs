//! Seeded generators and mutators.
pub mod bigutf8;
pub mod doc;
pub mod dynval;
pub mod mutate;
pub mod numlit;
pub mod tokens;
