//! Seeded generators and mutators.
pub mod doc;
pub mod mutate;
pub mod tokens;
