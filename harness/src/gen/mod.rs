//! Seeded generators and mutators.
pub mod doc;
pub mod dynval;
pub mod mutate;
pub mod numlit;
pub mod tokens;
