//! Grammar-directed generator of well-formed JSON documents with SIMD-hostile placement.
use crate::rng::Rng;

#[derive(Clone, Debug)]
pub struct DocOpts {
    pub max_depth: usize,
    /// rough budget of nodes
    pub budget: usize,
    pub dup_keys: bool,
    /// 0 = none, 1 = sparse single blanks, 2 = runs up to 70
    pub ws: u8,
    /// escapes inside strings/keys
    pub escapes: bool,
    /// non-ASCII text
    pub unicode: bool,
    /// long / exotic number spellings
    pub wild_numbers: bool,
    /// long strings whose length targets block edges
    pub long_strings: bool,
}

impl Default for DocOpts {
    fn default() -> Self {
        DocOpts {
            max_depth: 6,
            budget: 40,
            dup_keys: false,
            ws: 1,
            escapes: true,
            unicode: true,
            wild_numbers: true,
            long_strings: true,
        }
    }
}

impl DocOpts {
    pub fn random(r: &mut Rng) -> DocOpts {
        DocOpts {
            max_depth: *r.pick(&[1, 2, 3, 5, 8, 12]),
            budget: *r.pick(&[1, 3, 8, 20, 40, 80, 200]),
            dup_keys: false,
            ws: r.below(3) as u8,
            escapes: r.chance(3, 4),
            unicode: r.chance(3, 4),
            wild_numbers: r.chance(1, 2),
            long_strings: r.chance(1, 2),
        }
    }
}

pub const KEY_POOL: &[&str] = &[
    "a", "b", "c", "id", "name", "", "k1", "key with space", "x", "y", "z", "data", "0", "1", "~", "/",
    "a/b", "é", "日本", "😀", "quote\"", "back\\slash", "nl\n", "tab\t", "[", "{", "}", "]", ",", ":",
    "longer_key_name_that_exceeds_sixteen", "longer_key_name_that_exceeds_thirty_two_bytes_total",
];

pub struct Gen<'a> {
    pub r: &'a mut Rng,
    pub o: DocOpts,
    pub out: Vec<u8>,
    budget: isize,
}

/// text that mimics the library's own diagnostics (position suffixes, snippet framing, category words)
pub const MESSAGE_FRAGMENTS: &[&str] = &[
    " at line 3 column 5",
    " at line 7 column 3\n\n\tsee",
    " at line \u{663}",
    " at line \u{b2} column \u{ff11}",
    " at line 1 column ",
    " at line 18446744073709551616 column 1",
    "EOF while parsing",
    "invalid type: string \"x\", expected u8 at line 1 column 2",
    "\n\n\t",
    "\n\t....^....\n",
];

impl<'a> Gen<'a> {
    pub fn new(r: &'a mut Rng, o: DocOpts) -> Self {
        let b = o.budget as isize;
        Gen { r, o, out: Vec::new(), budget: b }
    }

    pub fn ws(&mut self) {
        match self.o.ws {
            0 => {}
            1 => {
                if self.r.chance(1, 4) {
                    let c = *self.r.pick(&[b' ', b'\n', b'\t', b'\r']);
                    self.out.push(c);
                }
            }
            _ => {
                if self.r.chance(1, 3) {
                    let n = if self.r.chance(1, 6) {
                        // (now and then longer than one, two and three 64-byte blocks)
                        if self.r.chance(1, 3) {
                            if self.r.chance(1, 6) { self.r.range(300, 700) } else { self.r.range(60, 210) }
                        } else {
                            self.r.range(1, 70)
                        }
                    } else {
                        self.r.range(1, 3)
                    };
                    for _ in 0..n {
                        let c = *self.r.pick(&[b' ', b' ', b' ', b'\n', b'\t', b'\r']);
                        self.out.push(c);
                    }
                }
            }
        }
    }

    pub fn value(&mut self, depth: usize) {
        self.budget -= 1;
        let leaf = depth >= self.o.max_depth || self.budget <= 0;
        let k = if leaf { self.r.below(6) } else { self.r.below(10) };
        match k {
            0 => self.out.extend_from_slice(b"null"),
            1 => self.out.extend_from_slice(b"true"),
            2 => self.out.extend_from_slice(b"false"),
            3 | 4 => self.number(),
            5 => self.string(),
            6 | 7 => self.array(depth),
            _ => self.object(depth),
        }
    }

    pub fn array(&mut self, depth: usize) {
        self.out.push(b'[');
        self.ws();
        let n = self.count();
        for i in 0..n {
            if i > 0 {
                self.out.push(b',');
                self.ws();
            }
            self.value(depth + 1);
            self.ws();
        }
        self.out.push(b']');
    }

    fn count(&mut self) -> usize {
        match self.r.below(10) {
            0 | 1 => 0,
            2 | 3 => 1,
            4 | 5 | 6 => self.r.range(2, 4),
            7 | 8 => self.r.range(3, 9),
            _ => self.r.range(5, 40),
        }
    }

    pub fn object(&mut self, depth: usize) {
        self.out.push(b'{');
        self.ws();
        let n = self.count();
        let mut used: Vec<String> = vec![];
        let mut first = true;
        for _ in 0..n {
            let mut key = self.key();
            // near-twins of a sibling's name: the same with trailing NULs / a blank / one more
            // character, a prefix of it, another case (what a cache keyed on part of the name, or a
            // comparison stopping early, would confuse)
            if !used.is_empty() && self.o.escapes && self.r.chance(1, 12) {
                let base = used[self.r.below(used.len() as u64) as usize].clone();
                key = match self.r.below(7) {
                    0 => format!("{}\u{0}", base),
                    1 => format!("{}\u{0}\u{0}", base),
                    2 => format!("{} ", base),
                    3 => format!("{}{}", base, base.chars().last().unwrap_or('x')),
                    4 => base.chars().take(base.chars().count().saturating_sub(1)).collect(),
                    5 => base.to_uppercase(),
                    _ => format!("\u{0}{}", base),
                };
            }
            if !self.o.dup_keys {
                let mut tries = 0;
                while used.contains(&key) {
                    tries += 1;
                    key = if tries > 3 { format!("{}{}", key, used.len()) } else { self.key() };
                }
            }
            used.push(key.clone());
            if !first {
                self.out.push(b',');
                self.ws();
            }
            first = false;
            self.write_string(&key);
            self.ws();
            self.out.push(b':');
            self.ws();
            self.value(depth + 1);
            self.ws();
        }
        self.out.push(b'}');
    }

    pub fn key(&mut self) -> String {
        if self.r.chance(5, 6) {
            let k = *self.r.pick(KEY_POOL);
            let ok = (self.o.unicode || k.is_ascii())
                && (self.o.escapes || !k.bytes().any(|c| c == b'"' || c == b'\\' || c < 0x20));
            if ok {
                return k.to_string();
            }
            return "k".to_string();
        }
        self.text()
    }

    pub fn number(&mut self) {
        let r = &mut *self.r;
        let wild = self.o.wild_numbers;
        let s: String = match r.below(if wild { 23 } else { 6 }) {
            20..=22 => {
                // the edges of the f64 range (kept finite): around f64::MAX with 1..60-digit
                // mantissas, subnormal / smallest-normal boundaries, random doubles re-spelled
                let t = match r.below(3) {
                    0 => crate::gen::numlit::overflow_boundary(r),
                    1 => (*r.pick(&["4.9e-324", "5e-324", "2.4703282292062328e-324", "2.2250738585072014e-308", "2.2250738585072011e-308", "1e-320", "1.7976931348623157e308", "17976931348623157e292", "0.17976931348623157E+309", "1e308", "9.999999999999999e307", "1e-400", "123e-330"])).to_string(),
                    _ => {
                        let x = crate::gen::numlit::random_f64_bits(r);
                        let lit = format!("{:e}", x);
                        crate::gen::numlit::respell(r, &lit)
                    }
                };
                match t.parse::<f64>() {
                    Ok(f) if f.is_finite() && crate::refmodel::num::is_json_number(t.as_bytes()) => t,
                    _ => "1.7976931348623157e308".into(),
                }
            }
            16..=19 => {
                // every combination the grammar allows: sign, 1..25 integer digits, optional
                // fraction, optional exponent with e/E and +/-/no sign
                let mut s = String::new();
                if r.chance(1, 3) {
                    s.push('-');
                }
                let n = *r.pick(&[1usize, 1, 2, 2, 3, 5, 8, 15, 16, 17, 19, 20, 25]);
                s.push((b'1' + r.below(9) as u8) as char);
                for _ in 1..n {
                    s.push((b'0' + r.below(10) as u8) as char);
                }
                if n == 1 && r.chance(1, 4) {
                    s.pop();
                    s.push('0');
                }
                if r.chance(1, 2) {
                    s.push('.');
                    for _ in 0..*r.pick(&[1usize, 1, 2, 3, 7, 15, 16, 17, 25]) {
                        s.push((b'0' + r.below(10) as u8) as char);
                    }
                }
                if r.chance(1, 2) {
                    s.push(if r.chance(1, 2) { 'e' } else { 'E' });
                    match r.below(3) {
                        0 => s.push('+'),
                        1 => s.push('-'),
                        _ => {}
                    }
                    // 25 digits x 10^279 stays finite
                    let lim = *r.pick(&[10u64, 30, 280]);
                    s.push_str(&format!("{}", r.below(lim)));
                }
                s
            }
            0 => "0".into(),
            1 => format!("{}", r.below(100)),
            2 => format!("-{}", r.below(1000)),
            3 => format!("{}", r.next() >> r.below(64)),
            4 => format!("{}.{}", r.below(1000), r.below(1000)),
            5 => format!("-{}.{}e{}", r.below(10), r.below(100000), r.below(30) as i64 - 15),
            6 => format!("{}", (r.next() as i64) >> r.below(63)),
            7 => "18446744073709551615".into(),
            8 => "-9223372036854775808".into(),
            9 => "18446744073709551616".into(),
            10 => format!("{}E+{}", r.below(10), r.below(300)),
            11 => format!("0.{}{}", "0".repeat(r.range(0, 30)), r.next()),
            12 => format!("{}{}", r.next(), r.next()),
            13 => format!("1e-{}", r.below(340)),
            14 => {
                // long digit string
                let n = r.range(1, 80);
                let mut s = String::new();
                s.push((b'1' + r.below(9) as u8) as char);
                for _ in 0..n {
                    s.push((b'0' + r.below(10) as u8) as char);
                }
                if r.chance(1, 2) {
                    s.push('.');
                    for _ in 0..r.range(1, 40) {
                        s.push((b'0' + r.below(10) as u8) as char);
                    }
                }
                s
            }
            _ => format!("{}.5e-{}", r.below(100), r.below(20)),
        };
        self.out.extend_from_slice(s.as_bytes());
    }

    /// random text (decoded form)
    pub fn text(&mut self) -> String {
        let r = &mut *self.r;
        let len = if self.o.long_strings {
            match r.below(10) {
                0 => 0,
                1 | 2 | 3 => r.range(1, 8),
                4 => r.range(13, 19),
                5 => r.range(29, 35),
                6 => r.range(61, 67),
                7 => r.range(125, 131),
                8 => r.range(0, 300),
                _ => r.range(8, 40),
            }
        } else {
            r.range(0, 10)
        };
        let mut s = String::new();
        // a "theme" decides the density of special characters
        let theme = r.below(6);
        for _ in 0..len {
            let special = match theme {
                0 => false,
                1 => r.chance(1, 30),
                2 => r.chance(1, 8),
                3 => r.chance(1, 3),
                4 => r.chance(1, 64),
                _ => r.chance(1, 16),
            };
            if !special {
                s.push((b'a' + r.below(26) as u8) as char);
                continue;
            }
            let k = r.below(12);
            match k {
                0 if self.o.escapes => s.push('"'),
                1 if self.o.escapes => s.push('\\'),
                2 if self.o.escapes => s.push(*r.pick(&['\n', '\t', '\r', '\u{8}', '\u{c}', '\u{0}', '\u{1f}', '\u{7f}'])),
                3 => s.push(*r.pick(&['[', ']', '{', '}', ',', ':', '/', ' '])),
                4 | 5 if self.o.unicode => s.push(*r.pick(&['é', 'ß', '¢', '\u{7ff}', '\u{80}'])),
                6 | 7 if self.o.unicode => s.push(*r.pick(&['日', '€', '\u{800}', '\u{ffff}', '\u{fffd}', '\u{2028}', '\u{d7ff}', '\u{e000}'])),
                8 if self.o.unicode => s.push(*r.pick(&['😀', '\u{10000}', '\u{10ffff}', '𝄞'])),
                9 if self.o.escapes => {
                    // backslash runs
                    for _ in 0..r.range(1, 5) {
                        s.push('\\');
                    }
                }
                _ => s.push((b'0' + r.below(10) as u8) as char),
            }
        }
        // a dictionary of fragments that look like what the library itself prints: error messages
        // echo input text, and the error plumbing re-reads its own messages
        if self.o.unicode && r.chance(1, 48) {
            s.push_str(*r.pick(MESSAGE_FRAGMENTS));
        }
        s
    }

    pub fn string(&mut self) {
        let t = self.text();
        self.write_string(&t);
    }

    /// write `t` as a JSON string literal, choosing among equivalent spellings
    pub fn write_string(&mut self, t: &str) {
        let r = &mut *self.r;
        self.out.push(b'"');
        for ch in t.chars() {
            let c = ch as u32;
            match ch {
                '"' => self.out.extend_from_slice(b"\\\""),
                '\\' => self.out.extend_from_slice(b"\\\\"),
                '\n' if r.chance(1, 2) => self.out.extend_from_slice(b"\\n"),
                '\t' if r.chance(1, 2) => self.out.extend_from_slice(b"\\t"),
                '\r' if r.chance(1, 2) => self.out.extend_from_slice(b"\\r"),
                '\u{8}' if r.chance(1, 2) => self.out.extend_from_slice(b"\\b"),
                '\u{c}' if r.chance(1, 2) => self.out.extend_from_slice(b"\\f"),
                '/' if self.o.escapes && r.chance(1, 3) => self.out.extend_from_slice(b"\\/"),
                _ if c < 0x20 => {
                    let s = if r.chance(1, 2) { format!("\\u{:04x}", c) } else { format!("\\u{:04X}", c) };
                    self.out.extend_from_slice(s.as_bytes());
                }
                _ if self.o.escapes && r.chance(1, 12) => {
                    // spell through \u escapes
                    let mut buf = [0u16; 2];
                    for u in ch.encode_utf16(&mut buf) {
                        let s = if r.chance(1, 2) { format!("\\u{:04x}", u) } else { format!("\\u{:04X}", u) };
                        self.out.extend_from_slice(s.as_bytes());
                    }
                }
                _ => {
                    let mut buf = [0u8; 4];
                    self.out.extend_from_slice(ch.encode_utf8(&mut buf).as_bytes());
                }
            }
        }
        self.out.push(b'"');
    }
}

/// one well-formed document (root any type; containers favoured)
fn wide(g: &mut Gen) {
    let n = *g.r.pick(&[255usize, 256, 257, 300, 520, 700]);
    let object = g.r.chance(1, 2);
    let flavour = g.r.below(4);
    g.out.push(if object { b'{' } else { b'[' });
    for i in 0..n {
        if i > 0 {
            g.out.push(b',');
            if g.r.chance(1, 8) {
                g.out.push(b' ');
            }
        }
        if object {
            g.out.extend_from_slice(format!("\"k{}\":", i).as_bytes());
        }
        let t: &[u8] = match flavour {
            0 => b"[]",
            1 => b"{}",
            2 => *g.r.pick(&[&b"[]"[..], b"{}", b"[[]]", b"{\"a\":{}}", b"[{}]"]),
            _ => *g.r.pick(&[&b"[]"[..], b"{}", b"0", b"null", b"\"\"", b"true", b"-1.5", b"\"s\""]),
        };
        g.out.extend_from_slice(t);
    }
    // something to enter after all of them
    g.out.push(b',');
    if object {
        g.out.extend_from_slice(b"\"last\":");
    }
    g.out.extend_from_slice(b"{\"in\":[1,[2,{\"x\":\"y\"}]]}");
    g.out.push(if object { b'}' } else { b']' });
}

pub fn gen_doc(r: &mut Rng, o: &DocOpts) -> Vec<u8> {
    let mut g = Gen::new(r, o.clone());
    let lead = g.o.ws;
    if lead == 2 && g.r.chance(1, 2) {
        let n = g.r.range(0, 64);
        for _ in 0..n {
            g.out.push(b' ');
        }
    } else {
        g.ws();
    }
    if g.o.max_depth > 0 && g.r.chance(1, 96) {
        // a WIDE container: hundreds of tiny members (empty containers, literals, short scalars),
        // more than any per-call counter of nesting or members may silently accumulate
        wide(&mut g);
    } else if g.r.chance(5, 6) && g.o.max_depth > 0 {
        if g.r.chance(1, 2) {
            g.array(1)
        } else {
            g.object(1)
        }
    } else {
        g.value(0);
    }
    if lead == 2 && g.r.chance(1, 3) {
        let n = g.r.range(0, 70);
        for _ in 0..n {
            let c = *g.r.pick(&[b' ', b'\n']);
            g.out.push(c);
        }
    } else {
        g.ws();
    }
    g.out
}

/// document with random options
pub fn gen_any(r: &mut Rng) -> Vec<u8> {
    let o = DocOpts::random(r);
    gen_doc(r, &o)
}

/// Deep nesting documents for C01. kind: 0 `[[[..]]]`, 1 `{"a":{"a":..}}`, 2 mixed, 3.. unclosed
pub fn deep(kind: i64, depth: usize) -> Vec<u8> {
    let mut v = Vec::with_capacity(depth * 8);
    match kind {
        0 | 3 => {
            for _ in 0..depth {
                v.push(b'[');
            }
            if kind == 0 {
                for _ in 0..depth {
                    v.push(b']');
                }
            }
        }
        1 | 4 => {
            for _ in 0..depth {
                v.extend_from_slice(b"{\"a\":");
            }
            if kind == 1 {
                v.push(b'1');
                for _ in 0..depth {
                    v.push(b'}');
                }
            }
        }
        _ => {
            for i in 0..depth {
                if i % 2 == 0 {
                    v.extend_from_slice(b"[");
                } else {
                    v.extend_from_slice(b"{\"k\":");
                }
            }
            if kind == 2 {
                v.extend_from_slice(b"0");
                for i in (0..depth).rev() {
                    v.push(if i % 2 == 0 { b']' } else { b'}' });
                }
            }
        }
    }
    v
}

/// Large document (to cross the thread-local node buffer threshold)
pub fn big(r: &mut Rng, approx_bytes: usize) -> Vec<u8> {
    let mut out = Vec::with_capacity(approx_bytes + 1024);
    out.push(b'[');
    let mut first = true;
    while out.len() < approx_bytes {
        if !first {
            out.push(b',');
        }
        first = false;
        let o = DocOpts { max_depth: 4, budget: 30, ws: 0, ..DocOpts::default() };
        let mut g = Gen::new(r, o);
        g.value(1);
        out.extend_from_slice(&g.out);
    }
    out.push(b']');
    out
}

/// A well-formed document nested `depth` levels (alternating arrays / objects, chosen by `r`),
/// with scalar siblings at every level, so that deep levels are reached with small documents.
pub fn nested(r: &mut Rng, depth: usize) -> Vec<u8> {
    let mut out = Vec::new();
    let mut closers = Vec::new();
    for level in 0..depth {
        if r.chance(1, 2) {
            out.extend_from_slice(b"[");
            if r.chance(1, 2) {
                out.extend_from_slice(format!("{},", level).as_bytes());
            }
            closers.push(if r.chance(1, 3) { ",\"t\"]".to_string() } else { "]".to_string() });
        } else {
            out.extend_from_slice(format!("{{\"k{}\":", level % 3).as_bytes());
            closers.push(if r.chance(1, 3) { format!(",\"z\":{}.5}}", level) } else { "}".to_string() });
        }
    }
    out.extend_from_slice(*r.pick(&[b"null" as &[u8], b"1", b"\"leaf\"", b"[]", b"{}", b"-2.5e3"]));
    for c in closers.iter().rev() {
        out.extend_from_slice(c.as_bytes());
    }
    out
}
