//! All token sequences up to a bound over a fixed token alphabet.
pub const TOKENS: &[&str] = &[
    "[", "]", "{", "}", ",", ":", "\"a\"", "\"\\n\"", "1", "-1.5e3", "0", "01", "1e999", "true", "nul", " ",
    "\"\\ud800\"", "\"\\ud83d\\ude00\"", "\"\\u00zz\"", "\"a", "-", "null",
];

pub fn count(max_len: usize) -> u64 {
    let n = TOKENS.len() as u64;
    let mut t = 0;
    let mut p = 1;
    for _ in 0..=max_len {
        t += p;
        p *= n;
    }
    t
}

/// The `idx`-th sequence in length-then-lexicographic order (idx 0 = empty).
pub fn nth(mut idx: u64, out: &mut Vec<u8>) {
    out.clear();
    let n = TOKENS.len() as u64;
    let mut len = 0;
    let mut p = 1u64;
    while idx >= p {
        idx -= p;
        p *= n;
        len += 1;
    }
    let mut digits = vec![0usize; len];
    for d in digits.iter_mut().rev() {
        *d = (idx % n) as usize;
        idx /= n;
    }
    for d in digits {
        out.extend_from_slice(TOKENS[d].as_bytes());
    }
}
