//! sv — runtime-monitoring harness for cloudwego/sonic-rs (see /verif/DESIGN.md).
pub mod core;
pub mod gen;
pub mod ledger;
pub mod mon;
pub mod refmodel;
pub mod rng;
pub mod sched;
