//! String-literal body decoder (the bytes between the quotes). Strict and lossy variants.

fn hex4(b: &[u8]) -> Option<u32> {
    if b.len() < 4 {
        return None;
    }
    let mut v = 0u32;
    for c in &b[..4] {
        let d = match c {
            b'0'..=b'9' => c - b'0',
            b'a'..=b'f' => c - b'a' + 10,
            b'A'..=b'F' => c - b'A' + 10,
            _ => return None,
        };
        v = v * 16 + d as u32;
    }
    Some(v)
}

/// Strict: None if the body is not UTF-8, contains a raw control / bad escape / bad hex /
/// unpaired surrogate.
pub fn decode_strict(body: &[u8]) -> Option<String> {
    let mut out: Vec<u8> = Vec::with_capacity(body.len());
    let mut i = 0;
    while i < body.len() {
        let c = body[i];
        if c == b'"' || c < 0x20 {
            return None;
        }
        if c != b'\\' {
            out.push(c);
            i += 1;
            continue;
        }
        let e = *body.get(i + 1)?;
        i += 2;
        match e {
            b'"' => out.push(b'"'),
            b'\\' => out.push(b'\\'),
            b'/' => out.push(b'/'),
            b'b' => out.push(8),
            b'f' => out.push(12),
            b'n' => out.push(10),
            b'r' => out.push(13),
            b't' => out.push(9),
            b'u' => {
                let hi = hex4(&body[i..])?;
                i += 4;
                let cp = if (0xD800..0xDC00).contains(&hi) {
                    if body.get(i) == Some(&b'\\') && body.get(i + 1) == Some(&b'u') {
                        let lo = hex4(&body[i + 2..])?;
                        if !(0xDC00..0xE000).contains(&lo) {
                            return None;
                        }
                        i += 6;
                        0x10000 + ((hi - 0xD800) << 10) + (lo - 0xDC00)
                    } else {
                        return None;
                    }
                } else if (0xDC00..0xE000).contains(&hi) {
                    return None;
                } else {
                    hi
                };
                let ch = char::from_u32(cp)?;
                let mut buf = [0u8; 4];
                out.extend_from_slice(ch.encode_utf8(&mut buf).as_bytes());
            }
            _ => return None,
        }
    }
    String::from_utf8(out).ok()
}

/// Lossy: escapes decoded; an unpaired surrogate escape becomes U+FFFD (a following non-low
/// `\uXXXX` is then decoded on its own); invalid UTF-8 bytes are replaced as
/// `String::from_utf8_lossy` would. None only for grammar-level problems (raw control, bad
/// escape letter, bad hex).
pub fn decode_lossy(body: &[u8]) -> Option<String> {
    let mut out: Vec<u8> = Vec::with_capacity(body.len());
    let mut i = 0;
    while i < body.len() {
        let c = body[i];
        if c == b'"' || c < 0x20 {
            return None;
        }
        if c != b'\\' {
            out.push(c);
            i += 1;
            continue;
        }
        let e = *body.get(i + 1)?;
        i += 2;
        match e {
            b'"' => out.push(b'"'),
            b'\\' => out.push(b'\\'),
            b'/' => out.push(b'/'),
            b'b' => out.push(8),
            b'f' => out.push(12),
            b'n' => out.push(10),
            b'r' => out.push(13),
            b't' => out.push(9),
            b'u' => {
                let hi = hex4(&body[i..])?;
                i += 4;
                let mut cp = hi;
                if (0xD800..0xDC00).contains(&hi) {
                    cp = 0xFFFD;
                    if body.get(i) == Some(&b'\\') && body.get(i + 1) == Some(&b'u') {
                        if let Some(lo) = hex4(&body[i + 2..]) {
                            if (0xDC00..0xE000).contains(&lo) {
                                i += 6;
                                cp = 0x10000 + ((hi - 0xD800) << 10) + (lo - 0xDC00);
                            }
                        }
                    }
                } else if (0xDC00..0xE000).contains(&hi) {
                    cp = 0xFFFD;
                }
                let ch = char::from_u32(cp).unwrap_or('\u{FFFD}');
                let mut buf = [0u8; 4];
                out.extend_from_slice(ch.encode_utf8(&mut buf).as_bytes());
            }
            _ => return None,
        }
    }
    Some(String::from_utf8_lossy(&out).into_owned())
}
