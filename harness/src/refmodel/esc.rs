//! Specification escaper and re-indenter for serialised output (C05).

/// `"` -> \", `\` -> \\, 08 -> \b, 09 -> \t, 0A -> \n, 0C -> \f, 0D -> \r, other C0 -> \u00xx
/// (lower-case hex), everything else verbatim; wrapped in quotes.
pub fn escape(s: &str) -> Vec<u8> {
    let mut o = Vec::with_capacity(s.len() + 2);
    o.push(b'"');
    for &c in s.as_bytes() {
        match c {
            b'"' => o.extend_from_slice(b"\\\""),
            b'\\' => o.extend_from_slice(b"\\\\"),
            8 => o.extend_from_slice(b"\\b"),
            9 => o.extend_from_slice(b"\\t"),
            10 => o.extend_from_slice(b"\\n"),
            12 => o.extend_from_slice(b"\\f"),
            13 => o.extend_from_slice(b"\\r"),
            0..=0x1f => {
                const H: &[u8; 16] = b"0123456789abcdef";
                o.extend_from_slice(b"\\u00");
                o.push(H[(c >> 4) as usize]);
                o.push(H[(c & 15) as usize]);
            }
            _ => o.push(c),
        }
    }
    o.push(b'"');
    o
}

/// Re-indent a *compact* well-formed JSON text: 2 spaces, `": "`, empty containers `[]`/`{}`.
pub fn pretty(compact: &[u8]) -> Vec<u8> {
    pretty_with(compact, b"  ")
}

/// the same with an arbitrary indent unit
pub fn pretty_with(compact: &[u8], unit: &[u8]) -> Vec<u8> {
    let mut o = Vec::with_capacity(compact.len() * 2);
    let mut depth = 0usize;
    let mut i = 0;
    let b = compact;
    let nl = |o: &mut Vec<u8>, d: usize| {
        o.push(b'\n');
        for _ in 0..d {
            o.extend_from_slice(unit);
        }
    };
    while i < b.len() {
        let c = b[i];
        match c {
            b'"' => {
                let s = i;
                i += 1;
                while i < b.len() && b[i] != b'"' {
                    if b[i] == b'\\' {
                        i += 1;
                    }
                    i += 1;
                }
                i += 1;
                o.extend_from_slice(&b[s..i.min(b.len())]);
                continue;
            }
            b'[' | b'{' => {
                let close = if c == b'[' { b']' } else { b'}' };
                if i + 1 < b.len() && b[i + 1] == close {
                    o.push(c);
                    o.push(close);
                    i += 2;
                    continue;
                }
                depth += 1;
                o.push(c);
                nl(&mut o, depth);
            }
            b']' | b'}' => {
                depth = depth.saturating_sub(1);
                nl(&mut o, depth);
                o.push(c);
            }
            b',' => {
                o.push(c);
                nl(&mut o, depth);
            }
            b':' => o.extend_from_slice(b": "),
            _ => o.push(c),
        }
        i += 1;
    }
    o
}
