//! Path resolution on the reference tree (first duplicate wins) and a strict prefix walker (C14).
use super::recog::{skip_ws, ErrKind, RErr, K, P, R};

#[derive(Clone, Debug, PartialEq, Eq, Hash, PartialOrd, Ord)]
pub enum PathEl {
    Key(String),
    Idx(usize),
}

#[derive(Clone, Debug, PartialEq, Eq)]
pub enum LookErr {
    /// key missing / index past the end
    NotFound,
    /// container of the wrong kind (or a scalar) where the path wants to descend
    WrongType,
}

pub fn step<'a>(r: &'a R, el: &PathEl) -> Result<&'a R, LookErr> {
    match (el, &r.k) {
        (PathEl::Key(k), K::Obj(ms)) => {
            for (kn, v) in ms {
                if kn.key_str() == Some(k.as_str()) {
                    return Ok(v);
                }
            }
            Err(LookErr::NotFound)
        }
        (PathEl::Idx(i), K::Arr(xs)) => xs.get(*i).ok_or(LookErr::NotFound),
        _ => Err(LookErr::WrongType),
    }
}

pub fn lookup<'a>(root: &'a R, path: &[PathEl]) -> Result<&'a R, LookErr> {
    let mut cur = root;
    for el in path {
        cur = step(cur, el)?;
    }
    Ok(cur)
}

/// All paths to every node (root = empty path), duplicate keys: only the first is addressable.
pub fn all_paths(root: &R, cap: usize) -> Vec<Vec<PathEl>> {
    let mut out = vec![];
    let mut cur = vec![];
    fn rec(r: &R, cur: &mut Vec<PathEl>, out: &mut Vec<Vec<PathEl>>, cap: usize) {
        if out.len() >= cap {
            return;
        }
        out.push(cur.clone());
        match &r.k {
            K::Arr(xs) => {
                for (i, x) in xs.iter().enumerate() {
                    cur.push(PathEl::Idx(i));
                    rec(x, cur, out, cap);
                    cur.pop();
                }
            }
            K::Obj(ms) => {
                let mut seen: Vec<&str> = vec![];
                for (k, v) in ms {
                    if let Some(ks) = k.key_str() {
                        if seen.contains(&ks) {
                            continue;
                        }
                        seen.push(ks);
                        cur.push(PathEl::Key(ks.to_string()));
                        rec(v, cur, out, cap);
                        cur.pop();
                    }
                }
            }
            _ => {}
        }
    }
    rec(root, &mut cur, &mut out, cap);
    out
}

/// Strict walker for C14: follow `path` in `b` validating *everything traversed before the
/// target* (preceding members completely, keys, separators) and the target value itself; bytes
/// after the target are free. Returns the target span.
pub fn strict_walk(b: &[u8], path: &[PathEl]) -> Result<(usize, usize), RErr> {
    let mut p = P::new(b);
    let mut i = 0usize;
    for el in path {
        i = skip_ws(b, i);
        if i >= b.len() {
            return Err(RErr { at: i, kind: ErrKind::Eof });
        }
        match el {
            PathEl::Key(k) => {
                if b[i] != b'{' {
                    return Err(RErr { at: i, kind: ErrKind::Syntax });
                }
                i = skip_ws(b, i + 1);
                let mut first = true;
                loop {
                    if i >= b.len() {
                        return Err(RErr { at: i, kind: ErrKind::Eof });
                    }
                    if first && b[i] == b'}' {
                        return Err(RErr { at: i, kind: ErrKind::Syntax });
                    }
                    first = false;
                    if b[i] != b'"' {
                        return Err(RErr { at: i, kind: ErrKind::Syntax });
                    }
                    let (kn, e) = p.string(i)?;
                    i = skip_ws(b, e);
                    if i >= b.len() {
                        return Err(RErr { at: i, kind: ErrKind::Eof });
                    }
                    if b[i] != b':' {
                        return Err(RErr { at: i, kind: ErrKind::Syntax });
                    }
                    i += 1;
                    if kn.key_str() == Some(k.as_str()) {
                        break;
                    }
                    let (_, e) = p.value(i, 0)?;
                    i = skip_ws(b, e);
                    if i >= b.len() {
                        return Err(RErr { at: i, kind: ErrKind::Eof });
                    }
                    if b[i] != b',' {
                        return Err(RErr { at: i, kind: ErrKind::Syntax });
                    }
                    i = skip_ws(b, i + 1);
                }
            }
            PathEl::Idx(n) => {
                if b[i] != b'[' {
                    return Err(RErr { at: i, kind: ErrKind::Syntax });
                }
                i = skip_ws(b, i + 1);
                if i < b.len() && b[i] == b']' {
                    return Err(RErr { at: i, kind: ErrKind::Syntax });
                }
                for _ in 0..*n {
                    let (_, e) = p.value(i, 0)?;
                    i = skip_ws(b, e);
                    if i >= b.len() {
                        return Err(RErr { at: i, kind: ErrKind::Eof });
                    }
                    if b[i] != b',' {
                        return Err(RErr { at: i, kind: ErrKind::Syntax });
                    }
                    i += 1;
                }
            }
        }
    }
    let (v, _) = p.value(i, 0)?;
    if std::str::from_utf8(&b[..v.end]).is_err() {
        return Err(RErr { at: 0, kind: ErrKind::Syntax });
    }
    Ok((v.start, v.end))
}
