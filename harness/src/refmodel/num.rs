//! Number literal classifier (C07 rule): plain integer in u64 (i64 if negative) -> exact integer,
//! otherwise Rust std `str::parse::<f64>`; Inf if that is infinite.

#[derive(Clone, Copy, Debug)]
pub enum RefNum {
    U(u64),
    I(i64),
    F(f64),
    Inf,
}

impl PartialEq for RefNum {
    fn eq(&self, o: &Self) -> bool {
        match (self, o) {
            (RefNum::U(a), RefNum::U(b)) => a == b,
            (RefNum::I(a), RefNum::I(b)) => a == b,
            (RefNum::F(a), RefNum::F(b)) => a.to_bits() == b.to_bits(),
            (RefNum::Inf, RefNum::Inf) => true,
            _ => false,
        }
    }
}

/// `lit` must already match the JSON number grammar.
pub fn classify(lit: &[u8]) -> RefNum {
    let s = std::str::from_utf8(lit).expect("ascii number literal");
    let plain = !lit.iter().any(|c| matches!(c, b'.' | b'e' | b'E'));
    if plain {
        if lit[0] == b'-' {
            if let Ok(i) = s.parse::<i64>() {
                return RefNum::I(i);
            }
        } else if let Ok(u) = s.parse::<u64>() {
            return RefNum::U(u);
        }
    }
    let f: f64 = s.parse().expect("std parses every JSON number literal");
    if f.is_infinite() {
        RefNum::Inf
    } else {
        RefNum::F(f)
    }
}

pub fn is_neg_zero_int_literal(lit: &[u8]) -> bool {
    lit.len() >= 2 && lit[0] == b'-' && lit[1..].iter().all(|c| *c == b'0') && lit.len() == 2
}

/// Does `lit` match the JSON number grammar exactly (whole slice)?
pub fn is_json_number(lit: &[u8]) -> bool {
    let mut p = super::recog::P::new(lit);
    if lit.is_empty() || !(lit[0] == b'-' || lit[0].is_ascii_digit()) {
        return false;
    }
    match p.number(0) {
        Ok((_, e)) => e == lit.len(),
        Err(_) => false,
    }
}
