//! Independent RFC 8259 recogniser / parser over bytes. Produces a tree with byte spans, member
//! order and duplicates preserved. Shares no code with sonic-rs.
//!
//! It deliberately separates the questions the properties distinguish:
//!   * grammar (over bytes; any byte >= 0x20 except `"` and `\` may appear raw inside strings),
//!   * UTF-8 validity of the text (checked by the caller with `std::str::from_utf8`),
//!   * whether every `\u` escape decodes to a scalar (`escapes_ok`),
//!   * whether every number is finite as f64 (`numbers_finite`).

use super::num::{classify, RefNum};

#[derive(Clone, Debug, PartialEq)]
pub enum K {
    Null,
    Bool(bool),
    Num(RefNum),
    /// decoded text (strict); None if an escape does not decode to a scalar or bytes are not UTF-8
    Str { has_escape: bool, decoded: Option<String> },
    Arr(Vec<R>),
    /// (key node — always a Str —, value)
    Obj(Vec<(R, R)>),
}

#[derive(Clone, Debug, PartialEq)]
pub struct R {
    pub k: K,
    pub start: usize,
    pub end: usize,
}

#[derive(Clone, Debug, PartialEq)]
pub struct Flags {
    pub escapes_ok: bool,
    pub numbers_finite: bool,
    pub max_depth: usize,
    pub has_dup_keys: bool,
    pub nodes: usize,
}

#[derive(Clone, Debug, PartialEq)]
pub enum ErrKind {
    Eof,
    Syntax,
    TooDeep,
}

#[derive(Clone, Debug, PartialEq)]
pub struct RErr {
    pub at: usize,
    pub kind: ErrKind,
}

pub const MAX_DEPTH: usize = 400;

pub struct P<'a> {
    b: &'a [u8],
    pub flags: Flags,
}

#[inline]
pub fn is_ws(c: u8) -> bool {
    c == b' ' || c == b'\t' || c == b'\n' || c == b'\r'
}

pub fn skip_ws(b: &[u8], mut i: usize) -> usize {
    while i < b.len() && is_ws(b[i]) {
        i += 1;
    }
    i
}

impl<'a> P<'a> {
    pub fn new(b: &'a [u8]) -> Self {
        P {
            b,
            flags: Flags { escapes_ok: true, numbers_finite: true, max_depth: 0, has_dup_keys: false, nodes: 0 },
        }
    }
    fn err<T>(&self, at: usize, kind: ErrKind) -> Result<T, RErr> {
        Err(RErr { at, kind })
    }

    /// parse one value starting at `i` (leading whitespace allowed); returns node and index after it
    pub fn value(&mut self, i: usize, depth: usize) -> Result<(R, usize), RErr> {
        let b = self.b;
        let i = skip_ws(b, i);
        if i >= b.len() {
            return self.err(i, ErrKind::Eof);
        }
        if depth > self.flags.max_depth {
            self.flags.max_depth = depth;
        }
        if depth > MAX_DEPTH {
            return self.err(i, ErrKind::TooDeep);
        }
        self.flags.nodes += 1;
        match b[i] {
            b'n' => self.lit(i, b"null", K::Null),
            b't' => self.lit(i, b"true", K::Bool(true)),
            b'f' => self.lit(i, b"false", K::Bool(false)),
            b'"' => self.string(i),
            b'-' | b'0'..=b'9' => self.number(i),
            b'[' => {
                let mut items = vec![];
                let mut j = skip_ws(b, i + 1);
                if j >= b.len() {
                    return self.err(j, ErrKind::Eof);
                }
                if b[j] == b']' {
                    return Ok((R { k: K::Arr(items), start: i, end: j + 1 }, j + 1));
                }
                loop {
                    let (v, e) = self.value(j, depth + 1)?;
                    items.push(v);
                    j = skip_ws(b, e);
                    if j >= b.len() {
                        return self.err(j, ErrKind::Eof);
                    }
                    match b[j] {
                        b',' => j += 1,
                        b']' => return Ok((R { k: K::Arr(items), start: i, end: j + 1 }, j + 1)),
                        _ => return self.err(j, ErrKind::Syntax),
                    }
                }
            }
            b'{' => {
                let mut items: Vec<(R, R)> = vec![];
                // names seen so far (decoded when they decode, spelled otherwise): duplicate
                // detection stays linear for very wide objects
                let mut seen: std::collections::HashSet<Vec<u8>> = std::collections::HashSet::new();
                let mut j = skip_ws(b, i + 1);
                if j >= b.len() {
                    return self.err(j, ErrKind::Eof);
                }
                if b[j] == b'}' {
                    return Ok((R { k: K::Obj(items), start: i, end: j + 1 }, j + 1));
                }
                loop {
                    j = skip_ws(b, j);
                    if j >= b.len() {
                        return self.err(j, ErrKind::Eof);
                    }
                    if b[j] != b'"' {
                        return self.err(j, ErrKind::Syntax);
                    }
                    let (k, e) = self.string(j)?;
                    j = skip_ws(b, e);
                    if j >= b.len() {
                        return self.err(j, ErrKind::Eof);
                    }
                    if b[j] != b':' {
                        return self.err(j, ErrKind::Syntax);
                    }
                    let (v, e) = self.value(j + 1, depth + 1)?;
                    if !self.flags.has_dup_keys {
                        let name: Vec<u8> = match &k.k {
                            K::Str { decoded: Some(a), .. } => a.as_bytes().to_vec(),
                            _ => {
                                let mut raw = vec![0xffu8];
                                raw.extend_from_slice(&b[k.start..k.end]);
                                raw
                            }
                        };
                        if !seen.insert(name) {
                            self.flags.has_dup_keys = true;
                        }
                    }
                    items.push((k, v));
                    j = skip_ws(b, e);
                    if j >= b.len() {
                        return self.err(j, ErrKind::Eof);
                    }
                    match b[j] {
                        b',' => j += 1,
                        b'}' => return Ok((R { k: K::Obj(items), start: i, end: j + 1 }, j + 1)),
                        _ => return self.err(j, ErrKind::Syntax),
                    }
                }
            }
            _ => self.err(i, ErrKind::Syntax),
        }
    }

    fn lit(&mut self, i: usize, w: &[u8], k: K) -> Result<(R, usize), RErr> {
        let b = self.b;
        for (n, c) in w.iter().enumerate() {
            if i + n >= b.len() {
                return self.err(i + n, ErrKind::Eof);
            }
            if b[i + n] != *c {
                return self.err(i + n, ErrKind::Syntax);
            }
        }
        Ok((R { k, start: i, end: i + w.len() }, i + w.len()))
    }

    pub fn number(&mut self, i: usize) -> Result<(R, usize), RErr> {
        let b = self.b;
        let mut j = i;
        if j < b.len() && b[j] == b'-' {
            j += 1;
        }
        if j >= b.len() {
            return self.err(j, ErrKind::Eof);
        }
        match b[j] {
            b'0' => j += 1,
            b'1'..=b'9' => {
                while j < b.len() && b[j].is_ascii_digit() {
                    j += 1;
                }
            }
            _ => return self.err(j, ErrKind::Syntax),
        }
        if j < b.len() && b[j] == b'.' {
            j += 1;
            if j >= b.len() {
                return self.err(j, ErrKind::Eof);
            }
            if !b[j].is_ascii_digit() {
                return self.err(j, ErrKind::Syntax);
            }
            while j < b.len() && b[j].is_ascii_digit() {
                j += 1;
            }
        }
        if j < b.len() && (b[j] == b'e' || b[j] == b'E') {
            j += 1;
            if j < b.len() && (b[j] == b'+' || b[j] == b'-') {
                j += 1;
            }
            if j >= b.len() {
                return self.err(j, ErrKind::Eof);
            }
            if !b[j].is_ascii_digit() {
                return self.err(j, ErrKind::Syntax);
            }
            while j < b.len() && b[j].is_ascii_digit() {
                j += 1;
            }
        }
        let n = classify(&b[i..j]);
        if matches!(n, RefNum::Inf) {
            self.flags.numbers_finite = false;
        }
        Ok((R { k: K::Num(n), start: i, end: j }, j))
    }

    pub fn string(&mut self, i: usize) -> Result<(R, usize), RErr> {
        let b = self.b;
        debug_assert!(b[i] == b'"');
        let mut j = i + 1;
        let mut has_escape = false;
        loop {
            if j >= b.len() {
                return self.err(j, ErrKind::Eof);
            }
            match b[j] {
                b'"' => break,
                b'\\' => {
                    has_escape = true;
                    if j + 1 >= b.len() {
                        return self.err(j + 1, ErrKind::Eof);
                    }
                    match b[j + 1] {
                        b'"' | b'\\' | b'/' | b'b' | b'f' | b'n' | b'r' | b't' => j += 2,
                        b'u' => {
                            for n in 0..4 {
                                if j + 2 + n >= b.len() {
                                    return self.err(j + 2 + n, ErrKind::Eof);
                                }
                                if !b[j + 2 + n].is_ascii_hexdigit() {
                                    return self.err(j + 2 + n, ErrKind::Syntax);
                                }
                            }
                            j += 6;
                        }
                        _ => return self.err(j + 1, ErrKind::Syntax),
                    }
                }
                0..=0x1f => return self.err(j, ErrKind::Syntax),
                _ => j += 1,
            }
        }
        let body = &b[i + 1..j];
        let decoded = super::strdec::decode_strict(body);
        if decoded.is_none() && std::str::from_utf8(body).is_ok() {
            self.flags.escapes_ok = false;
        }
        Ok((R { k: K::Str { has_escape, decoded }, start: i, end: j + 1 }, j + 1))
    }
}

#[derive(Clone, Debug)]
pub struct Doc {
    pub root: R,
    /// index just after the value (before trailing whitespace)
    pub end: usize,
    pub flags: Flags,
    pub utf8: bool,
}

impl Doc {
    /// accepted by a fully-decoding entry point?
    pub fn full_ok(&self) -> bool {
        self.utf8 && self.flags.escapes_ok && self.flags.numbers_finite
    }
    /// accepted by a validate-and-skip entry point?
    pub fn skip_ok(&self) -> bool {
        self.utf8
    }
}

/// one value surrounded by nothing but whitespace
pub fn parse_document(b: &[u8]) -> Result<Doc, RErr> {
    let mut p = P::new(b);
    let (root, end) = p.value(0, 0)?;
    let t = skip_ws(b, end);
    if t != b.len() {
        return Err(RErr { at: t, kind: ErrKind::Syntax });
    }
    Ok(Doc { root, end, flags: p.flags, utf8: std::str::from_utf8(b).is_ok() })
}

/// first value of the input; trailing bytes are free
pub fn parse_prefix(b: &[u8], from: usize) -> Result<Doc, RErr> {
    let mut p = P::new(b);
    let (root, end) = p.value(from, 0)?;
    Ok(Doc { root, end, flags: p.flags, utf8: std::str::from_utf8(&b[..end]).is_ok() })
}

impl R {
    pub fn is_container(&self) -> bool {
        matches!(self.k, K::Arr(_) | K::Obj(_))
    }
    pub fn type_name(&self) -> &'static str {
        match self.k {
            K::Null => "null",
            K::Bool(_) => "bool",
            K::Num(_) => "number",
            K::Str { .. } => "string",
            K::Arr(_) => "array",
            K::Obj(_) => "object",
        }
    }
    pub fn key_str(&self) -> Option<&str> {
        match &self.k {
            K::Str { decoded, .. } => decoded.as_deref(),
            _ => None,
        }
    }
    pub fn count_nodes(&self) -> usize {
        match &self.k {
            K::Arr(v) => 1 + v.iter().map(|x| x.count_nodes()).sum::<usize>(),
            K::Obj(v) => 1 + v.iter().map(|(_, x)| 1 + x.count_nodes()).sum::<usize>(),
            _ => 1,
        }
    }
}
