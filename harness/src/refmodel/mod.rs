//! Reference models, independent of sonic-rs code.
pub mod esc;
pub mod lookup;
pub mod num;
pub mod recog;
pub mod strdec;
