//! Case protocol, monitor context, worker loop.
use std::collections::{BTreeMap, HashSet};
use std::io::Write;
use std::panic::{catch_unwind, AssertUnwindSafe};
use std::sync::Mutex;

use crate::rng::fnv1a;

#[derive(Clone, Copy, PartialEq, Eq, Debug)]
pub enum Tier {
    Quick,
    Thorough,
}

/// One monitored execution: an entry id (which driver / oracle to run), the input bytes and
/// numeric parameters. A case is self-contained: `exec` must be a pure function of it (and of the
/// build), so a replay file reproduces the verdict.
#[derive(Clone, Debug, serde::Serialize, serde::Deserialize)]
pub struct Case {
    pub entry: String,
    #[serde(with = "b64")]
    pub input: Vec<u8>,
    pub params: Vec<i64>,
}

impl Case {
    pub fn new(entry: &str, input: impl Into<Vec<u8>>) -> Case {
        Case { entry: entry.to_string(), input: input.into(), params: vec![] }
    }
    pub fn with(entry: &str, input: impl Into<Vec<u8>>, params: &[i64]) -> Case {
        Case { entry: entry.to_string(), input: input.into(), params: params.to_vec() }
    }
    pub fn digest(&self) -> u64 {
        let mut p = Vec::with_capacity(self.params.len() * 8);
        for x in &self.params {
            p.extend_from_slice(&x.to_le_bytes());
        }
        fnv1a(&[self.entry.as_bytes(), &self.input, &p])
    }
    pub fn p(&self, i: usize) -> i64 {
        self.params.get(i).copied().unwrap_or(0)
    }
}

pub mod b64 {
    use serde::{Deserialize, Deserializer, Serializer};
    const T: &[u8; 64] = b"ABCDEFGHIJKLMNOPQRSTUVWXYZabcdefghijklmnopqrstuvwxyz0123456789+/";
    pub fn enc(b: &[u8]) -> String {
        let mut s = String::with_capacity((b.len() + 2) / 3 * 4);
        for c in b.chunks(3) {
            let n = (c[0] as u32) << 16
                | (*c.get(1).unwrap_or(&0) as u32) << 8
                | *c.get(2).unwrap_or(&0) as u32;
            s.push(T[(n >> 18) as usize & 63] as char);
            s.push(T[(n >> 12) as usize & 63] as char);
            s.push(if c.len() > 1 { T[(n >> 6) as usize & 63] as char } else { '=' });
            s.push(if c.len() > 2 { T[n as usize & 63] as char } else { '=' });
        }
        s
    }
    pub fn dec(s: &str) -> Vec<u8> {
        let mut out = Vec::new();
        let mut acc = 0u32;
        let mut bits = 0;
        for ch in s.bytes() {
            let v = match ch {
                b'A'..=b'Z' => ch - b'A',
                b'a'..=b'z' => ch - b'a' + 26,
                b'0'..=b'9' => ch - b'0' + 52,
                b'+' => 62,
                b'/' => 63,
                _ => continue,
            } as u32;
            acc = (acc << 6) | v;
            bits += 6;
            if bits >= 8 {
                bits -= 8;
                out.push((acc >> bits) as u8);
                acc &= (1 << bits) - 1;
            }
        }
        out
    }
    pub fn serialize<S: Serializer>(b: &Vec<u8>, s: S) -> Result<S::Ok, S::Error> {
        s.serialize_str(&enc(b))
    }
    pub fn deserialize<'de, D: Deserializer<'de>>(d: D) -> Result<Vec<u8>, D::Error> {
        let s = String::deserialize(d)?;
        Ok(dec(&s))
    }
}

#[derive(Clone, Debug, serde::Serialize)]
pub struct Viol {
    pub sig: String,
    pub msg: String,
    pub case: Case,
    pub case_index: u64,
}

pub struct GenParams {
    pub tier: Tier,
    pub seed: u64,
    pub shard: u64,
    pub nshards: u64,
    pub build: String,
    /// scale factor for workloads (1.0 default); set by the orchestrator for slow builds
    pub scale: f64,
}

impl GenParams {
    /// scaled count: `quick` or `thorough` total across all shards, divided per shard.
    pub fn count(&self, quick: u64, thorough: u64) -> u64 {
        let t = if self.tier == Tier::Quick { quick } else { thorough };
        let t = (t as f64 * self.scale) as u64;
        (t / self.nshards).max(1)
    }
    pub fn rng(&self, stream: u64) -> crate::rng::Rng {
        crate::rng::Rng::new(
            self.seed.wrapping_mul(0x9E37_79B9).wrapping_add(self.shard * 1_000_003 + stream * 7919 + 1),
        )
    }
    /// does exhaustive index i belong to this shard?
    #[inline]
    pub fn mine(&self, i: u64) -> bool {
        i % self.nshards == self.shard
    }
}

pub struct Ctx {
    pub check: String,
    pub build: String,
    pub tier: Tier,
    pub classes: BTreeMap<String, u64>,
    pub viols: Vec<Viol>,
    pub viol_count: u64,
    sig_counts: BTreeMap<String, u64>,
    pub evaluations: u64,
    pub cases: u64,
    digests: HashSet<u64>,
    pub nontrivial_total: u64,
    pub samples: Vec<serde_json::Value>,
    pub cur: Option<Case>,
    pub cur_index: u64,
    cur_nontrivial: bool,
    pub notes: BTreeMap<String, serde_json::Value>,
    sample_classes: HashSet<String>,
    /// (case digest, digest of all observables) per case, for cross-build comparison (C17)
    pub transcript: Vec<(u64, u64)>,
}

const DIGEST_CAP: usize = 400_000;
const VIOL_PER_SIG: u64 = 3;

impl Ctx {
    pub fn new(check: &str, build: &str, tier: Tier) -> Ctx {
        Ctx {
            check: check.to_string(),
            build: build.to_string(),
            tier,
            classes: BTreeMap::new(),
            viols: vec![],
            viol_count: 0,
            sig_counts: BTreeMap::new(),
            evaluations: 0,
            cases: 0,
            digests: HashSet::new(),
            nontrivial_total: 0,
            samples: vec![],
            cur: None,
            cur_index: 0,
            cur_nontrivial: false,
            notes: BTreeMap::new(),
            sample_classes: HashSet::new(),
            transcript: vec![],
        }
    }
    /// count one observation of a coverage class
    #[inline]
    pub fn class(&mut self, name: &str) {
        if let Some(c) = self.classes.get_mut(name) {
            *c += 1;
        } else {
            self.classes.insert(name.to_string(), 1);
        }
    }
    #[inline]
    pub fn class_n(&mut self, name: &str, n: u64) {
        *self.classes.entry(name.to_string()).or_insert(0) += n;
    }
    /// count monitored executions of library code inside the current case
    #[inline]
    pub fn ops(&mut self, n: u64) {
        self.evaluations += n;
    }
    /// the current case is non-trivial by the check's stated rule
    #[inline]
    pub fn nontrivial(&mut self) {
        self.cur_nontrivial = true;
    }
    pub fn is_asan(&self) -> bool {
        self.build.starts_with("asan")
    }
    pub fn is_instrumented(&self) -> bool {
        matches!(self.build.as_str(), "asan" | "tsan" | "vg" | "miri" | "miri-rv64" | "miri-a64")
    }
    /// record a violation with a *signature* (stable cause description, used for known findings)
    pub fn fail(&mut self, sig: &str, msg: String) {
        // strings coming from the library may (by a defect) be invalid UTF-8: never trust them
        let msg = String::from_utf8_lossy(msg.as_bytes()).into_owned();
        let sig = &String::from_utf8_lossy(sig.as_bytes()).into_owned();
        self.viol_count += 1;
        let n = self.sig_counts.entry(sig.to_string()).or_insert(0);
        *n += 1;
        if *n <= VIOL_PER_SIG {
            let mut case = self.cur.clone().unwrap_or(Case::new("?", vec![]));
            if case.input.len() > 1 << 20 {
                case.input.truncate(1 << 20);
            }
            self.viols.push(Viol {
                sig: sig.to_string(),
                msg: truncate(&msg, 2000),
                case,
                case_index: self.cur_index,
            });
        }
    }
    /// sample one case per class label (up to a cap) so evidence shows what cases look like
    pub fn sample(&mut self, label: &str) {
        if self.samples.len() >= 12 || self.sample_classes.contains(label) {
            return;
        }
        self.sample_classes.insert(label.to_string());
        if let Some(c) = &self.cur {
            let inp = if c.input.len() <= 160 {
                String::from_utf8_lossy(&c.input).to_string()
            } else {
                format!("{}… ({} bytes)", String::from_utf8_lossy(&c.input[..160]), c.input.len())
            };
            self.samples.push(serde_json::json!({"label": label, "entry": c.entry, "input": inp, "params": c.params}));
        }
    }
    pub fn begin(&mut self, c: &Case, idx: u64) {
        self.cur = Some(c.clone());
        self.cur_index = idx;
        self.cur_nontrivial = false;
        self.cases += 1;
    }
    pub fn end(&mut self) {
        if self.cur_nontrivial {
            self.nontrivial_total += 1;
            if self.digests.len() < DIGEST_CAP {
                if let Some(c) = &self.cur {
                    self.digests.insert(c.digest());
                }
            }
        }
    }
}

pub fn truncate(s: &str, n: usize) -> String {
    if s.len() <= n {
        s.to_string()
    } else {
        let mut e = n;
        while !s.is_char_boundary(e) {
            e -= 1;
        }
        format!("{}…", &s[..e])
    }
}

/// A check = a generator of cases + a monitor that executes one case against the real crate.
pub trait Check: Sync {
    fn id(&self) -> &'static str;
    fn generate(&self, g: &GenParams, emit: &mut dyn FnMut(Case));
    fn exec(&self, ctx: &mut Ctx, c: &Case);
    /// classes that must be non-empty for the run to count as conclusive (per build)
    fn required_classes(&self, _build: &str, _tier: Tier) -> Vec<&'static str> {
        vec![]
    }
}

// ---------------------------------------------------------------------------------------------
// panic capture

static LAST_PANIC: Mutex<Option<(String, String)>> = Mutex::new(None);

pub fn install_panic_hook() {
    std::panic::set_hook(Box::new(|info| {
        let loc = info
            .location()
            .map(|l| format!("{}:{}", l.file(), l.line()))
            .unwrap_or_else(|| "?".into());
        let msg = if let Some(s) = info.payload().downcast_ref::<&str>() {
            s.to_string()
        } else if let Some(s) = info.payload().downcast_ref::<String>() {
            s.clone()
        } else {
            "<non-string panic>".into()
        };
        if std::env::var_os("SV_BACKTRACE").is_some() {
            eprintln!("panic: {} at {}\n{}", msg, loc, std::backtrace::Backtrace::force_capture());
        }
        if let Ok(mut g) = LAST_PANIC.lock() {
            *g = Some((loc, msg));
        }
    }));
}

pub fn take_panic() -> Option<(String, String)> {
    LAST_PANIC.lock().ok().and_then(|mut g| g.take())
}

/// normalise a panic into a signature: file (repo-relative) + message with digits collapsed
pub fn panic_sig(loc: &str, msg: &str) -> String {
    let file = loc.rsplit_once(':').map(|x| x.0).unwrap_or(loc);
    let file = file.trim_start_matches("/repo/");
    let file = if let Some(i) = file.find("/library/") { &file[i + 1..] } else { file };
    // message: ASCII letters only, first 5 words (data embedded in messages must not leak in)
    let mut words: Vec<String> = vec![];
    for w in msg.split(|c: char| !c.is_ascii_alphabetic()) {
        if w.len() >= 2 {
            words.push(w.to_ascii_lowercase());
        }
        if words.len() >= 5 {
            break;
        }
    }
    format!("panic@{}:{}", file, words.join("_"))
}

/// Run `f`, converting a panic into Err((location, message)).
pub fn guarded<R>(f: impl FnOnce() -> R) -> Result<R, (String, String)> {
    match catch_unwind(AssertUnwindSafe(f)) {
        Ok(r) => Ok(r),
        Err(_) => Err(take_panic().unwrap_or(("?".into(), "?".into()))),
    }
}

// ---------------------------------------------------------------------------------------------
// crash slot: the case about to be executed, in a MAP_SHARED file that survives the process

pub struct Slot {
    ptr: *mut u8,
    len: usize,
    /// under Miri (no mmap): the slot is an ordinary file rewritten before every case
    path: Option<String>,
}
unsafe impl Send for Slot {}

pub const SLOT_SIZE: usize = 4 << 20;

impl Slot {
    pub fn open(path: &str) -> Option<Slot> {
        #[cfg(miri)]
        {
            return Some(Slot { ptr: std::ptr::null_mut(), len: SLOT_SIZE, path: Some(path.to_string()) });
        }
        #[cfg(not(miri))]
        unsafe {
            let c = std::ffi::CString::new(path).ok()?;
            let fd = libc::open(c.as_ptr(), libc::O_RDWR | libc::O_CREAT | libc::O_TRUNC, 0o644);
            if fd < 0 {
                return None;
            }
            if libc::ftruncate(fd, SLOT_SIZE as libc::off_t) != 0 {
                libc::close(fd);
                return None;
            }
            let p = libc::mmap(
                std::ptr::null_mut(),
                SLOT_SIZE,
                libc::PROT_READ | libc::PROT_WRITE,
                libc::MAP_SHARED,
                fd,
                0,
            );
            libc::close(fd);
            if p == libc::MAP_FAILED {
                return None;
            }
            Some(Slot { ptr: p as *mut u8, len: SLOT_SIZE, path: None })
        }
    }
    /// layout: u64 index | u32 entry_len | u32 nparams | u64 input_len(total) | u64 stored_len | entry | params | input
    pub fn store(&mut self, idx: u64, c: &Case) {
        let mut hdr = Vec::with_capacity(64 + c.entry.len() + c.params.len() * 8);
        hdr.extend_from_slice(&idx.to_le_bytes());
        hdr.extend_from_slice(&(c.entry.len() as u32).to_le_bytes());
        hdr.extend_from_slice(&(c.params.len() as u32).to_le_bytes());
        hdr.extend_from_slice(&(c.input.len() as u64).to_le_bytes());
        let room = self.len - 32 - c.entry.len() - c.params.len() * 8 - 64;
        let stored = c.input.len().min(room);
        hdr.extend_from_slice(&(stored as u64).to_le_bytes());
        hdr.extend_from_slice(c.entry.as_bytes());
        for p in &c.params {
            hdr.extend_from_slice(&p.to_le_bytes());
        }
        if let Some(p) = &self.path {
            hdr.extend_from_slice(&c.input[..stored]);
            let _ = std::fs::write(p, &hdr);
            return;
        }
        unsafe {
            std::ptr::copy_nonoverlapping(hdr.as_ptr(), self.ptr, hdr.len());
            std::ptr::copy_nonoverlapping(c.input.as_ptr(), self.ptr.add(hdr.len()), stored);
        }
    }
}

pub fn read_slot(path: &str) -> Option<(u64, Case, bool)> {
    let b = std::fs::read(path).ok()?;
    if b.len() < 32 {
        return None;
    }
    let idx = u64::from_le_bytes(b[0..8].try_into().ok()?);
    let el = u32::from_le_bytes(b[8..12].try_into().ok()?) as usize;
    let np = u32::from_le_bytes(b[12..16].try_into().ok()?) as usize;
    let total = u64::from_le_bytes(b[16..24].try_into().ok()?) as usize;
    let stored = u64::from_le_bytes(b[24..32].try_into().ok()?) as usize;
    let mut o = 32;
    if el == 0 || o + el + np * 8 + stored > b.len() {
        return None;
    }
    let entry = String::from_utf8_lossy(&b[o..o + el]).to_string();
    o += el;
    let mut params = vec![];
    for _ in 0..np {
        params.push(i64::from_le_bytes(b[o..o + 8].try_into().ok()?));
        o += 8;
    }
    let input = b[o..o + stored].to_vec();
    Some((idx, Case { entry, input, params }, stored == total))
}

// ---------------------------------------------------------------------------------------------
// worker

pub struct RunOpts {
    pub out_dir: String,
    pub skip_until: u64,
    pub max_cases: Option<u64>,
}

/// Execute one case under the panic monitor. A panic escaping `exec` that the monitor did not
/// itself attribute is reported with a panic signature.
pub fn exec_one(chk: &dyn Check, ctx: &mut Ctx, c: &Case, idx: u64) {
    ctx.begin(c, idx);
    let r = catch_unwind(AssertUnwindSafe(|| chk.exec(ctx, c)));
    if r.is_err() {
        let (loc, msg) = take_panic().unwrap_or(("?".into(), "?".into()));
        if loc.contains("/verif/harness") || loc.starts_with("src/") {
            ctx.fail(&format!("harness-panic@{}", loc), format!("harness panicked: {} at {}", msg, loc));
        } else {
            ctx.fail(&panic_sig(&loc, &msg), format!("panic crossed a safe entry point: {} at {}", msg, loc));
        }
    }
    ctx.end();
}

/// Cases run on a thread with Rust's default spawned-thread stack (2 MiB): "bounded stack" is
/// read as "fits the default thread stack". Sanitizer/valgrind instrumentation inflates frames
/// (ASan red zones), so those builds get 4x.
pub fn case_stack(build: &str) -> usize {
    if matches!(build, "asan" | "tsan" | "vg") {
        8 << 20
    } else {
        2 << 20
    }
}

pub fn run_shard(chk: &'static dyn Check, g: GenParams, opts: RunOpts) -> i32 {
    install_panic_hook();
    let shard = g.shard;
    let out = opts.out_dir.clone();
    let handle = std::thread::Builder::new()
        .name("case".into())
        .stack_size(case_stack(&g.build))
        .spawn(move || {
            let mut ctx = Ctx::new(chk.id(), &g.build, g.tier);
            let mut slot = Slot::open(&format!("{}/shard_{}.slot", opts.out_dir, g.shard));
            let mut idx: u64 = 0;
            let t0 = std::time::Instant::now();
            let mut emit = |c: Case| {
                let i = idx;
                idx += 1;
                if i < opts.skip_until {
                    return;
                }
                if let Some(m) = opts.max_cases {
                    if i >= m {
                        return;
                    }
                }
                if let Some(s) = slot.as_mut() {
                    s.store(i, &c);
                }
                exec_one(chk, &mut ctx, &c, i);
            };
            chk.generate(&g, &mut emit);
            let wall = t0.elapsed().as_secs_f64();
            (ctx, idx, wall, g)
        })
        .expect("spawn case thread");
    let (ctx, total, wall, g) = match handle.join() {
        Ok(x) => x,
        Err(_) => {
            eprintln!("case thread panicked outside a case");
            return 3;
        }
    };
    // write shard result
    let digs: Vec<u64> = ctx.digests.iter().copied().collect();
    let res = serde_json::json!({
        "check": ctx.check, "build": ctx.build, "shard": shard, "seed": g.seed,
        "cases": ctx.cases, "generated": total, "evaluations": ctx.evaluations.max(ctx.cases),
        "nontrivial_total": ctx.nontrivial_total,
        "classes": ctx.classes, "samples": ctx.samples, "viol_count": ctx.viol_count,
        "violations": ctx.viols, "wall_s": wall, "notes": ctx.notes,
        "required": chk.required_classes(&ctx.build, ctx.tier),
    });
    let p = format!("{}/shard_{}.json", out, shard);
    if let Ok(mut f) = std::fs::File::create(&p) {
        let _ = f.write_all(serde_json::to_string(&res).unwrap().as_bytes());
    }
    let mut raw = Vec::with_capacity(digs.len() * 8);
    for d in digs {
        raw.extend_from_slice(&d.to_le_bytes());
    }
    let _ = std::fs::write(format!("{}/shard_{}.dig", out, shard), raw);
    if !ctx.transcript.is_empty() {
        let mut raw = Vec::with_capacity(ctx.transcript.len() * 16);
        for (a, b) in &ctx.transcript {
            raw.extend_from_slice(&a.to_le_bytes());
            raw.extend_from_slice(&b.to_le_bytes());
        }
        let _ = std::fs::write(format!("{}/shard_{}.tr", out, shard), raw);
    }
    0
}

pub fn replay(chk: &'static dyn Check, build: &str, c: Case) -> Ctx {
    install_panic_hook();
    let b = build.to_string();
    std::thread::Builder::new()
        .stack_size(case_stack(build))
        .spawn(move || {
            let mut ctx = Ctx::new(chk.id(), &b, Tier::Quick);
            exec_one(chk, &mut ctx, &c, 0);
            ctx
        })
        .unwrap()
        .join()
        .expect("replay thread")
}
