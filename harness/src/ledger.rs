//! Counting and poisoning global allocator: every block is overwritten with 0xDD before it goes
//! back to the system allocator, so that a read through a dangling pointer sees bytes that cannot
//! be mistaken for the JSON text, string or node that used to live there (the oracles compare
//! contents, they cannot see addresses). Growing reallocations move by hand for the same reason. Disabled (feature `noledger`) in sanitizer / valgrind / Miri builds,
//! where address-remembering wrappers would hide leaks from the tool.
use std::alloc::{GlobalAlloc, Layout, System};
use std::sync::atomic::{AtomicI64, AtomicU64, Ordering::Relaxed};

pub struct Ledger;

pub const POISON: u8 = 0xDD;
const MOVE_BY_HAND: usize = 1 << 16;

pub static LIVE_BLOCKS: AtomicI64 = AtomicI64::new(0);
pub static LIVE_BYTES: AtomicI64 = AtomicI64::new(0);
pub static ALLOCS: AtomicU64 = AtomicU64::new(0);
pub static FREES: AtomicU64 = AtomicU64::new(0);

unsafe impl GlobalAlloc for Ledger {
    unsafe fn alloc(&self, l: Layout) -> *mut u8 {
        let p = System.alloc(l);
        if !p.is_null() {
            LIVE_BLOCKS.fetch_add(1, Relaxed);
            LIVE_BYTES.fetch_add(l.size() as i64, Relaxed);
            ALLOCS.fetch_add(1, Relaxed);
        }
        p
    }
    unsafe fn dealloc(&self, p: *mut u8, l: Layout) {
        LIVE_BLOCKS.fetch_sub(1, Relaxed);
        LIVE_BYTES.fetch_sub(l.size() as i64, Relaxed);
        FREES.fetch_add(1, Relaxed);
        std::ptr::write_bytes(p, POISON, l.size());
        System.dealloc(p, l)
    }
    unsafe fn alloc_zeroed(&self, l: Layout) -> *mut u8 {
        let p = System.alloc_zeroed(l);
        if !p.is_null() {
            LIVE_BLOCKS.fetch_add(1, Relaxed);
            LIVE_BYTES.fetch_add(l.size() as i64, Relaxed);
            ALLOCS.fetch_add(1, Relaxed);
        }
        p
    }
    unsafe fn realloc(&self, p: *mut u8, l: Layout, new: usize) -> *mut u8 {
        if l.size() <= MOVE_BY_HAND {
            // move by hand so that the old block is poisoned too
            let q = System.alloc(Layout::from_size_align_unchecked(new, l.align()));
            if !q.is_null() {
                std::ptr::copy_nonoverlapping(p, q, l.size().min(new));
                std::ptr::write_bytes(p, POISON, l.size());
                System.dealloc(p, l);
                LIVE_BYTES.fetch_add(new as i64 - l.size() as i64, Relaxed);
            }
            return q;
        }
        let q = System.realloc(p, l, new);
        if !q.is_null() {
            LIVE_BYTES.fetch_add(new as i64 - l.size() as i64, Relaxed);
        }
        q
    }
}

#[cfg(all(not(feature = "noledger"), not(miri)))]
#[global_allocator]
static GLOBAL: Ledger = Ledger;

pub fn enabled() -> bool {
    cfg!(all(not(feature = "noledger"), not(miri)))
}

#[derive(Clone, Copy, Debug, PartialEq)]
pub struct Snap {
    pub blocks: i64,
    pub bytes: i64,
}

pub fn snap() -> Snap {
    Snap { blocks: LIVE_BLOCKS.load(Relaxed), bytes: LIVE_BYTES.load(Relaxed) }
}
