//! xorshift64* — the only source of randomness in the harness (seeded from VERIF_SEED).
#[derive(Clone)]
pub struct Rng(pub u64);

impl Rng {
    pub fn new(seed: u64) -> Self {
        // splitmix to avoid weak low seeds
        let mut z = seed.wrapping_add(0x9E3779B97F4A7C15);
        z = (z ^ (z >> 30)).wrapping_mul(0xBF58476D1CE4E5B9);
        z = (z ^ (z >> 27)).wrapping_mul(0x94D049BB133111EB);
        z ^= z >> 31;
        Rng(if z == 0 { 0x1234_5678_9abc_def1 } else { z })
    }
    #[inline]
    pub fn next(&mut self) -> u64 {
        let mut x = self.0;
        x ^= x >> 12;
        x ^= x << 25;
        x ^= x >> 27;
        self.0 = x;
        x.wrapping_mul(0x2545F4914F6CDD1D)
    }
    #[inline]
    pub fn below(&mut self, n: u64) -> u64 {
        if n == 0 {
            0
        } else {
            self.next() % n
        }
    }
    #[inline]
    pub fn range(&mut self, lo: usize, hi_incl: usize) -> usize {
        lo + self.below((hi_incl - lo + 1) as u64) as usize
    }
    #[inline]
    pub fn chance(&mut self, num: u64, den: u64) -> bool {
        self.below(den) < num
    }
    #[inline]
    pub fn pick<'a, T>(&mut self, xs: &'a [T]) -> &'a T {
        &xs[self.below(xs.len() as u64) as usize]
    }
    pub fn fork(&mut self) -> Rng {
        Rng::new(self.next())
    }
}

pub fn fnv1a(parts: &[&[u8]]) -> u64 {
    let mut h: u64 = 0xcbf29ce484222325;
    for p in parts {
        for b in *p {
            h ^= *b as u64;
            h = h.wrapping_mul(0x100000001b3);
        }
        h ^= 0xff;
        h = h.wrapping_mul(0x100000001b3);
    }
    h
}
