//! C14 — validating lazy APIs never hand out malformed fragments.
use bytes::Bytes;
use sonic_rs::{JsonValueTrait, PointerNode, PointerTree};

use crate::core::{Case, Check, Ctx, GenParams, Tier};
use crate::gen::doc::{self, DocOpts};
use crate::gen::mutate;
use crate::mon::c01::to_pointer;
use crate::mon::common::exact;
use crate::refmodel::lookup::{all_paths, strict_walk, PathEl};
use crate::refmodel::recog;
use crate::rng::Rng;

pub struct C14;

fn fmt_path(p: &[PathEl]) -> String {
    format!("{:?}", p)
}

/// a returned value must be justified by a strict walk of the traversed prefix
fn justify(ctx: &mut Ctx, api: &str, b: &[u8], base: Option<*const u8>, p: &[PathEl], raw: &str) {
    ctx.ops(1);
    ctx.class("returned:value");
    if std::str::from_utf8(raw.as_bytes()).is_err() {
        ctx.fail(&format!("fragment-not-utf8:{}", api), format!("{} {} returned raw text that is not UTF-8", api, fmt_path(p)));
        return;
    }
    match recog::parse_document(raw.as_bytes()) {
        Ok(d) if d.end == raw.len() && d.root.start == 0 => {}
        _ => {
            ctx.fail(&format!("fragment-malformed:{}", api), format!("{} {} returned {:?}, which is not one well-formed JSON value without surrounding blanks", api, fmt_path(p), crate::core::truncate(raw, 200)));
            return;
        }
    }
    if api == "get_many" {
        // get_many scans the members in order and (with duplicate names) may return a later
        // occurrence than single-path get: it is justified when the returned span lies inside the
        // input and everything up to its end is a well-formed JSON prefix.
        let Some(base) = base else { return };
        let off = (raw.as_ptr() as usize).wrapping_sub(base as usize);
        if off > b.len() || off + raw.len() > b.len() || &b[off..off + raw.len()] != raw.as_bytes() {
            ctx.fail("fragment-outside:get_many", format!("get_many {}: returned span is not inside the input", fmt_path(p)));
            return;
        }
        match recog::parse_prefix(&b[..off + raw.len()], 0) {
            Ok(_) => {}
            Err(e) if e.kind != recog::ErrKind::Syntax => {}
            Err(e) => ctx.fail(
                "traversed-malformed:get_many",
                format!("get_many {} returned {:?} although the input before it is malformed at byte {}: {:?}", fmt_path(p), crate::core::truncate(raw, 80), e.at, crate::core::truncate(&String::from_utf8_lossy(b), 400)),
            ),
        }
        if std::str::from_utf8(&b[..off + raw.len()]).is_err() {
            ctx.fail("traversed-not-utf8:get_many", format!("get_many {}: bytes before the returned value are not UTF-8", fmt_path(p)));
        }
        return;
    }
    match strict_walk(b, p) {
        Ok((s, e)) => {
            if &b[s..e] != raw.as_bytes() {
                ctx.fail(&format!("fragment-span:{}", api), format!("{} {} returned {:?} but the strict walk finds {:?}", api, fmt_path(p), crate::core::truncate(raw, 120), crate::core::truncate(&String::from_utf8_lossy(&b[s..e]), 120)));
            } else if let Some(base) = base {
                let off = (raw.as_ptr() as usize).wrapping_sub(base as usize);
                if off != s {
                    ctx.fail(&format!("fragment-outside:{}", api), format!("{} {}: returned span starts at {} not {}", api, fmt_path(p), off as isize, s));
                }
            }
        }
        Err(e) => {
            if e.kind == recog::ErrKind::TooDeep {
                return;
            }
            ctx.fail(
                &format!("traversed-malformed:{}", api),
                format!("{} {} returned {:?} although what had to be traversed is malformed at byte {} of {:?}", api, fmt_path(p), crate::core::truncate(raw, 80), e.at, crate::core::truncate(&String::from_utf8_lossy(b), 300)),
            );
        }
    }
}

pub fn check_input(ctx: &mut Ctx, b: &[u8], paths: &[Vec<PathEl>]) {
    let ex = exact(b);
    let base = Some(ex.as_ptr());
    let by = Bytes::copy_from_slice(b);
    let st = std::str::from_utf8(&ex).ok();
    for p in paths {
        let pn: Vec<PointerNode> = to_pointer(p);
        ctx.ops(2);
        match sonic_rs::get(&ex[..], &pn) {
            Ok(v) => justify(ctx, "get(&[u8])", b, base, p, v.as_raw_str()),
            Err(_) => ctx.class("returned:error"),
        }
        match sonic_rs::get_from_bytes(&by, &pn) {
            Ok(v) => justify(ctx, "get_from_bytes", b, None, p, v.as_raw_str()),
            Err(_) => ctx.class("returned:error"),
        }
        if let Some(s) = st {
            ctx.ops(1);
            match sonic_rs::get_from_str(s, &pn) {
                Ok(v) => justify(ctx, "get_from_str", b, base, p, v.as_raw_str()),
                Err(_) => ctx.class("returned:error"),
            }
        }
    }
    // get_many over the (shape-consistent, document-derived) path set
    if !paths.is_empty() {
        let mut kinds: std::collections::BTreeMap<Vec<PathEl>, bool> = Default::default();
        let mut set: Vec<&Vec<PathEl>> = vec![];
        'n: for p in paths {
            for i in 0..p.len() {
                let k = matches!(p[i], PathEl::Key(_));
                match kinds.get(&p[..i]) {
                    Some(x) if *x != k => continue 'n,
                    _ => {}
                }
            }
            for i in 0..p.len() {
                kinds.insert(p[..i].to_vec(), matches!(p[i], PathEl::Key(_)));
            }
            set.push(p);
        }
        let mut tree = PointerTree::new();
        for p in &set {
            tree.add_path(&to_pointer(p));
        }
        ctx.ops(1);
        if let Ok(slots) = sonic_rs::get_many(&ex[..], &tree) {
            for (slot, p) in slots.iter().zip(set.iter()) {
                if let Some(v) = slot {
                    justify(ctx, "get_many", b, base, p, v.as_raw_str());
                }
            }
        }
    }
    // get_by_schema: success means the whole first value was traversed and must be well-formed
    ctx.ops(1);
    let schema = sonic_rs::json!({"a": null, "b": {"c": 1}, "id": 0, "name": "", "k": {"k": 1}, "": [], "data": {"x": 1}});
    if let Ok(v) = sonic_rs::get_by_schema(&ex[..], schema) {
        ctx.class("returned:schema-ok");
        let _ = v.is_object();
        match recog::parse_prefix(b, 0) {
            Ok(d) => {
                if !d.utf8 {
                    ctx.fail("schema-accepts-non-utf8", "get_by_schema succeeded although the traversed value is not UTF-8".into());
                }
            }
            Err(e) if e.kind != recog::ErrKind::TooDeep => ctx.fail(
                "schema-accepts-malformed",
                format!("get_by_schema succeeded although the document is malformed at byte {}: {:?}", e.at, crate::core::truncate(&String::from_utf8_lossy(b), 300)),
            ),
            _ => {}
        }
    }
    // checked iterators: every yielded item is a member of the strict model (C12's one-directional part)
    // (the iterator model is kept to nesting <= 64: deeper inputs are judged through get* only)
    let mut depth = 0i32;
    let mut max_depth = 0i32;
    for c in b {
        match c {
            b'[' | b'{' => {
                depth += 1;
                max_depth = max_depth.max(depth);
            }
            b']' | b'}' => depth -= 1,
            _ => {}
        }
    }
    for object in [false, true] {
        if max_depth > 60 {
            break;
        }
        let m = crate::mon::c12::model(b, object);
        let mut i = 0;
        let mut bad: Option<String> = None;
        if object {
            for x in sonic_rs::to_object_iter(&ex[..]).take(50_000) {
                if let Ok((k, v)) = x {
                    // what is handed out is UTF-8, and so is everything traversed before it
                    let raw = v.as_raw_str().as_bytes();
                    let end = (raw.as_ptr() as usize).wrapping_sub(ex.as_ptr() as usize).wrapping_add(raw.len());
                    if std::str::from_utf8(raw).is_err() || std::str::from_utf8(k.as_bytes()).is_err() || (end <= b.len() && std::str::from_utf8(&b[..end]).is_err()) {
                        bad = bad.or(Some(format!("object item {} handed out with bytes that are not UTF-8 in it or before it", i)));
                    }
                    match m.items.get(i) {
                        Some((mk, s, e)) if mk.as_deref() == Some(k.as_ref()) && &b[*s..*e] == v.as_raw_str().as_bytes() => {}
                        _ => bad = bad.or(Some(format!("object item {} ({:?}: {:?})", i, k, crate::core::truncate(v.as_raw_str(), 80)))),
                    }
                    i += 1;
                }
            }
        } else {
            for x in sonic_rs::to_array_iter(&ex[..]).take(50_000) {
                if let Ok(v) = x {
                    let raw = v.as_raw_str().as_bytes();
                    let end = (raw.as_ptr() as usize).wrapping_sub(ex.as_ptr() as usize).wrapping_add(raw.len());
                    if std::str::from_utf8(raw).is_err() || (end <= b.len() && std::str::from_utf8(&b[..end]).is_err()) {
                        bad = bad.or(Some(format!("array item {} handed out with bytes that are not UTF-8 in it or before it", i)));
                    }
                    match m.items.get(i) {
                        Some((_, s, e)) if &b[*s..*e] == v.as_raw_str().as_bytes() => {}
                        _ => bad = bad.or(Some(format!("array item {} ({:?})", i, crate::core::truncate(v.as_raw_str(), 80)))),
                    }
                    i += 1;
                }
            }
        }
        ctx.ops(1);
        if i > 0 {
            ctx.class("returned:iter-item");
        }
        if let Some(bd) = bad {
            ctx.fail(if object { "iter-item-unjustified:to_object_iter" } else { "iter-item-unjustified:to_array_iter" }, format!("{} is not a well-formed leading member of {:?}", bd, crate::core::truncate(&String::from_utf8_lossy(b), 300)));
        }
    }
}


/// (path of the member, span of its key literal) for members whose key is spelled without escapes
fn plain_keys(r: &recog::R, b: &[u8], cur: &mut Vec<PathEl>, out: &mut Vec<(Vec<PathEl>, usize, usize)>) {
    if out.len() > 40 {
        return;
    }
    match &r.k {
        recog::K::Arr(xs) => {
            for (i, x) in xs.iter().enumerate().take(6) {
                cur.push(PathEl::Idx(i));
                plain_keys(x, b, cur, out);
                cur.pop();
            }
        }
        recog::K::Obj(ms) => {
            for (k, x) in ms.iter().take(8) {
                let Some(ks) = k.key_str() else { continue };
                cur.push(PathEl::Key(ks.to_string()));
                if !b[k.start..k.end].contains(&b'\\') && k.end - k.start >= 2 {
                    out.push((cur.clone(), k.start, k.end));
                }
                plain_keys(x, b, cur, out);
                cur.pop();
            }
        }
        _ => {}
    }
}

/// A raw quote / control character is put into the spelling of one member name (which makes the
/// document malformed there) and the lookup uses the name with that very character in it: whatever
/// a checked API hands out for it is unjustified.
fn raw_key_case(ctx: &mut Ctx, d: &[u8], seed: u64) {
    let Ok(doc) = recog::parse_document(d) else { return };
    let mut keys = vec![];
    plain_keys(&doc.root, d, &mut vec![], &mut keys);
    if keys.is_empty() {
        return;
    }
    let mut r = Rng::new(seed);
    for _ in 0..4 {
        let (path, ks, ke) = r.pick(&keys).clone();
        let body_len = ke - ks - 2;
        let at = r.below(body_len as u64 + 1) as usize; // position inside the key body
        let c: u8 = *r.pick(&[b'"', b'\t', b'\n', 0x01, 0x1f, b'"']);
        let mut m = d.to_vec();
        m.insert(ks + 1 + at, c);
        let PathEl::Key(name) = path.last().unwrap() else { continue };
        // the key body has no escapes, so byte positions of spelling and decoded name coincide
        let mut nb = name.as_bytes().to_vec();
        if at > nb.len() {
            continue;
        }
        nb.insert(at, c);
        let Ok(new_name) = String::from_utf8(nb) else { continue };
        let mut p2 = path.clone();
        *p2.last_mut().unwrap() = PathEl::Key(new_name);
        ctx.class("mode:raw-byte-in-key");
        check_input(ctx, &m, &[p2, path]);
    }
}

fn paths_of(b: &[u8]) -> Vec<Vec<PathEl>> {
    match recog::parse_document(b) {
        Ok(d) => all_paths(&d.root, 24),
        Err(_) => vec![],
    }
}

impl Check for C14 {
    fn id(&self) -> &'static str {
        "C14"
    }
    fn generate(&self, g: &GenParams, emit: &mut dyn FnMut(Case)) {
        let mut r = g.rng(14);
        let n = g.count(1_500, 50_000);
        for _ in 0..n {
            let mut o = DocOpts::random(&mut r);
            o.budget = o.budget.min(30);
            o.long_strings = r.chance(1, 4);
            let d = doc::gen_doc(&mut r, &o);
            // the paths come from the *unmutated* document and are passed along as a seed
            emit(Case::with("every-prefix-and-subst", d, &[r.next() as i64]));
        }
        let n = g.count(60_000, 4_000_000);
        for _ in 0..n {
            let o = DocOpts::random(&mut r);
            let d = doc::gen_doc(&mut r, &o);
            let mut m = d.clone();
            // targeted garbage: between tokens, inside skipped siblings
            for _ in 0..r.range(1, 2) {
                m = match r.below(4) {
                    0 => {
                        let gaps = mutate::token_gaps(&m);
                        let at = (*r.pick(&gaps)).min(m.len());
                        let junk: &[u8] = *r.pick(&[b"x" as &[u8], b"xx", b"1", b",", b":", b"\"", b"}", b"]", b"\\", b"\xff", b"nul", b"-", b"{", b"["]);
                        let mut v = m.clone();
                        for (k, ch) in junk.iter().enumerate() {
                            v.insert(at + k, *ch);
                        }
                        v
                    }
                    _ => mutate::mutate(&mut r, &m).0,
                };
            }
            // input = original document followed by the mutated one; params[0] = length of the original
            let n0 = d.len() as i64;
            let mut both = d;
            both.extend_from_slice(&m);
            emit(Case::with("mutated", both, &[n0]));
        }
        let n = g.count(20_000, 1_000_000);
        for _ in 0..n {
            let mut o = DocOpts::random(&mut r);
            o.budget = o.budget.min(30);
            let d = doc::gen_doc(&mut r, &o);
            emit(Case::with("rawkey", d, &[r.next() as i64]));
        }
        // members of a few MiB to skip, with multi-byte characters (or one ill-formed sequence)
        // across the multiples of 256 KiB
        for j in 0..crate::gen::bigutf8::VARIANTS {
            if g.mine(7100 + j as u64) && (g.scale >= 0.5 || j % 8 == 0) {
                emit(Case::with("big-utf8", vec![], &[j as i64]));
            }
        }
        // a sibling nested beyond the limit (255) with garbage deep inside, the target behind it
        {
            let mut idx = 0u64;
            for depth in [250usize, 255, 256, 257, 300, 600] {
                for junk in 0..10i64 {
                    idx += 1;
                    if g.mine(idx) && (g.tier == Tier::Thorough || junk % 3 == (depth % 3) as i64) {
                        emit(Case::with("deep-sibling", vec![], &[depth as i64, junk]));
                    }
                }
            }
        }
        if g.shard == 0 {
            for s in [
                r#"{xx"a":1}"#, r#"{"b":2 xx,"a":1}"#, r#"[1 x,2]"#, r#"{"b":"\uZZZZ","a":1}"#, r#"{"b":tru,"a":1}"#, r#"{"b":[1,],"a":1}"#,
                r#"{"b":{"c"},"a":1}"#, r#"{"b":01,"a":1}"#, r#"{"b" 2,"a":1}"#, r#"{"b":2;"a":1}"#, r#"[[1,2}, 3]"#, r#"{"a":1"#, r#"{"a":"x"#,
                r#"{"b":"\x","a":1}"#, r#"{"b":2,,"a":1}"#, r#"{,"a":1}"#, r#"[,1]"#, r#"{"b":-,"a":1}"#, r#"{"b":1.,"a":1}"#, "{\"b\":\"\x01\",\"a\":1}",
            ] {
                emit(Case::with("hand", s.as_bytes().to_vec(), &[0]));
            }
        }
    }
    fn exec(&self, ctx: &mut Ctx, c: &Case) {
        let d = &c.input;
        match c.entry.as_str() {
            "every-prefix-and-subst" => {
                let paths = paths_of(d);
                let paths: Vec<_> = paths.into_iter().take(10).collect();
                ctx.nontrivial();
                for l in 0..d.len() {
                    check_input(ctx, &d[..l], &paths);
                }
                let mut r = Rng::new(c.p(0) as u64);
                let mut m = d.clone();
                for i in 0..d.len() {
                    let old = m[i];
                    m[i] = if r.chance(3, 4) { *r.pick(mutate::STRUCT_ALPHABET) } else { r.next() as u8 };
                    check_input(ctx, &m, &paths);
                    m[i] = old;
                }
                ctx.class("mode:every-prefix-and-substitution");
                ctx.sample("every-prefix-and-subst");
            }
            "big-utf8" => {
                let (m, _) = crate::gen::bigutf8::make(c.p(0) as usize);
                let paths = vec![vec![PathEl::Key("t".into())], vec![PathEl::Key("arr".into()), PathEl::Idx(1)], vec![PathEl::Key("s".into())]];
                ctx.nontrivial();
                ctx.class("mode:big-utf8");
                check_input(ctx, &m, &paths);
                ctx.sample("big-utf8");
            }
            "deep-sibling" => {
                let (depth, junk) = (c.p(0) as usize, c.p(1) as usize);
                let inner: &[u8] = [&b"oops"[..], b"1 2", b"tru", b"\"a\nb\"", b"\"\\q\"", b"01", b"1,", b"{\"k\" 1}", b"}{", b"7"][junk % 10];
                let mut m = b"{\"a\":".to_vec();
                for i in 0..depth {
                    m.extend_from_slice(if i % 2 == 0 { b"[" } else { b"{\"n\":" });
                }
                m.extend_from_slice(inner);
                for i in (0..depth).rev() {
                    m.extend_from_slice(if i % 2 == 0 { b"]" } else { b"}" });
                }
                m.extend_from_slice(b",\"b\":1,\"c\":[true,{\"d\":null}]}");
                let paths = vec![vec![PathEl::Key("b".into())], vec![PathEl::Key("c".into()), PathEl::Idx(1), PathEl::Key("d".into())], vec![PathEl::Key("a".into())]];
                ctx.nontrivial();
                ctx.class("mode:deep-sibling");
                check_input(ctx, &m, &paths);
                ctx.sample("deep-sibling");
            }
            "rawkey" => {
                ctx.nontrivial();
                raw_key_case(ctx, d, c.p(0) as u64);
                ctx.sample("rawkey");
            }
            "hand" => {
                let paths = vec![vec![PathEl::Key("a".into())], vec![PathEl::Idx(1)], vec![PathEl::Idx(0), PathEl::Idx(1)], vec![PathEl::Key("b".into())]];
                ctx.nontrivial();
                check_input(ctx, d, &paths);
                ctx.sample("hand");
            }
            _ => {
                let n0 = (c.p(0) as usize).min(d.len());
                let paths = paths_of(&d[..n0]);
                ctx.nontrivial();
                ctx.class("mode:mutated");
                check_input(ctx, &d[n0..], &paths);
                ctx.sample("mutated");
            }
        }
    }
    fn required_classes(&self, _b: &str, _t: Tier) -> Vec<&'static str> {
        vec!["returned:value", "returned:error", "returned:iter-item", "mode:every-prefix-and-substitution", "mode:mutated", "mode:raw-byte-in-key", "mode:deep-sibling", "mode:big-utf8"]
    }
}
