//! C09 — string literals decode exactly, at every length and alignment.
use std::borrow::Cow;
use std::collections::HashMap;

use serde::Deserialize;
use sonic_rs::{Deserializer, JsonContainerTrait, JsonValueTrait, LazyValue, OwnedLazyValue, Value};

use crate::core::{Case, Check, Ctx, GenParams, Tier};
use crate::mon::common::exact;
use crate::refmodel::strdec::{decode_lossy, decode_strict};
use crate::rng::Rng;

pub struct C09;

#[derive(Deserialize)]
struct Emb {
    #[allow(dead_code)]
    a: u8,
    v: Value,
}

#[derive(Deserialize)]
struct BCow<'a>(#[serde(borrow)] Cow<'a, str>);

/// what a decoder produced
enum Got {
    Rejected(String),
    /// decoded text, Some(true) if we know it was borrowed from the input, Some(false) if owned
    Str(String, Option<bool>),
    /// accepted but no string could be obtained (lazy value whose as_str() is None)
    NoStr,
}

fn within(input: &[u8], s: &str) -> bool {
    let a = input.as_ptr() as usize;
    let p = s.as_ptr() as usize;
    !s.is_empty() && p >= a && p + s.len() <= a + input.len()
}

/// `lit` = the literal including quotes (or malformed variant); `pre` blanks before, `post` after.
fn run_decoders(ctx: &mut Ctx, lit: &[u8], pre: usize, post: usize, label: &str) {
    let body_ok = lit.len() >= 2 && lit[0] == b'"' && lit[lit.len() - 1] == b'"';
    // grammar-level: the literal must be exactly one string token
    let token_ok = body_ok && {
        let mut p = crate::refmodel::recog::P::new(lit);
        matches!(p.string(0), Ok((_, e)) if e == lit.len())
    };
    let body: &[u8] = if body_ok { &lit[1..lit.len() - 1] } else { b"" };
    let strict: Option<String> = if token_ok { decode_strict(body) } else { None };
    let lossy: Option<String> = if token_ok { decode_lossy(body) } else { None };
    let has_escape = body.contains(&b'\\');
    let utf8 = std::str::from_utf8(lit).is_ok();
    ctx.class(if strict.is_some() { "literal:well-formed" } else { "literal:malformed" });
    if strict.is_some() && has_escape {
        ctx.class("literal:escaped");
    }

    let mut whole = vec![b' '; pre];
    whole.extend_from_slice(lit);
    whole.extend(std::iter::repeat(b' ').take(post));
    let whole = exact(&whole);
    let mut emb = vec![b' '; pre];
    emb.extend_from_slice(b"{\"a\":1,\"v\":");
    emb.extend_from_slice(lit);
    emb.extend(std::iter::repeat(b' ').take(post));
    emb.push(b'}');
    let emb = exact(&emb);
    let mut keyd = vec![b' '; pre];
    keyd.extend_from_slice(b"{");
    keyd.extend_from_slice(lit);
    keyd.extend(std::iter::repeat(b' ').take(post % 3));
    keyd.extend_from_slice(b":1}");
    let keyd = exact(&keyd);

    let mut verdict = |ctx: &mut Ctx, dec: &str, got: Got, want: &Option<String>, decodes: bool, lossy_mode: bool| {
        ctx.ops(1);
        match (got, want) {
            (Got::Str(s, borrowed), Some(w)) => {
                if std::str::from_utf8(s.as_bytes()).is_err() {
                    ctx.fail(&format!("decoded-not-utf8:{}", dec), format!("{} returned a str that is not UTF-8 ({})", dec, label));
                } else if &s != w {
                    ctx.fail(
                        &format!("decode-differs:{}{}", dec, if lossy_mode { ":lossy" } else { "" }),
                        format!("{} decoded {:?} as {:?}, reference {:?} ({})", dec, String::from_utf8_lossy(lit), s, w, label),
                    );
                } else if let Some(b) = borrowed {
                    if !lossy_mode && b == has_escape && !s.is_empty() {
                        ctx.fail(
                            &format!("borrow-differs:{}", dec),
                            format!("{}: literal {:?} {} an escape but the result is {}", dec, String::from_utf8_lossy(lit), if has_escape { "contains" } else { "has no" }, if b { "borrowed" } else { "owned" }),
                        );
                    }
                }
            }
            (Got::Str(s, _), None) if lossy_mode && !token_ok => {
                // `Deserializer::deserialize` does not look at what follows the first token, so a
                // literal that is not one token carries no expectation here - except UTF-8
                if std::str::from_utf8(s.as_bytes()).is_err() {
                    ctx.fail(&format!("decoded-not-utf8:{}", dec), format!("{} returned a str that is not UTF-8 ({})", dec, label));
                }
            }
            (Got::Str(s, _), None) => {
                ctx.fail(
                    &format!("accept-malformed:{}{}", dec, if lossy_mode { ":lossy" } else { "" }),
                    format!("{} accepted malformed literal {:?} as {:?} ({})", dec, String::from_utf8_lossy(lit), String::from_utf8_lossy(s.as_bytes()), label),
                );
            }
            (Got::Rejected(e), Some(_)) => {
                ctx.fail(
                    &format!("reject-wellformed:{}{}", dec, if lossy_mode { ":lossy" } else { "" }),
                    format!("{} rejected well-formed literal {:?}: {} ({})", dec, String::from_utf8_lossy(lit), crate::core::truncate(&e, 120), label),
                );
            }
            (Got::NoStr, Some(_)) if decodes => {
                ctx.fail(&format!("no-string:{}", dec), format!("{} gave no string for well-formed literal {:?}", dec, String::from_utf8_lossy(lit)));
            }
            _ => {}
        }
    };
    let es = |e: sonic_rs::Error| Got::Rejected(e.to_string());

    // ---- strict decoders (in a `utf8_lossy` feature build from_slice is lossy: see below)
    if !cfg!(feature = "utf8_lossy") {
    let g = match sonic_rs::from_slice::<Value>(&whole) {
        Ok(v) => match v.as_str() {
            Some(s) => Got::Str(s.to_string(), None),
            None => Got::NoStr,
        },
        Err(e) => es(e),
    };
    verdict(ctx, "Value(in-place)", g, &strict, true, false);
    let g = match sonic_rs::from_slice::<Emb>(&emb) {
        Ok(v) => match v.v.as_str() {
            Some(s) => Got::Str(s.to_string(), None),
            None => Got::NoStr,
        },
        Err(e) => es(e),
    };
    verdict(ctx, "Value(copy)", g, &strict, true, false);
    let g = match sonic_rs::from_slice::<String>(&whole) {
        Ok(s) => Got::Str(s, None),
        Err(e) => es(e),
    };
    verdict(ctx, "String", g, &strict, true, false);
    let g = match sonic_rs::from_slice::<BCow>(&whole) {
        Ok(BCow(c)) => {
            let b = matches!(c, Cow::Borrowed(_));
            if b && !c.is_empty() && !within(&whole, &c) {
                ctx.fail("borrowed-outside-input:Cow", "Cow::Borrowed does not point into the input".into());
            }
            Got::Str(c.to_string(), Some(b))
        }
        Err(e) => es(e),
    };
    verdict(ctx, "Cow<str>", g, &strict, true, false);
    // the refcounted carriers: a borrowed result points into the CALLER's buffer (short inputs are
    // inlined into the reader's private FastStr) and is read after the deserializer is gone
    {
        let by = bytes::Bytes::copy_from_slice(&whole);
        let r = {
            let mut de = Deserializer::from_json(&by);
            de.deserialize::<BCow>()
        };
        let churn: Vec<String> = (0..4).map(|i| format!("{:>40}", i)).collect();
        std::hint::black_box(&churn);
        let g = match r {
            Ok(BCow(c)) => {
                let b = matches!(c, Cow::Borrowed(_));
                if b && !c.is_empty() && !within(&by, &c) {
                    ctx.fail("borrowed-outside-input:Cow:from_json(&Bytes)", format!("Cow::Borrowed of a {}-byte Bytes input does not point into the caller's buffer", by.len()));
                }
                Got::Str(c.to_string(), Some(b))
            }
            Err(e) => es(e),
        };
        // (`Deserializer::deserialize` does not look behind the first token)
        if token_ok || !matches!(g, Got::Str(..)) {
            verdict(ctx, "Cow<str>:from_json(&Bytes)", g, &strict, true, false);
        }
        if let Ok(st) = std::str::from_utf8(&whole) {
            let fs = faststr::FastStr::new(st);
            let r = {
                let mut de = Deserializer::from_json(&fs);
                de.deserialize::<BCow>()
            };
            let churn: Vec<String> = (0..4).map(|i| format!("{:>41}", i)).collect();
            std::hint::black_box(&churn);
            let g = match r {
                Ok(BCow(c)) => {
                    let b = matches!(c, Cow::Borrowed(_));
                    if b && !c.is_empty() && !within(fs.as_bytes(), &c) {
                        ctx.fail("borrowed-outside-input:Cow:from_json(&FastStr)", format!("Cow::Borrowed of a {}-byte FastStr input does not point into the caller's buffer", fs.len()));
                    }
                    Got::Str(c.to_string(), Some(b))
                }
                Err(e) => es(e),
            };
            if token_ok || !matches!(g, Got::Str(..)) {
                verdict(ctx, "Cow<str>:from_json(&FastStr)", g, &strict, true, false);
            }
        }
    }
    // &str target: succeeds iff well-formed and escape-free
    ctx.ops(1);
    match sonic_rs::from_slice::<&str>(&whole) {
        Ok(s) => match &strict {
            Some(w) if w == s && !has_escape => {}
            Some(w) if w == s => ctx.fail("borrow-differs:&str", format!("&str target succeeded on an escaped literal {:?}", String::from_utf8_lossy(lit))),
            Some(w) => ctx.fail("decode-differs:&str", format!("&str {:?} vs {:?}", s, w)),
            None => ctx.fail("accept-malformed:&str", format!("&str accepted {:?}", String::from_utf8_lossy(lit))),
        },
        Err(e) => {
            if strict.is_some() && !has_escape {
                ctx.fail("reject-wellformed:&str", format!("&str target rejected escape-free literal {:?}: {}", String::from_utf8_lossy(lit), e));
            }
        }
    }
    let g = match sonic_rs::from_slice::<Value>(&keyd) {
        Ok(v) => match v.as_object().and_then(|o| o.iter().next()) {
            Some((k, _)) => Got::Str(k.to_string(), None),
            None => Got::NoStr,
        },
        Err(e) => es(e),
    };
    verdict(ctx, "Value object key", g, &strict, true, false);
    let g = match sonic_rs::from_slice::<HashMap<String, u8>>(&keyd) {
        Ok(m) => match m.into_iter().next() {
            Some((k, _)) => Got::Str(k, None),
            None => Got::NoStr,
        },
        Err(e) => es(e),
    };
    verdict(ctx, "HashMap key", g, &strict, true, false);
    let g = match sonic_rs::from_slice::<HashMap<Cow<str>, u8>>(&keyd) {
        Ok(m) => match m.into_iter().next() {
            Some((k, _)) => Got::Str(k.to_string(), None),
            None => Got::NoStr,
        },
        Err(e) => es(e),
    };
    verdict(ctx, "HashMap<Cow> key", g, &strict, true, false);
    // lazy: parse follows the SKIP rule, as_str() decodes
    let skip_ok = token_ok && utf8;
    ctx.ops(1);
    match sonic_rs::from_slice::<LazyValue>(&whole) {
        Ok(lv) => {
            if !skip_ok {
                ctx.fail("accept-malformed:LazyValue(skip)", format!("LazyValue accepted {:?}", String::from_utf8_lossy(lit)));
            }
            let g = match lv.as_str() {
                Some(s) => Got::Str(s.to_string(), None),
                None => Got::NoStr,
            };
            verdict(ctx, "LazyValue::as_str", g, &strict, true, false);
            // asking twice returns the same (cached) decoding
            if lv.as_str().map(|s| s.to_string()) != lv.as_str().map(|s| s.to_string()) {
                ctx.fail("unstable:LazyValue::as_str", "two calls differ".into());
            }
            let ov: OwnedLazyValue = lv.into();
            let g = match ov.as_str() {
                Some(s) => Got::Str(s.to_string(), None),
                None => Got::NoStr,
            };
            verdict(ctx, "OwnedLazyValue::from(lazy).as_str", g, &strict, true, false);
        }
        Err(e) => {
            if skip_ok {
                ctx.fail("reject-wellformed:LazyValue(skip)", format!("LazyValue rejected {:?}: {}", String::from_utf8_lossy(lit), e));
            }
        }
    }
    ctx.ops(1);
    match sonic_rs::from_slice::<OwnedLazyValue>(&whole) {
        Ok(ov) => {
            if !skip_ok {
                ctx.fail("accept-malformed:OwnedLazyValue(skip)", format!("OwnedLazyValue accepted {:?}", String::from_utf8_lossy(lit)));
            }
            let g = match ov.as_str() {
                Some(s) => Got::Str(s.to_string(), None),
                None => Got::NoStr,
            };
            verdict(ctx, "OwnedLazyValue::as_str", g, &strict, true, false);
        }
        Err(e) => {
            if skip_ok {
                ctx.fail("reject-wellformed:OwnedLazyValue(skip)", format!("OwnedLazyValue rejected {:?}: {}", String::from_utf8_lossy(lit), e));
            }
        }
    }
    // the literal as a leaf found by the path walkers (skip-only decoders of their own): get,
    // get_many and, for well-formed literals, the unchecked ones, on a slice and on shared input
    if token_ok {
        let mut doc = b"{\"a\":[0,".to_vec();
        doc.extend_from_slice(lit);
        doc.extend_from_slice(b"],\"z\":1}");
        let path = sonic_rs::pointer!["a", 1];
        let mut tree = sonic_rs::PointerTree::new();
        tree.add_path(&path);
        tree.add_path(&sonic_rs::pointer!["z"]);
        let fsd = std::str::from_utf8(&doc).ok().map(faststr::FastStr::new);
        let grab = |r: sonic_rs::Result<Vec<Option<LazyValue>>>| -> Got {
            match r {
                Ok(v) => match v.into_iter().next().flatten() {
                    Some(lv) => match lv.as_str() {
                        Some(s) => Got::Str(s.to_string(), None),
                        None => Got::NoStr,
                    },
                    None => Got::NoStr,
                },
                Err(e) => es(e),
            }
        };
        ctx.ops(3);
        verdict(ctx, "get_many leaf.as_str", grab(sonic_rs::get_many(&doc[..], &tree)), &strict, true, false);
        if let Some(f) = &fsd {
            verdict(ctx, "get_many(&FastStr) leaf.as_str", grab(sonic_rs::get_many(f, &tree)), &strict, true, false);
        }
        if skip_ok && strict.is_some() {
            verdict(ctx, "get_many_unchecked leaf.as_str", grab(unsafe { sonic_rs::get_many_unchecked(&doc[..], &tree) }), &strict, true, false);
            let g = match unsafe { sonic_rs::get_unchecked(&doc[..], &path) } {
                Ok(lv) => match lv.as_str() {
                    Some(s) => Got::Str(s.to_string(), None),
                    None => Got::NoStr,
                },
                Err(e) => es(e),
            };
            verdict(ctx, "get_unchecked leaf.as_str", g, &strict, true, false);
        }
    }
    // key from the lazy object iterator
    let mut it = sonic_rs::to_object_iter(&keyd[..]);
    let g = match it.next() {
        Some(Ok((k, _))) => Got::Str(k.to_string(), None),
        Some(Err(e)) => es(e),
        None => Got::NoStr,
    };
    // the iterator looks at one member at a time: a "literal" that is not one token (an inner quote)
    // may begin with a complete `"key":value` member, which it rightly yields - no expectation then
    if token_ok || !matches!(g, Got::Str(..)) {
        verdict(ctx, "to_object_iter key", g, &strict, true, false);
    }
    // skip-only decoders of the unchecked APIs (well-formed literals only): the literal is a
    // skipped sibling / the returned value, with only a few bytes of input after it
    if strict.is_some() && utf8 {
        let mut arr = vec![b' '; pre];
        arr.push(b'[');
        arr.extend_from_slice(lit);
        arr.extend_from_slice(b",1]");
        let arr = exact(&arr);
        ctx.ops(3);
        unsafe {
            match sonic_rs::get_unchecked(&arr[..], &[1usize]) {
                Ok(v) if v.as_raw_str() == "1" => {}
                other => ctx.fail("skip-unchecked:get_unchecked", format!("get_unchecked([LIT,1],[1]) = {:?} for literal {:?}", other.map(|v| v.as_raw_str().to_string()).map_err(|e| e.to_string()), String::from_utf8_lossy(lit))),
            }
            match sonic_rs::get_unchecked(&arr[..], &[0usize]) {
                Ok(v) if v.as_raw_str().as_bytes() == lit => {}
                other => ctx.fail("skip-unchecked:get_unchecked-self", format!("get_unchecked([LIT,1],[0]) = {:?} for literal {:?}", other.map(|v| v.as_raw_str().to_string()).map_err(|e| e.to_string()), String::from_utf8_lossy(lit))),
            }
            let items: Vec<String> = sonic_rs::to_array_iter_unchecked(&arr[..]).map(|x| x.map(|v| v.as_raw_str().to_string()).unwrap_or_else(|e| format!("ERR {}", e))).take(5).collect();
            if items.len() != 2 || items[0].as_bytes() != lit || items[1] != "1" {
                ctx.fail("skip-unchecked:to_array_iter_unchecked", format!("items {:?} for literal {:?}", items, String::from_utf8_lossy(lit)));
            }
        }
        let mut obj = vec![b' '; pre];
        obj.extend_from_slice(b"{\"s\":");
        obj.extend_from_slice(lit);
        obj.extend_from_slice(b",\"t\":2}");
        let obj = exact(&obj);
        ctx.ops(2);
        unsafe {
            match sonic_rs::get_unchecked(&obj[..], &["t"]) {
                Ok(v) if v.as_raw_str() == "2" => {}
                other => ctx.fail("skip-unchecked:get_unchecked-object", format!("get_unchecked({{s:LIT,t:2}},[t]) = {:?} for literal {:?}", other.map(|v| v.as_raw_str().to_string()).map_err(|e| e.to_string()), String::from_utf8_lossy(lit))),
            }
            let mut t = sonic_rs::PointerTree::new();
            t.add_path(&["t"]);
            t.add_path(&["s"]);
            match sonic_rs::get_many_unchecked(&obj[..], &t) {
                Ok(v) if v.len() == 2 && v[0].as_ref().map(|x| x.as_raw_str()) == Some("2") && v[1].as_ref().map(|x| x.as_raw_str().as_bytes()) == Some(lit) => {}
                other => ctx.fail("skip-unchecked:get_many_unchecked", format!("{:?} for literal {:?}", other.map(|v| v.iter().map(|x| x.as_ref().map(|y| y.as_raw_str().to_string())).collect::<Vec<_>>()).map_err(|e| e.to_string()), String::from_utf8_lossy(lit))),
            }
        }
    }
    // get with the decoded key must find the member
    if let Some(w) = &strict {
        ctx.ops(1);
        match sonic_rs::get(&keyd[..], &[w.as_str()]) {
            Ok(v) if v.as_raw_str() == "1" => {}
            Ok(v) => ctx.fail("get-by-decoded-key", format!("get returned {:?}", v.as_raw_str())),
            Err(e) => ctx.fail("get-by-decoded-key", format!("get with the decoded key {:?} failed on {:?}: {}", w, String::from_utf8_lossy(&keyd), e)),
        }
    }

    }
    // ---- lossy decoders
    let g = match Deserializer::from_slice(&whole).utf8_lossy().deserialize::<Value>() {
        Ok(v) => match v.as_str() {
            Some(s) => Got::Str(s.to_string(), None),
            None => Got::NoStr,
        },
        Err(e) => es(e),
    };
    verdict(ctx, "Value(in-place)", g, &lossy, true, true);
    let g = match Deserializer::from_slice(&emb).utf8_lossy().deserialize::<Emb>() {
        Ok(v) => match v.v.as_str() {
            Some(s) => Got::Str(s.to_string(), None),
            None => Got::NoStr,
        },
        Err(e) => es(e),
    };
    verdict(ctx, "Value(copy)", g, &lossy, true, true);
    let g = match Deserializer::from_slice(&whole).utf8_lossy().deserialize::<String>() {
        Ok(s) => Got::Str(s, None),
        Err(e) => es(e),
    };
    verdict(ctx, "String", g, &lossy, true, true);
    let g = match Deserializer::from_slice(&keyd).utf8_lossy().deserialize::<HashMap<String, u8>>() {
        Ok(m) => match m.into_iter().next() {
            Some((k, _)) => Got::Str(k, None),
            None => Got::NoStr,
        },
        Err(e) => es(e),
    };
    verdict(ctx, "HashMap key", g, &lossy, true, true);
    if cfg!(feature = "utf8_lossy") {
        // the crate feature makes from_slice lossy
        let g = match sonic_rs::from_slice::<String>(&whole) {
            Ok(s) => Got::Str(s, None),
            Err(e) => es(e),
        };
        verdict(ctx, "feature:String", g, &lossy, true, true);
        let g = match sonic_rs::from_slice::<Value>(&whole) {
            Ok(v) => match v.as_str() {
                Some(s) => Got::Str(s.to_string(), None),
                None => Got::NoStr,
            },
            Err(e) => es(e),
        };
        verdict(ctx, "feature:Value(in-place)", g, &lossy, true, true);
        let g = match sonic_rs::from_slice::<Emb>(&emb) {
            Ok(v) => match v.v.as_str() {
                Some(s) => Got::Str(s.to_string(), None),
                None => Got::NoStr,
            },
            Err(e) => es(e),
        };
        verdict(ctx, "feature:Value(copy)", g, &lossy, true, true);
        let g = match sonic_rs::from_slice::<HashMap<String, u8>>(&keyd) {
            Ok(m) => match m.into_iter().next() {
                Some((k, _)) => Got::Str(k, None),
                None => Got::NoStr,
            },
            Err(e) => es(e),
        };
        verdict(ctx, "feature:HashMap key", g, &lossy, true, true);
    }
}

pub const GRID_CLASSES: &[(&str, &[u8])] = &[
    ("esc-n", b"\\n"),
    ("esc-quote", b"\\\""),
    ("esc-bs", b"\\\\"),
    ("esc-slash", b"\\/"),
    ("esc-u", b"\\u00e9"),
    ("esc-pair", b"\\ud83d\\ude00"),
    ("utf8-2", "é".as_bytes()),
    ("utf8-3", "日".as_bytes()),
    ("utf8-4", "😀".as_bytes()),
    ("plain", b"z"),
    ("bs-run-even", b"\\\\\\\\"),
    ("esc-u-upper", b"\\uD7FF"),
    // malformed
    ("raw-control", b"\x01"),
    ("raw-newline", b"\n"),
    ("bad-escape", b"\\x"),
    ("bad-hex", b"\\u00zz"),
    ("lone-high", b"\\ud800"),
    ("lone-low", b"\\udc00"),
    ("high-then-bmp", b"\\ud800\\u0041"),
    ("bad-utf8", b"\xff"),
    ("trunc-utf8", b"\xe6\x97"),
    ("surrogate-utf8", b"\xed\xa0\x80"),
    ("inner-quote", b"\""),
];


/// A document of several well-formed string literals - plain, escaped, and (for byte input) with
/// bytes that are not UTF-8 - read as `Vec<BCow>` in lossy mode and as typed fields in strict mode.
fn run_multi(ctx: &mut Ctx, seed: u64) {
    let mut r = Rng::new(seed);
    let n = r.range(2, 6);
    let mut lits: Vec<Vec<u8>> = vec![];
    for _ in 0..n {
        let mut t = vec![b'"'];
        let pad = *r.pick(&[0usize, 1, 5, 20, 31, 32, 33, 64, 70]);
        match r.below(5) {
            0 => t.extend(std::iter::repeat(b'c').take(pad + 1)),
            1 => {
                t.extend(std::iter::repeat(b'e').take(pad));
                t.extend_from_slice(r.pick(&["\\n", "\\u00e9", "\\ud83d\\ude00", "\\\"", "\\/"]).as_bytes());
                t.extend_from_slice(b"z");
            }
            2 | 3 => {
                t.extend(std::iter::repeat(b'i').take(pad));
                t.extend_from_slice(*r.pick(&[&b"\xff"[..], b"\x80", b"\xc3", b"\xed\xa0\x80", b"\xf0\x9f"]));
                t.extend_from_slice(b"y");
                if r.chance(1, 3) {
                    t.extend_from_slice(b"\\t");
                }
            }
            _ => t.extend_from_slice("héllo 日本".as_bytes()),
        }
        t.push(b'"');
        lits.push(t);
    }
    let mut doc = vec![b'['];
    for (i, l) in lits.iter().enumerate() {
        if i > 0 {
            doc.extend_from_slice(if r.chance(1, 2) { b", " } else { b"," });
        }
        doc.extend_from_slice(l);
    }
    doc.push(b']');
    let doc = exact(&doc);
    let all_utf8 = std::str::from_utf8(&doc).is_ok();
    ctx.class(if all_utf8 { "multi:utf8" } else { "multi:with-invalid-utf8" });
    ctx.ops(1);
    // lossy mode: every literal decodes to its lossy reference; a literal without escape that is
    // valid UTF-8 is borrowed from the input, everything else is copied
    match Deserializer::from_slice(&doc).utf8_lossy().deserialize::<Vec<BCow>>() {
        Ok(v) => {
            if v.len() != lits.len() {
                ctx.fail("multi:length", format!("{} items for {} literals", v.len(), lits.len()));
                return;
            }
            for (i, (BCow(c), l)) in v.iter().zip(&lits).enumerate() {
                let body = &l[1..l.len() - 1];
                let want = decode_lossy(body);
                if want.as_deref() != Some(c.as_ref()) {
                    ctx.fail("multi:decode-differs:lossy", format!("literal #{} {:?} decoded as {:?}, reference {:?}; document {:?}", i, String::from_utf8_lossy(l), c, want, String::from_utf8_lossy(&doc)));
                    return;
                }
                let clean = !body.contains(&b'\\') && std::str::from_utf8(body).is_ok();
                let borrowed = matches!(c, Cow::Borrowed(_));
                if borrowed != clean && !c.is_empty() {
                    ctx.fail("multi:borrow-differs:lossy", format!("literal #{} {:?} is {} but came back {}; document {:?}", i, String::from_utf8_lossy(l), if clean { "escape-free valid UTF-8" } else { "escaped or not UTF-8" }, if borrowed { "borrowed" } else { "owned" }, String::from_utf8_lossy(&doc)));
                    return;
                }
                if borrowed && !within(&doc, c) {
                    ctx.fail("multi:borrowed-outside-input", format!("literal #{}", i));
                }
            }
        }
        Err(e) => ctx.fail("multi:reject-wellformed:lossy", format!("{:?}: {}", String::from_utf8_lossy(&doc), e)),
    }
    if cfg!(feature = "utf8_lossy") {
        // in that build from_slice itself is lossy
        return;
    }
    // strict mode: the document is accepted as strings iff it is UTF-8; as byte buffers always;
    // as lazy values iff UTF-8; mixed targets follow their own element kinds
    ctx.ops(3);
    let as_strings = sonic_rs::from_slice::<Vec<BCow>>(&doc);
    match (&as_strings, all_utf8) {
        (Ok(v), true) => {
            for (i, (BCow(c), l)) in v.iter().zip(&lits).enumerate() {
                let body = &l[1..l.len() - 1];
                if decode_strict(body).as_deref() != Some(c.as_ref()) || matches!(c, Cow::Borrowed(_)) == body.contains(&b'\\') && !c.is_empty() {
                    ctx.fail("multi:decode-or-borrow-differs:strict", format!("literal #{} {:?} -> {:?}; document {:?}", i, String::from_utf8_lossy(l), c, String::from_utf8_lossy(&doc)));
                    return;
                }
            }
        }
        (Err(_), false) => {}
        (Ok(_), false) => ctx.fail("multi:accept-invalid-utf8:strict", format!("{:?}", String::from_utf8_lossy(&doc))),
        (Err(e), true) => ctx.fail("multi:reject-wellformed:strict", format!("{:?}: {}", String::from_utf8_lossy(&doc), e)),
    }
    match sonic_rs::from_slice::<Vec<serde_bytes::ByteBuf>>(&doc) {
        Ok(v) => {
            for (i, (b, l)) in v.iter().zip(&lits).enumerate() {
                if crate::mon::c04::bytes_model(l).as_deref() != Some(&b[..]) {
                    ctx.fail("multi:bytes-differ", format!("literal #{} {:?} read as bytes {:?}", i, String::from_utf8_lossy(l), b));
                    return;
                }
            }
        }
        Err(e) => ctx.fail("multi:reject-as-bytes", format!("{:?}: {}", String::from_utf8_lossy(&doc), e)),
    }
    // alternating element kinds: bytes, string, bytes, ... - a string element is rejected only
    // for what is in it
    if lits.len() >= 3 {
        let d3 = {
            let mut d = vec![b'['];
            d.extend_from_slice(&lits[0]);
            d.push(b',');
            d.extend_from_slice(&lits[1]);
            d.push(b',');
            d.extend_from_slice(&lits[2]);
            d.push(b']');
            exact(&d)
        };
        let r3 = sonic_rs::from_slice::<(serde_bytes::ByteBuf, BCow, serde_bytes::ByteBuf)>(&d3);
        let mid_ok = std::str::from_utf8(&lits[1]).is_ok();
        match (r3, mid_ok) {
            (Ok((a, BCow(m), b)), true) => {
                if crate::mon::c04::bytes_model(&lits[0]).as_deref() != Some(&a[..]) || crate::mon::c04::bytes_model(&lits[2]).as_deref() != Some(&b[..]) || decode_strict(&lits[1][1..lits[1].len() - 1]).as_deref() != Some(m.as_ref()) {
                    ctx.fail("multi:mixed-differs", format!("(bytes, str, bytes) of {:?}", String::from_utf8_lossy(&doc)));
                }
            }
            (Err(e), true) => ctx.fail("multi:mixed-reject-wellformed", format!("(bytes, str, bytes) of {:?}: {}", String::from_utf8_lossy(&doc), e)),
            (Ok(_), false) => ctx.fail("multi:mixed-accept-invalid-str", format!("{:?}", String::from_utf8_lossy(&doc))),
            (Err(_), false) => {}
        }
        ctx.class("multi:mixed-kinds");
    }
}

fn grid_literal(class: usize, pos: usize, len: usize) -> Vec<u8> {
    let (_, seq) = GRID_CLASSES[class % GRID_CLASSES.len()];
    let mut lit = Vec::with_capacity(len + seq.len() + 2);
    lit.push(b'"');
    for i in 0..len {
        if i == pos {
            lit.extend_from_slice(seq);
        } else {
            lit.push(b'a' + (i % 26) as u8);
        }
    }
    if pos >= len {
        lit.extend_from_slice(seq);
    }
    lit.push(b'"');
    lit
}

impl Check for C09 {
    fn id(&self) -> &'static str {
        "C09"
    }
    fn generate(&self, g: &GenParams, emit: &mut dyn FnMut(Case)) {
        // (a) all code points through escapes, 512 per case
        let step = 512i64;
        let mut idx = 0u64;
        let mut cp = 0i64;
        while cp < 0x110000 {
            if g.mine(idx) && (g.scale >= 0.5 || idx % 8 == 0) {
                emit(Case::with("cps", vec![], &[cp, step]));
            }
            cp += step;
            idx += 1;
        }
        // unpaired surrogates individually
        let mut s = 0xD800i64;
        while s < 0xE000 {
            if g.mine(idx) {
                emit(Case::with("surrogates", vec![], &[s, 64]));
            }
            s += 64;
            idx += 1;
        }
        // the nine simple escapes and friends
        if g.shard == 0 {
            for e in ["\\\"", "\\\\", "\\/", "\\b", "\\f", "\\n", "\\r", "\\t", "\\u0000", "\\u001F", "\\u007f", "\\uFFFF", "\\ufffe", "\\uD7FF", "\\uE000"] {
                for ctxs in ["{}", "a{}", "{}b", "a{}b"] {
                    let lit = format!("\"{}\"", ctxs.replace("{}", e));
                    emit(Case::with("lit", lit.into_bytes(), &[0, 0]));
                }
            }
        }
        // (b) the position x length x offset grid (stratified sample; thorough = much denser)
        let mut r = g.rng(9);
        let n = g.count(300_000, 20_000_000);
        for _ in 0..n {
            let class = r.below(GRID_CLASSES.len() as u64) as i64;
            let len = match r.below(4) {
                0 => r.range(0, 40),
                1 => *r.pick(&[15usize, 16, 17, 31, 32, 33, 63, 64, 65, 127, 128, 129]),
                _ => r.range(0, 200),
            };
            let pos = if len == 0 { 0 } else if r.chance(1, 3) { *r.pick(&[0, len - 1, len / 2, len.saturating_sub(2), len.saturating_sub(16), len.saturating_sub(32)]) } else { r.range(0, len.min(130)) };
            let off = r.range(0, 64);
            let post = if r.chance(1, 2) { 0 } else { r.range(0, 70) };
            emit(Case::with("grid", vec![], &[class, pos as i64, len as i64, off as i64, post as i64]));
        }
        // (b2) the same grid for literals of 200..2100 bytes: one special sequence at EVERY position
        // of the literal for the malformed classes (every 5th position, rotating, for the others),
        // so that whatever a decoder does per 64/128/256/512/1024-byte window is met at every
        // phase of the window
        {
            let lens: &[usize] = if g.tier == Tier::Quick { &[255, 256, 257, 520, 1030] } else { &[200, 255, 256, 257, 300, 511, 512, 513, 700, 1023, 1024, 1025, 1500, 2050, 2100] };
            let mut idx = 0u64;
            for (li, len) in lens.iter().enumerate() {
                for class in 0..GRID_CLASSES.len() {
                    let malformed = class >= 12;
                    for pos in 0..*len {
                        if !malformed && (pos + class + li) % 5 != 0 {
                            continue;
                        }
                        idx += 1;
                        if g.mine(idx) && (g.scale >= 0.5 || idx % 8 < 2) {
                            emit(Case::with("grid", vec![], &[class as i64, pos as i64, *len as i64, ((pos + li) % 64) as i64, ((pos * 7) % 70) as i64]));
                        }
                    }
                }
            }
        }
        // (c) random literal texts with mutations
        let n = g.count(20_000, 600_000);
        for _ in 0..n {
            let t = crate::gen::dynval::rand_text(&mut r);
            let mut gen = crate::gen::doc::Gen::new(&mut r, crate::gen::doc::DocOpts::default());
            gen.write_string(&t);
            let mut lit = gen.out;
            if r.chance(1, 3) && lit.len() > 2 {
                let i = r.range(1, lit.len() - 2);
                let ins: &[u8] = *r.pick(&[b"\\u12" as &[u8], b"\\x", b"\xff", b"\x00", b"\\ud800", b"\"", b"\\udc00\\ud800", b"\\"]);
                for (k, c) in ins.iter().enumerate() {
                    lit.insert(i + k, *c);
                }
            }
            emit(Case::with("lit", lit, &[r.range(0, 64) as i64, r.range(0, 8) as i64]));
        }
        // literals longer than 64 KiB (block-wise UTF-8 validation, long copies): a multi-byte
        // character at every offset around the 64 KiB / 128 KiB marks
        {
            let mut idx = 0u64;
            for mark in [65536usize, 131072] {
                for delta in -6i64..=6 {
                    for width in [2usize, 3, 4] {
                        idx += 1;
                        if g.mine(idx) && (g.tier == Tier::Thorough || (delta + width as i64) % 3 == 0) {
                            emit(Case::with("long", vec![], &[(mark as i64 + delta), width as i64, r.next() as i64 & 0xff]));
                        }
                    }
                }
            }
        }
        // several literals in one document: the decoder's bookkeeping (UTF-8 cursor, scratch
        // buffer, escape carry) must not leak from one literal into the next
        let n = g.count(20_000, 1_500_000);
        for _ in 0..n {
            emit(Case::with("multi", vec![], &[r.next() as i64]));
        }
    }
    fn exec(&self, ctx: &mut Ctx, c: &Case) {
        match c.entry.as_str() {
            "long" => {
                // the character's first byte sits at offset `at` of the INPUT (the opening quote is
                // offset `lead`)
                let (at, width, lead) = (c.p(0) as usize, c.p(1) as usize, (c.p(2) as usize) % 40);
                let ch: &str = match width {
                    2 => "\u{e9}",
                    3 => "\u{65e5}",
                    _ => "\u{1f600}",
                };
                let mut lit = vec![b'"'];
                let body_before = at.saturating_sub(lead + 1);
                lit.extend(std::iter::repeat(b'a').take(body_before));
                lit.extend_from_slice(ch.as_bytes());
                lit.extend(std::iter::repeat(b'b').take(70_000usize.saturating_sub(body_before)));
                lit.extend_from_slice(ch.as_bytes());
                lit.push(b'"');
                run_decoders(ctx, &lit, lead, 3, "long");
                ctx.class("literal:longer-than-64KiB");
                ctx.nontrivial();
                ctx.sample("long");
            }
            "multi" => {
                run_multi(ctx, c.p(0) as u64);
                ctx.nontrivial();
                ctx.sample("multi");
            }
            "cps" => {
                // an array of literals, each a single escaped code point (pairs for astral)
                let (start, n) = (c.p(0) as u32, c.p(1) as u32);
                let mut doc = Vec::with_capacity(n as usize * 16);
                let mut want: Vec<String> = vec![];
                doc.push(b'[');
                let mut rr = Rng::new(start as u64 + 17);
                for cp in start..start + n {
                    let Some(ch) = char::from_u32(cp) else { continue };
                    if !want.is_empty() {
                        doc.push(b',');
                    }
                    doc.push(b'"');
                    let mut buf = [0u16; 2];
                    let pre = rr.chance(1, 2);
                    if pre {
                        doc.push(b'p');
                    }
                    for u in ch.encode_utf16(&mut buf) {
                        let s = if rr.chance(1, 2) { format!("\\u{:04x}", u) } else { format!("\\u{:04X}", u) };
                        doc.extend_from_slice(s.as_bytes());
                    }
                    doc.push(b'"');
                    want.push(if pre { format!("p{}", ch) } else { ch.to_string() });
                }
                doc.push(b']');
                let doc = exact(&doc);
                ctx.class("codepoints:batch");
                ctx.class_n("codepoints:count", want.len() as u64);
                ctx.nontrivial();
                let cmp = |ctx: &mut Ctx, dec: &str, got: Result<Vec<String>, String>| {
                    ctx.ops(1);
                    match got {
                        Ok(v) => {
                            if v.len() != want.len() {
                                ctx.fail(&format!("decode-differs:{}:codepoints", dec), format!("{} items vs {}", v.len(), want.len()));
                                return;
                            }
                            for (i, (a, b)) in v.iter().zip(want.iter()).enumerate() {
                                if a != b {
                                    ctx.fail(&format!("decode-differs:{}:codepoints", dec), format!("code point U+{:04X}: {:?} vs {:?}", start as usize + i, a, b));
                                    return;
                                }
                            }
                        }
                        Err(e) => ctx.fail(&format!("reject-wellformed:{}:codepoints", dec), format!("batch from U+{:04X}: {}", start, e)),
                    }
                };
                if !want.is_empty() {
                    cmp(ctx, "Vec<String>", sonic_rs::from_slice::<Vec<String>>(&doc).map_err(|e| e.to_string()));
                    cmp(ctx, "Value(in-place)", sonic_rs::from_slice::<Value>(&doc).map_err(|e| e.to_string()).map(|v| v.as_array().map(|a| a.iter().map(|x| x.as_str().unwrap_or("<not a string>").to_string()).collect()).unwrap_or_default()));
                    cmp(ctx, "Vec<Value>(copy)", sonic_rs::from_slice::<Vec<Value>>(&doc).map_err(|e| e.to_string()).map(|v| v.iter().map(|x| x.as_str().unwrap_or("<not a string>").to_string()).collect()));
                    cmp(ctx, "Vec<Cow>", sonic_rs::from_slice::<Vec<Cow<str>>>(&doc).map_err(|e| e.to_string()).map(|v| v.iter().map(|x| x.to_string()).collect()));
                    cmp(ctx, "lossy Vec<String>", Deserializer::from_slice(&doc).utf8_lossy().deserialize::<Vec<String>>().map_err(|e| e.to_string()));
                    let mut lz = vec![];
                    for it in sonic_rs::to_array_iter(&doc[..]) {
                        match it {
                            Ok(l) => lz.push(l.as_str().unwrap_or("<none>").to_string()),
                            Err(e) => {
                                lz.clear();
                                lz.push(e.to_string());
                                break;
                            }
                        }
                    }
                    cmp(ctx, "LazyValue::as_str", Ok(lz));
                }
                ctx.sample("codepoints");
            }
            "surrogates" => {
                for s in c.p(0)..c.p(0) + c.p(1) {
                    for form in 0..3 {
                        let lit = match form {
                            0 => format!("\"\\u{:04x}\"", s),
                            1 => format!("\"ab\\u{:04X}cd\"", s),
                            _ => format!("\"\\u{:04x}\\u{:04x}\"", s, if s < 0xDC00 { 0x41 } else { 0xD800 }),
                        };
                        ctx.class("literal:unpaired-surrogate");
                        run_decoders(ctx, lit.as_bytes(), (s % 5) as usize, 0, "unpaired surrogate");
                    }
                }
                ctx.nontrivial();
                ctx.sample("surrogates");
            }
            "grid" => {
                let (class, pos, len, off, post) = (c.p(0) as usize, c.p(1) as usize, c.p(2) as usize, c.p(3) as usize, c.p(4) as usize);
                let lit = grid_literal(class, pos, len);
                let name = GRID_CLASSES[class % GRID_CLASSES.len()].0;
                ctx.class(&format!("grid:{}", name));
                ctx.class(&format!("grid:start-offset%64={}", off % 64));
                if len >= 32 {
                    ctx.class("grid:len>=32");
                }
                ctx.nontrivial();
                run_decoders(ctx, &lit, off, post, name);
                ctx.sample(name);
            }
            _ => {
                ctx.nontrivial();
                run_decoders(ctx, &c.input, c.p(0) as usize, c.p(1) as usize, "literal");
                ctx.sample("literal");
            }
        }
    }
    fn required_classes(&self, _b: &str, _t: Tier) -> Vec<&'static str> {
        vec!["codepoints:batch", "literal:unpaired-surrogate", "literal:well-formed", "literal:malformed", "literal:escaped", "grid:len>=32", "grid:esc-pair", "grid:bad-utf8", "multi:with-invalid-utf8", "multi:utf8", "literal:longer-than-64KiB"]
    }
}
