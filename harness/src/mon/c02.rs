//! C02 — validating entry points accept exactly the well-formed JSON texts.
use bytes::Bytes;
use faststr::FastStr;
use serde::de::IgnoredAny;
use serde::Deserialize;
use sonic_rs::{Deserializer, LazyValue, OwnedLazyValue, Value};

use crate::core::{Case, Check, Ctx, GenParams, Tier};
use crate::gen::{doc, mutate, tokens};
use crate::mon::common::exact;
use crate::refmodel::recog::{self, Doc, K};

pub struct C02;

#[derive(Deserialize)]
#[allow(dead_code)]
struct WrapV {
    v: Value,
}

#[derive(Deserialize, Default)]
#[allow(dead_code)]
struct Unknown {
    #[serde(default)]
    a: Option<u8>,
}

#[derive(Clone, Copy, PartialEq, Debug)]
enum Class {
    Full,
    Skip,
}

/// what the recogniser says about `b` as a whole document
pub struct Verdict {
    pub doc: Option<Doc>,
    pub utf8: bool,
    pub too_deep: bool,
}

pub fn judge(b: &[u8]) -> Verdict {
    let utf8 = std::str::from_utf8(b).is_ok();
    match recog::parse_document(b) {
        Ok(d) => Verdict { too_deep: d.flags.max_depth > 64, doc: Some(d), utf8 },
        Err(e) => Verdict { doc: None, utf8, too_deep: e.kind == recog::ErrKind::TooDeep },
    }
}

impl Verdict {
    fn ok(&self, c: Class) -> bool {
        match &self.doc {
            Some(d) => match c {
                Class::Full => d.full_ok(),
                Class::Skip => d.skip_ok(),
            },
            None => false,
        }
    }
    fn cause(&self, c: Class) -> &'static str {
        match &self.doc {
            None => {
                if !self.utf8 {
                    "grammar+not-utf8"
                } else {
                    "grammar"
                }
            }
            Some(d) => {
                if !d.utf8 {
                    "not-utf8"
                } else if c == Class::Full && !d.flags.escapes_ok {
                    "escape-not-scalar"
                } else if c == Class::Full && !d.flags.numbers_finite {
                    "number-not-finite"
                } else {
                    "valid"
                }
            }
        }
    }
}

fn expect(ctx: &mut Ctx, entry: &str, class: Class, v: &Verdict, got_ok: bool, detail: &dyn Fn() -> String) {
    ctx.ops(1);
    let want = v.ok(class);
    if want == got_ok {
        return;
    }
    if got_ok {
        ctx.fail(
            &format!("accept-invalid:{}:{}", entry, v.cause(class)),
            format!("{} accepted a text the recogniser rejects ({}) {}", entry, v.cause(class), detail()),
        );
    } else {
        ctx.fail(
            &format!("reject-valid:{}", entry),
            format!("{} rejected a well-formed text: {}", entry, detail()),
        );
    }
}

fn e2s<T>(r: &Result<T, sonic_rs::Error>) -> String {
    match r {
        Ok(_) => "Ok".into(),
        Err(e) => format!("Err({})", crate::mon::common::err_brief(e)),
    }
}

pub fn check_text(ctx: &mut Ctx, b: &[u8]) {
    let v = judge(b);
    if v.too_deep {
        ctx.class("skipped:too-deep");
        return;
    }
    let full = v.ok(Class::Full);
    let skip = v.ok(Class::Skip);
    ctx.class(if full {
        "text:valid-full"
    } else if skip {
        "text:valid-skip-only"
    } else if v.utf8 {
        "text:invalid-grammar"
    } else {
        "text:invalid-utf8"
    });
    if b.len() > 32 {
        ctx.nontrivial();
    } else if v.doc.is_some() || b.len() > 2 {
        ctx.nontrivial();
    }
    let ex = exact(b);
    let s = std::str::from_utf8(&ex).ok();

    // ---- FULL: DOM value
    let r = sonic_rs::from_slice::<Value>(&ex);
    expect(ctx, "from_slice<Value>", Class::Full, &v, r.is_ok(), &|| e2s(&r));
    if let Some(s) = s {
        let r = sonic_rs::from_str::<Value>(s);
        expect(ctx, "from_str<Value>", Class::Full, &v, r.is_ok(), &|| e2s(&r));
    }
    let r = sonic_rs::from_reader::<_, Value>(&ex[..]);
    expect(ctx, "from_reader<Value>", Class::Full, &v, r.is_ok(), &|| e2s(&r));
    // readers that answer with short reads (pipes, sockets, Chain): the whole input counts
    {
        use std::io::Read as _;
        let chunk = 1 + (b.len() % 7);
        let r = sonic_rs::from_reader::<_, Value>(crate::mon::common::ChunkReader { data: &ex[..], chunk });
        expect(ctx, "from_reader(short reads)<Value>", Class::Full, &v, r.is_ok(), &|| e2s(&r));
        let mid = ex.len() / 2;
        let r = sonic_rs::from_reader::<_, Value>((&ex[..mid]).chain(&ex[mid..]));
        expect(ctx, "from_reader(Chain)<Value>", Class::Full, &v, r.is_ok(), &|| e2s(&r));
        let r = sonic_rs::from_reader::<_, sonic_rs::OwnedLazyValue>(crate::mon::common::ChunkReader { data: &ex[..], chunk: 4096 + chunk });
        expect(ctx, "from_reader(short reads)<OwnedLazyValue>", Class::Skip, &v, r.is_ok(), &|| e2s(&r));
    }

    // ---- FULL: serde_json::Value through sonic's deserializer (any-typed visitor)
    let r = sonic_rs::from_slice::<serde_json::Value>(&ex);
    expect(ctx, "from_slice<serde_json::Value>", Class::Full, &v, r.is_ok(), &|| e2s(&r));
    if let Some(s) = s {
        let r = sonic_rs::from_str::<serde_json::Value>(s);
        expect(ctx, "from_str<serde_json::Value>", Class::Full, &v, r.is_ok(), &|| e2s(&r));
    }

    // ---- scalars when the kind matches
    if let Some(d) = &v.doc {
        match &d.root.k {
            K::Str { .. } => {
                let r = sonic_rs::from_slice::<String>(&ex);
                expect(ctx, "from_slice<String>", Class::Full, &v, r.is_ok(), &|| e2s(&r));
                if let Some(s) = s {
                    let r = sonic_rs::from_str::<String>(s);
                    expect(ctx, "from_str<String>", Class::Full, &v, r.is_ok(), &|| e2s(&r));
                }
            }
            K::Num(_) => {
                let r = sonic_rs::from_slice::<f64>(&ex);
                expect(ctx, "from_slice<f64>", Class::Full, &v, r.is_ok(), &|| e2s(&r));
            }
            _ => {}
        }
    } else {
        // invalid text must be rejected by scalar targets too
        let r = sonic_rs::from_slice::<String>(&ex);
        if r.is_ok() {
            expect(ctx, "from_slice<String>", Class::Full, &v, true, &|| e2s(&r));
        }
        let r = sonic_rs::from_slice::<f64>(&ex);
        if r.is_ok() {
            expect(ctx, "from_slice<f64>", Class::Full, &v, true, &|| e2s(&r));
        }
    }

    // ---- SKIP class
    let r = sonic_rs::from_slice::<LazyValue>(&ex);
    expect(ctx, "from_slice<LazyValue>", Class::Skip, &v, r.is_ok(), &|| e2s(&r));
    if let Some(s) = s {
        let r = sonic_rs::from_str::<LazyValue>(s);
        expect(ctx, "from_str<LazyValue>", Class::Skip, &v, r.is_ok(), &|| e2s(&r));
    }
    let r = sonic_rs::from_slice::<OwnedLazyValue>(&ex);
    expect(ctx, "from_slice<OwnedLazyValue>", Class::Skip, &v, r.is_ok(), &|| e2s(&r));
    let r = sonic_rs::from_slice::<IgnoredAny>(&ex);
    expect(ctx, "from_slice<IgnoredAny>", Class::Skip, &v, r.is_ok(), &|| e2s(&r));
    if let Some(s) = s {
        let r = sonic_rs::from_str::<IgnoredAny>(s);
        expect(ctx, "from_str<IgnoredAny>", Class::Skip, &v, r.is_ok(), &|| e2s(&r));
    }

    // ---- embedded: {"v":DOC}
    let mut w = Vec::with_capacity(b.len() + 8);
    w.extend_from_slice(b"{\"v\":");
    w.extend_from_slice(b);
    w.push(b'}');
    let wv = judge(&w);
    let w = exact(&w);
    if !wv.too_deep {
        let r = sonic_rs::from_slice::<WrapV>(&w);
        ctx.ops(1);
        if full && r.is_err() {
            ctx.fail("reject-valid:embedded<Value>", format!("struct{{v:Value}} rejected valid DOC: {}", e2s(&r)));
        } else if !wv.ok(Class::Skip) && r.is_ok() {
            ctx.fail(
                &format!("accept-invalid:embedded<Value>:{}", wv.cause(Class::Skip)),
                "struct{v:Value} accepted a wrapper text that is not well-formed".into(),
            );
        }
        let r = sonic_rs::from_slice::<Unknown>(&w);
        ctx.ops(1);
        if skip && r.is_err() {
            ctx.fail("reject-valid:unknown-field", format!("unknown field skipping rejected valid DOC: {}", e2s(&r)));
        } else if !wv.ok(Class::Skip) && r.is_ok() {
            ctx.fail(
                &format!("accept-invalid:unknown-field:{}", wv.cause(Class::Skip)),
                "unknown field skipping accepted a wrapper text that is not well-formed".into(),
            );
        }
    }

    // ---- Deserializer::from_json over Bytes / FastStr: judged on the first value only
    let pre = recog::parse_prefix(b, 0);
    let by = Bytes::copy_from_slice(b);
    let r = Deserializer::from_json(&by).deserialize::<Value>();
    prefix_expect(ctx, "from_json(&Bytes)<Value>", Class::Full, &pre, b, r.is_ok(), &|| e2s(&r));
    let r = Deserializer::from_json(&by).deserialize::<LazyValue>();
    prefix_expect(ctx, "from_json(&Bytes)<LazyValue>", Class::Skip, &pre, b, r.is_ok(), &|| e2s(&r));
    if let Some(s) = s {
        let fs = FastStr::new(s);
        let r = Deserializer::from_json(&fs).deserialize::<Value>();
        prefix_expect(ctx, "from_json(&FastStr)<Value>", Class::Full, &pre, b, r.is_ok(), &|| e2s(&r));
        let r = Deserializer::from_json(&fs).deserialize::<OwnedLazyValue>();
        prefix_expect(ctx, "from_json(&FastStr)<OwnedLazyValue>", Class::Skip, &pre, b, r.is_ok(), &|| e2s(&r));
    }
}

/// `Deserializer::deserialize` does not look at what follows the value: a well-formed first value
/// must be accepted; a first value that is itself malformed must be rejected.
fn prefix_expect(
    ctx: &mut Ctx,
    entry: &str,
    class: Class,
    pre: &Result<Doc, recog::RErr>,
    b: &[u8],
    got_ok: bool,
    detail: &dyn Fn() -> String,
) {
    ctx.ops(1);
    match pre {
        Ok(d) => {
            if d.flags.max_depth > 64 {
                return;
            }
            let ok = match class {
                Class::Full => d.full_ok(),
                Class::Skip => d.skip_ok(),
            };
            // must-accept only when the value is followed by a delimiter (`01` is one token to a
            // number scanner, and the property does not say how undelimited junk is split)
            let delimited = match b.get(d.end) {
                None => true,
                Some(c) => recog::is_ws(*c) || matches!(c, b',' | b']' | b'}'),
            };
            if ok && !got_ok && delimited {
                ctx.fail(&format!("reject-valid:{}", entry), format!("{} rejected a well-formed first value: {}", entry, detail()));
            } else if !ok && got_ok {
                let cause = if !d.utf8 {
                    "not-utf8"
                } else if !d.flags.escapes_ok {
                    "escape-not-scalar"
                } else {
                    "number-not-finite"
                };
                ctx.fail(&format!("accept-invalid:{}:{}", entry, cause), format!("{} accepted a malformed first value ({})", entry, cause));
            }
        }
        Err(e) => {
            if e.kind == recog::ErrKind::TooDeep {
                return;
            }
            if got_ok {
                ctx.fail(&format!("accept-invalid:{}:grammar", entry), format!("{} accepted although the first value is malformed at byte {}", entry, e.at));
            }
        }
    }
}

impl Check for C02 {
    fn id(&self) -> &'static str {
        "C02"
    }
    fn generate(&self, g: &GenParams, emit: &mut dyn FnMut(Case)) {
        // (1) all token sequences up to a bound
        let max_len = if g.tier == Tier::Quick { 5 } else { 6 };
        let max_len = if g.scale < 0.5 { max_len - 1 } else { max_len };
        let total = tokens::count(max_len);
        let mut buf = Vec::new();
        let mut i = g.shard;
        while i < total {
            tokens::nth(i, &mut buf);
            emit(Case::new("tok", buf.clone()));
            i += g.nshards;
        }
        // (1b) number-shaped tokens: every digit count 1..140 x every tail, bare and inside
        // containers (the `.`/`e` visits every lane of the block-wise number skipper)
        let mut idx = 0u64;
        for n in 1..=140usize {
            for tail in 0..crate::gen::numlit::SHAPE_TAILS.len() {
                idx += 1;
                if !g.mine(idx) {
                    continue;
                }
                for (neg, frac) in [(false, 0usize), (true, 0), (false, (n * 7) % 40)] {
                    let t = crate::gen::numlit::number_shape(n, tail, neg, frac);
                    emit(Case::new("numshape", t.clone().into_bytes()));
                    emit(Case::new("numshape", format!("[{}]", t).into_bytes()));
                    emit(Case::new("numshape", format!("{{\"k\":[0, {} ],\"z\":{}}}", t, t).into_bytes()));
                }
            }
        }
        // (1b) numbers at the edge of the f64 range and other hostile literals ("every number is
        // finite as f64"), bare and inside containers
        {
            let mut r = g.rng(202);
            let n = g.count(40_000, 4_000_000);
            for k in 0..n {
                let t = if k % 2 == 0 { crate::gen::numlit::overflow_boundary(&mut r) } else { crate::gen::numlit::hostile(&mut r) };
                let text = match k % 3 {
                    0 => t,
                    1 => format!("[{}]", t),
                    _ => format!("{{\"a\":[1,{}],\"b\":{}}}", t, t),
                };
                emit(Case::new("numrange", text.into_bytes()));
            }
        }
        // (1c) very wide containers (more direct children than the thread-local node buffer holds)
        for (k, n) in [200_000usize, 420_000].iter().enumerate() {
            if g.mine(7000 + k as u64) && (g.scale >= 0.5 || k == 0) {
                let mut t = Vec::with_capacity(n * 2 + 2);
                t.push(b'[');
                for i in 0..*n {
                    if i > 0 {
                        t.push(b',');
                    }
                    t.push(b'0' + (i % 10) as u8);
                }
                t.push(b']');
                emit(Case::new("wide", t));
            }
        }
        // (1d) documents of a few MiB with multi-byte characters across every multiple of 256 KiB,
        // well-formed and with one ill-formed sequence there
        for j in 0..crate::gen::bigutf8::VARIANTS {
            if g.mine(7100 + j as u64) && (g.scale >= 0.5 || j % 8 == 0) {
                emit(Case::with("big-utf8", vec![], &[j as i64]));
            }
        }
        // (2) generated documents and mutations
        let mut r = g.rng(2);
        let n = g.count(120_000, 10_000_000);
        for k in 0..n {
            let d = doc::gen_any(&mut r);
            if k % 4 == 0 {
                emit(Case::new("doc", d));
            } else {
                let (m, _) = mutate::mutate(&mut r, &d);
                let m = if r.chance(1, 5) { mutate::mutate(&mut r, &m).0 } else { m };
                emit(Case::new("mut", m));
            }
        }
    }
    fn exec(&self, ctx: &mut Ctx, c: &Case) {
        if c.entry == "big-utf8" {
            let (d, valid) = crate::gen::bigutf8::make(c.p(0) as usize);
            check_text(ctx, &d);
            ctx.class(if valid { "gen:big-utf8-valid" } else { "gen:big-utf8-invalid" });
            ctx.sample("big-utf8");
            return;
        }
        check_text(ctx, &c.input);
        match c.entry.as_str() {
            "tok" => ctx.sample("token-sequence"),
            "doc" => ctx.sample("generated-document"),
            "wide" => {
                ctx.class("gen:wide-container");
                ctx.sample("wide")
            }
            "numrange" => {
                ctx.class("gen:number-range");
                ctx.sample("number-range")
            }
            "numshape" => ctx.sample("number-shape"),
            _ => ctx.sample("mutated-document"),
        }
    }
    fn required_classes(&self, _b: &str, _t: Tier) -> Vec<&'static str> {
        vec!["text:valid-full", "text:valid-skip-only", "text:invalid-grammar", "text:invalid-utf8", "gen:number-range", "gen:big-utf8-valid", "gen:big-utf8-invalid"]
    }
}
