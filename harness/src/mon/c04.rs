//! C04 — typed deserialisation agrees with serde_json on result and on accept/reject.
use std::borrow::Cow;
use std::collections::{BTreeMap, HashMap};
use std::fmt::Debug;

use serde::{Deserialize, Serialize};

use crate::core::{Case, Check, Ctx, GenParams, Tier};
use crate::gen::{doc, mutate, numlit};
use crate::rng::Rng;

pub struct C04;

// ---- the type family --------------------------------------------------------------------------

/// floats compared by bits
#[derive(Deserialize, Serialize, Debug, Clone, Copy)]
#[serde(transparent)]
pub struct F64(pub f64);
impl PartialEq for F64 {
    fn eq(&self, o: &Self) -> bool {
        self.0.to_bits() == o.0.to_bits()
    }
}
#[derive(Deserialize, Serialize, Debug, Clone, Copy)]
#[serde(transparent)]
pub struct F32(pub f32);
impl PartialEq for F32 {
    fn eq(&self, o: &Self) -> bool {
        self.0.to_bits() == o.0.to_bits()
    }
}

#[derive(Deserialize, Serialize, Debug, PartialEq, Clone)]
pub struct Unit;

#[derive(Deserialize, Serialize, Debug, PartialEq, Clone)]
pub struct Newtype(i32);

#[derive(Deserialize, Serialize, Debug, PartialEq, Clone)]
pub struct Pair(i32, String);

#[derive(Deserialize, Serialize, Debug, PartialEq, Eq, Hash, PartialOrd, Ord, Clone)]
pub enum Fieldless {
    A,
    B,
    #[serde(rename = "c d")]
    C,
}

#[derive(Deserialize, Serialize, Debug, PartialEq, Clone)]
pub enum Shapes {
    Unit,
    Newtype(i16),
    Tuple(u8, String),
    Struct { a: i32, b: Option<String> },
}

/// variants whose payload serialises to null / an empty or nested container
#[derive(Deserialize, Serialize, Debug, PartialEq, Clone)]
pub enum Payloads {
    Maybe(Option<i32>),
    Nothing(()),
    Tagged(Unit),
    Seq(Vec<u8>),
    Map(BTreeMap<String, u8>),
    Inner(Fieldless),
    Deep(Box<Shapes>),
    Empty(),
    EmptyS {},
    Opt { o: Option<Option<u8>>, u: () },
}

#[derive(Deserialize, Serialize, Debug, PartialEq, Clone)]
pub struct Wrappers {
    u: Unit,
    n: Newtype,
    p: Pair,
    o: Option<Unit>,
    e: Vec<Payloads>,
    k: BTreeMap<Fieldless, Option<Newtype>>,
}

/// borrowed strings that serde routes through `deserialize_any` and its `Content` buffer
#[derive(Deserialize, Serialize, Debug, PartialEq, Clone)]
#[serde(untagged)]
pub enum UntaggedBorrow<'a> {
    N(i64),
    S(&'a str),
    P { #[serde(borrow)] p: Cow<'a, str> },
}

#[derive(Deserialize, Serialize, Debug, PartialEq, Clone)]
#[serde(tag = "t")]
pub enum TaggedBorrow<'a> {
    A {
        #[serde(borrow)]
        s: &'a str,
    },
    B {
        n: u8,
    },
}

#[derive(Deserialize, Serialize, Debug, PartialEq, Clone)]
pub struct FlatInner<'a> {
    #[serde(borrow)]
    name: &'a str,
}

#[derive(Deserialize, Serialize, Debug, PartialEq, Clone)]
pub struct FlatBorrow<'a> {
    id: u8,
    #[serde(flatten, borrow)]
    inner: FlatInner<'a>,
}

/// tuple struct / tuple variant with a defaulted tail that may be left out
#[derive(Deserialize, Serialize, Debug, PartialEq, Clone)]
pub struct Version(u8, #[serde(default, skip_serializing_if = "is_zero")] u8);
fn is_zero(x: &u8) -> bool {
    *x == 0
}

#[derive(Deserialize, Serialize, Debug, PartialEq, Clone)]
pub enum TailEnum {
    Line(u8, #[serde(default, skip_serializing_if = "Option::is_none")] Option<u8>),
    Dot,
}

/// newtype-wrapped map keys
#[derive(Deserialize, Serialize, Debug, PartialEq, Eq, PartialOrd, Ord, Clone)]
pub struct Id(u32);
#[derive(Deserialize, Serialize, Debug, PartialEq, Eq, PartialOrd, Ord, Clone)]
pub struct Flag(bool);
#[derive(Deserialize, Serialize, Debug, PartialEq, Eq, PartialOrd, Ord, Clone)]
pub struct Name(String);
#[derive(Deserialize, Serialize, Debug, PartialEq, Eq, PartialOrd, Ord, Clone)]
pub struct Wide(i128);

/// everything but `a` is skipped (validated, not decoded)
#[derive(Deserialize, Serialize, Debug, PartialEq, Clone)]
pub struct Known {
    a: u8,
}

#[derive(Deserialize, Serialize, Debug, PartialEq, Clone)]
pub struct Plain {
    a: i32,
    b: String,
    c: Vec<u8>,
    d: Option<bool>,
}

#[derive(Deserialize, Serialize, Debug, PartialEq, Clone, Default)]
pub struct Defaults {
    #[serde(default)]
    a: i32,
    #[serde(default)]
    b: Option<String>,
    #[serde(default, rename = "quote\"")]
    c: Vec<i64>,
}

#[derive(Deserialize, Serialize, Debug, PartialEq, Clone)]
#[serde(deny_unknown_fields)]
pub struct Strict {
    x: u8,
    y: i8,
}

#[derive(Deserialize, Serialize, Debug, PartialEq, Clone)]
pub struct Borrowing<'a> {
    #[serde(borrow)]
    s: &'a str,
    #[serde(borrow)]
    c: Cow<'a, str>,
    n: u16,
}

#[derive(Deserialize, Serialize, Debug, PartialEq, Clone)]
pub struct Nested {
    p: Plain,
    e: Shapes,
    m: BTreeMap<String, F64>,
    t: (u8, i8, bool),
}

#[derive(Deserialize, Serialize, Debug, PartialEq, Clone)]
#[serde(untagged)]
pub enum Untagged {
    N(i64),
    S(String),
    L(Vec<u8>),
    O { k: bool },
}

#[derive(Deserialize, Serialize, Debug, PartialEq, Clone)]
pub struct Flat {
    id: u32,
    #[serde(flatten)]
    rest: BTreeMap<String, i64>,
}

#[derive(Deserialize, Serialize, Debug, PartialEq, Clone)]
#[serde(tag = "t")]
pub enum Internally {
    A { x: i32 },
    B { y: String },
}

#[derive(Deserialize, Serialize, Debug, PartialEq, Clone)]
#[serde(tag = "t", content = "c")]
pub enum Adjacent {
    A(i32),
    B(String, bool),
}

#[derive(Deserialize, Serialize, Debug, PartialEq, Clone)]
pub struct BCow<'a>(#[serde(borrow)] Cow<'a, str>);

fn outcome<T: Debug, E: std::fmt::Display>(r: &Result<T, E>) -> String {
    match r {
        Ok(v) => crate::core::truncate(&format!("Ok({:?})", v), 200),
        Err(e) => crate::core::truncate(&format!("Err({})", e), 160),
    }
}

fn run_t<'a, T: Deserialize<'a> + PartialEq + Debug>(ctx: &mut Ctx, name: &str, s: &'a [u8]) {
    let valid_utf8 = std::str::from_utf8(s).is_ok();
    // the model runs under its own panic guard: serde_json 1.0.151 panics while formatting the
    // error for a non-ASCII key of a bool-keyed map (slice not on a char boundary) - that is the
    // model's defect, the case then carries no verdict
    ctx.ops(1);
    let Ok(b) = crate::core::guarded(|| serde_json::from_slice::<T>(s)) else {
        ctx.class("model:panicked");
        let _ = sonic_rs::from_slice::<T>(s);
        return;
    };
    let a = sonic_rs::from_slice::<T>(s);
    judge(ctx, name, "from_slice", s, &a, &b, valid_utf8);
    if let Ok(st) = std::str::from_utf8(s) {
        ctx.ops(1);
        let a = sonic_rs::from_str::<T>(st);
        let Ok(b) = crate::core::guarded(|| serde_json::from_str::<T>(st)) else { return };
        judge(ctx, name, "from_str", s, &a, &b, true);
    }
}

/// f32 targets: the documented difference - sonic narrows the f64 result once, serde_json parses
/// in single precision and rejects overflow. The model is `(f64 result) as f32`.
fn run_f32(ctx: &mut Ctx, s: &[u8]) {
    ctx.ops(1);
    let a = sonic_rs::from_slice::<F32>(s);
    let b = serde_json::from_slice::<F64>(s).map(|f| F32(f.0 as f32));
    judge(ctx, "f32", "from_slice", s, &a, &b, std::str::from_utf8(s).is_ok());
}

fn judge<T: PartialEq + Debug>(ctx: &mut Ctx, name: &str, api: &str, s: &[u8], a: &Result<T, sonic_rs::Error>, b: &Result<T, serde_json::Error>, valid_utf8: bool) {
    // serde_json does not validate the UTF-8 of strings it skips (unknown fields, IgnoredAny) and
    // decodes unpaired surrogates leniently for byte buffers; sonic rejects both (C02, C09).
    if a.is_err() && b.is_ok() {
        if !valid_utf8 {
            ctx.class("excused:invalid-utf8-skipped-by-serde_json");
            return;
        }
        // C02 obliges sonic to reject texts that are not well-formed JSON; where serde_json is
        // lenient (raw control characters and unpaired surrogates in strings read as bytes, ...)
        // the rejection is the specified behaviour
        match crate::refmodel::recog::parse_document(s) {
            Ok(d) if d.full_ok() => {}
            _ => {
                ctx.class("excused:text-not-wellformed-serde_json-lenient");
                return;
            }
        }
    }
    match (a, b) {
        (Ok(x), Ok(y)) => {
            ctx.class("outcome:both-ok");
            if x != y {
                ctx.fail(&format!("value-differs:{}", name), format!("{}::<{}>({:?}): sonic {} vs serde_json {}", api, name, crate::core::truncate(&String::from_utf8_lossy(s), 200), outcome(a), outcome(b)));
            }
        }
        (Err(_), Err(_)) => ctx.class("outcome:both-err"),
        (Ok(_), Err(_)) => ctx.fail(&format!("accepts-where-serde_json-rejects:{}", name), format!("{}::<{}>({:?}): sonic {} vs serde_json {}", api, name, crate::core::truncate(&String::from_utf8_lossy(s), 200), outcome(a), outcome(b))),
        (Err(_), Ok(_)) => ctx.fail(&format!("rejects-where-serde_json-accepts:{}", name), format!("{}::<{}>({:?}): sonic {} vs serde_json {}", api, name, crate::core::truncate(&String::from_utf8_lossy(s), 200), outcome(a), outcome(b))),
    }
}

/// Byte-buffer targets read a JSON string as raw bytes: escapes are decoded (surrogates must pair),
/// raw control characters are rejected, every other byte - valid UTF-8 or not - is taken as it is.
/// `lit` is one complete string literal including its quotes.
pub fn bytes_model(lit: &[u8]) -> Option<Vec<u8>> {
    let b = &lit[1..lit.len() - 1];
    let mut out = vec![];
    let mut i = 0;
    let hex4 = |i: usize| -> Option<u32> {
        if i + 4 > b.len() {
            return None;
        }
        let mut v = 0u32;
        for c in &b[i..i + 4] {
            v = v * 16 + (*c as char).to_digit(16)?;
        }
        Some(v)
    };
    while i < b.len() {
        match b[i] {
            b'\\' => {
                let e = *b.get(i + 1)?;
                i += 2;
                match e {
                    b'"' => out.push(b'"'),
                    b'\\' => out.push(b'\\'),
                    b'/' => out.push(b'/'),
                    b'b' => out.push(8),
                    b'f' => out.push(12),
                    b'n' => out.push(b'\n'),
                    b'r' => out.push(b'\r'),
                    b't' => out.push(b'\t'),
                    b'u' => {
                        let mut cp = hex4(i)?;
                        i += 4;
                        if (0xDC00..0xE000).contains(&cp) {
                            return None;
                        }
                        if (0xD800..0xDC00).contains(&cp) {
                            if b.get(i) != Some(&b'\\') || b.get(i + 1) != Some(&b'u') {
                                return None;
                            }
                            let lo = hex4(i + 2)?;
                            if !(0xDC00..0xE000).contains(&lo) {
                                return None;
                            }
                            i += 6;
                            cp = 0x10000 + ((cp - 0xD800) << 10) + (lo - 0xDC00);
                        }
                        let mut buf = [0u8; 4];
                        out.extend_from_slice(char::from_u32(cp)?.encode_utf8(&mut buf).as_bytes());
                    }
                    _ => return None,
                }
            }
            c if c < 0x20 => return None,
            b'"' => return None,
            c => {
                out.push(c);
                i += 1;
            }
        }
    }
    Some(out)
}

/// is `t` exactly one string literal (opening quote, no unescaped quote inside, closing quote last)?
fn single_literal(t: &[u8]) -> bool {
    if t.len() < 2 || t[0] != b'"' || t[t.len() - 1] != b'"' {
        return false;
    }
    let mut i = 1;
    while i < t.len() - 1 {
        match t[i] {
            b'\\' => i += 2,
            b'"' => return false,
            _ => i += 1,
        }
    }
    i == t.len() - 1
}

fn run_bytebuf(ctx: &mut Ctx, s: &[u8]) {
    run_t::<serde_bytes::ByteBuf>(ctx, "ByteBuf", s);
    let ws = |c: &u8| matches!(c, b' ' | b'\n' | b'\t' | b'\r');
    let a = s.iter().position(|c| !ws(c)).unwrap_or(s.len());
    let z = s.iter().rposition(|c| !ws(c)).map(|i| i + 1).unwrap_or(a);
    let t = &s[a..z.max(a)];
    if !single_literal(t) {
        return;
    }
    ctx.ops(1);
    ctx.class(if std::str::from_utf8(t).is_ok() { "bytes-literal:utf8" } else { "bytes-literal:not-utf8" });
    let want = bytes_model(t);
    let got = sonic_rs::from_slice::<serde_bytes::ByteBuf>(s).map(|b| b.into_vec());
    match (&want, &got) {
        (Some(w), Ok(g)) if w == g => {}
        (None, Err(_)) => {}
        _ => ctx.fail("bytes-literal-differs:ByteBuf", format!("from_slice::<ByteBuf>({:?}): sonic {:?}, byte-string model {:?}", crate::core::truncate(&String::from_utf8_lossy(s), 120), got.as_ref().map_err(|e| e.to_string()), want)),
    }
}

/// a string literal mixing plain text, escapes and bytes that are not UTF-8
fn bytes_literal(r: &mut Rng) -> Vec<u8> {
    let mut t = vec![b'"'];
    for _ in 0..r.range(0, 12) {
        match r.below(10) {
            0 | 1 => t.extend_from_slice(r.pick(&["\\n", "\\\"", "\\\\", "\\u0041", "\\u00e9", "\\ud83d\\ude00", "\\/", "\\t"]).as_bytes()),
            2 | 3 => t.push(0x80 + r.below(0x80) as u8),
            4 => t.extend_from_slice("é日😀".as_bytes()),
            5 => t.extend_from_slice(r.pick(&["\\ud800", "\\udc00", "\\x", "\\u12", "\x01"]).as_bytes()),
            _ => t.extend_from_slice(b"ab"),
        }
    }
    t.push(b'"');
    t
}

pub struct TypeCase {
    pub name: &'static str,
    pub run: for<'a> fn(&mut Ctx, &'a [u8]),
    /// a matching text
    pub gen: fn(&mut Rng) -> String,
}

/// owned targets: the result must not depend on the input buffer after the call (the private copy of
/// the input is overwritten and freed before the comparison with the model's value)
fn run_owned<T: serde::de::DeserializeOwned + PartialEq + Debug>(ctx: &mut Ctx, name: &str, s: &[u8]) {
    let Ok(Ok(b)) = crate::core::guarded(|| serde_json::from_slice::<T>(s)) else { return };
    ctx.ops(1);
    match crate::mon::common::parse_then_discard(s, |c| sonic_rs::from_slice::<T>(c)) {
        Ok(a) => {
            ctx.class("owned:compared-after-input-discard");
            if a != b {
                ctx.fail(&format!("owned-value-depends-on-input:{}", name), format!("from_slice::<{}>({:?}) read after the input was overwritten and freed: {:?}, model {:?}", name, crate::core::truncate(&String::from_utf8_lossy(s), 160), a, b));
            }
        }
        Err(_) => {}
    }
}

macro_rules! tco {
    ($name:expr, $t:ty, $gen:expr) => {
        TypeCase {
            name: $name,
            run: |ctx, s| {
                run_t::<$t>(ctx, $name, s);
                run_owned::<$t>(ctx, $name, s);
            },
            gen: $gen,
        }
    };
}

macro_rules! tc {
    ($name:expr, $t:ty, $gen:expr) => {
        TypeCase { name: $name, run: |ctx, s| run_t::<$t>(ctx, $name, s), gen: $gen }
    };
}

fn js<T: Serialize>(v: &T) -> String {
    serde_json::to_string(v).unwrap_or_else(|_| "null".into())
}

fn rs(r: &mut Rng) -> String {
    crate::gen::dynval::rand_text(r)
}

fn int_text(r: &mut Rng, bits: u32, signed: bool) -> String {
    // boundary +-1, in range, out of range
    let max: i128 = if signed { (1i128 << (bits - 1)) - 1 } else if bits == 128 { i128::MAX } else { (1i128 << bits) - 1 };
    let min: i128 = if signed { -(1i128 << (bits - 1)) } else { 0 };
    match r.below(10) {
        0 => format!("{}", max),
        1 => format!("{}", min),
        2 => {
            if bits == 128 && !signed {
                "340282366920938463463374607431768211455".into()
            } else {
                format!("{}", max + 1)
            }
        }
        3 => format!("{}", min - 1),
        4 => format!("{}", r.below(100)),
        5 => format!("-{}", r.below(100)),
        6 => format!("{}.0", r.below(100)),
        7 => format!("{}e2", r.below(100)),
        8 => {
            if bits == 128 {
                if signed {
                    (*r.pick(&["170141183460469231731687303715884105727", "-170141183460469231731687303715884105728", "170141183460469231731687303715884105728", "-170141183460469231731687303715884105729"])).to_string()
                } else {
                    (*r.pick(&["340282366920938463463374607431768211455", "340282366920938463463374607431768211456", "18446744073709551616", "-1"])).to_string()
                }
            } else {
                format!("{}", (r.next() as i64 as i128) >> r.below(64))
            }
        }
        _ => format!("\"{}\"", r.below(100)),
    }
}

fn plain(r: &mut Rng) -> Plain {
    Plain { a: r.next() as i32, b: rs(r), c: (0..r.range(0, 5)).map(|_| r.next() as u8).collect(), d: *r.pick(&[None, Some(true), Some(false)]) }
}
fn shapes(r: &mut Rng) -> Shapes {
    match r.below(4) {
        0 => Shapes::Unit,
        1 => Shapes::Newtype(r.next() as i16),
        2 => Shapes::Tuple(r.next() as u8, rs(r)),
        _ => Shapes::Struct { a: r.next() as i32, b: if r.chance(1, 2) { Some(rs(r)) } else { None } },
    }
}
fn payloads(r: &mut Rng) -> Payloads {
    match r.below(12) {
        0 => Payloads::Maybe(None),
        1 => Payloads::Maybe(Some(r.next() as i32)),
        2 => Payloads::Nothing(()),
        3 => Payloads::Tagged(Unit),
        4 => Payloads::Seq((0..r.range(0, 3)).map(|_| r.next() as u8).collect()),
        5 => Payloads::Map((0..r.range(0, 3)).map(|_| (rs(r), r.next() as u8)).collect()),
        6 => Payloads::Inner(fieldless(r)),
        7 => Payloads::Deep(Box::new(shapes(r))),
        8 => Payloads::Empty(),
        9 => Payloads::EmptyS {},
        10 => Payloads::Opt { o: None, u: () },
        _ => Payloads::Opt { o: Some(if r.chance(1, 2) { Some(r.next() as u8) } else { None }), u: () },
    }
}
fn fieldless(r: &mut Rng) -> Fieldless {
    match r.below(3) {
        0 => Fieldless::A,
        1 => Fieldless::B,
        _ => Fieldless::C,
    }
}

pub fn types() -> Vec<TypeCase> {
    vec![
        tc!("u8", u8, |r| int_text(r, 8, false)),
        tc!("u16", u16, |r| int_text(r, 16, false)),
        tc!("u32", u32, |r| int_text(r, 32, false)),
        tc!("u64", u64, |r| int_text(r, 64, false)),
        tc!("u128", u128, |r| int_text(r, 128, false)),
        tc!("usize", usize, |r| int_text(r, 64, false)),
        tc!("i8", i8, |r| int_text(r, 8, true)),
        tc!("i16", i16, |r| int_text(r, 16, true)),
        tc!("i32", i32, |r| int_text(r, 32, true)),
        tc!("i64", i64, |r| int_text(r, 64, true)),
        tc!("i128", i128, |r| int_text(r, 128, true)),
        tc!("f64", F64, |r| if r.chance(1, 2) { numlit::hostile(r) } else { js(&crate::gen::dynval::rand_f64(r)) }),
        TypeCase { name: "f32", run: |ctx, s| run_f32(ctx, s), gen: |r| if r.chance(1, 2) { numlit::hostile(r) } else { js(&crate::gen::dynval::rand_f32(r)) } },
        tc!("bool", bool, |r| (*r.pick(&["true", "false", "1", "\"true\"", "null"])).to_string()),
        tc!("char", char, |r| js(&*r.pick(&["a", "é", "日", "😀", "", "ab", "\n", "\u{0}"]))),
        tco!("String", String, |r| {
            let t = rs(r);
            let mut g = doc::Gen::new(r, doc::DocOpts::default());
            g.write_string(&t);
            String::from_utf8(g.out).unwrap()
        }),
        tc!("&str", &str, |r| js(&rs(r))),
        tc!("Cow<str>", BCow, |r| {
            let t = rs(r);
            let mut g = doc::Gen::new(r, doc::DocOpts::default());
            g.write_string(&t);
            String::from_utf8(g.out).unwrap()
        }),
        tc!("Option<i32>", Option<i32>, |r| if r.chance(1, 3) { "null".into() } else { int_text(r, 32, true) }),
        tc!("Option<Option<String>>", Option<Option<String>>, |r| if r.chance(1, 3) { "null".into() } else { js(&rs(r)) }),
        tc!("()", (), |r| (*r.pick(&["null", "[]", "0", "{}"])).to_string()),
        tc!("Unit", Unit, |r| (*r.pick(&["null", "[]", "\"Unit\"", "{}"])).to_string()),
        tc!("Newtype", Newtype, |r| int_text(r, 32, true)),
        tc!("(u8,String,bool)", (u8, String, bool), |r| js(&(r.next() as u8, rs(r), r.chance(1, 2)))),
        tc!("Pair", Pair, |r| js(&Pair(r.next() as i32, rs(r)))),
        tc!("[u16;3]", [u16; 3], |r| js(&[r.next() as u16, 0, 65535])),
        tc!("Vec<i64>", Vec<i64>, |r| js(&(0..r.range(0, 6)).map(|_| r.next() as i64 >> r.below(64)).collect::<Vec<_>>())),
        tco!("Vec<Vec<String>>", Vec<Vec<String>>, |r| js(&(0..r.range(0, 3)).map(|_| (0..r.range(0, 3)).map(|_| rs(r)).collect::<Vec<_>>()).collect::<Vec<_>>())),
        tco!("HashMap<String,i32>", HashMap<String, i32>, |r| js(&(0..r.range(0, 5)).map(|_| (rs(r), r.next() as i32)).collect::<HashMap<_, _>>())),
        tco!("BTreeMap<i32,String>", BTreeMap<i32, String>, |r| js(&(0..r.range(0, 5)).map(|_| (r.next() as i32 >> r.below(32), rs(r))).collect::<BTreeMap<_, _>>())),
        tc!("BTreeMap<u64,bool>", BTreeMap<u64, bool>, |r| js(&(0..r.range(0, 5)).map(|_| (r.next() >> r.below(64), r.chance(1, 2))).collect::<BTreeMap<_, _>>())),
        tc!("BTreeMap<i128,u8>", BTreeMap<i128, u8>, |r| js(&(0..r.range(0, 3)).map(|_| (if r.chance(1, 2) { (r.next() as i128) << r.below(60) } else { (r.next() as i64 as i128) << r.below(63) }, r.next() as u8)).collect::<BTreeMap<_, _>>())),
        tc!("BTreeMap<u128,i8>", BTreeMap<u128, i8>, |r| js(&(0..r.range(0, 3)).map(|_| (match r.below(4) { 0 => u128::MAX - r.below(3) as u128, 1 => (u64::MAX as u128) + r.below(3) as u128, 2 => (r.next() as u128) << r.below(64), _ => r.next() as u128 }, r.next() as i8)).collect::<BTreeMap<_, _>>())),
        tc!("BTreeMap<bool,u8>", BTreeMap<bool, u8>, |r| (*r.pick(&["{\"true\":1}", "{\"false\":0,\"true\":2}", "{}", "{\"True\":1}", "{\"1\":1}"])).to_string()),
        tc!("BTreeMap<Fieldless,u8>", BTreeMap<Fieldless, u8>, |r| js(&(0..r.range(0, 3)).map(|_| (fieldless(r), r.next() as u8)).collect::<BTreeMap<_, _>>())),
        tc!("BTreeMap<Option<String>,u8>", BTreeMap<Option<String>, u8>, |r| (*r.pick(&["{\"a\":1}", "{}", "{\"\":2}", "{\"null\":1}"])).to_string()),
        tc!("BTreeMap<char,u8>", BTreeMap<char, u8>, |r| (*r.pick(&["{\"a\":1}", "{\"ab\":1}", "{\"é\":2,\"\\n\":3}", "{\"\":1}"])).to_string()),
        tc!("BTreeMap<F64key,u8>", BTreeMap<String, F64>, |r| js(&(0..r.range(0, 4)).map(|_| (rs(r), crate::gen::dynval::rand_f64(r))).filter(|(_, f)| f.is_finite()).collect::<BTreeMap<_, _>>())),
        tc!("Fieldless", Fieldless, |r| js(&fieldless(r))),
        tc!("Shapes", Shapes, |r| js(&shapes(r))),
        tc!("Payloads", Payloads, |r| js(&payloads(r))),
        tco!("Vec<Payloads>", Vec<Payloads>, |r| js(&(0..r.range(0, 4)).map(|_| payloads(r)).collect::<Vec<_>>())),
        tco!("Wrappers", Wrappers, |r| {
            let w = Wrappers {
                u: Unit,
                n: Newtype(r.next() as i32),
                p: Pair(r.next() as i32, rs(r)),
                o: if r.chance(1, 2) { Some(Unit) } else { None },
                e: (0..r.range(0, 3)).map(|_| payloads(r)).collect(),
                k: (0..r.range(0, 3)).map(|_| (fieldless(r), if r.chance(1, 2) { Some(Newtype(r.next() as i32)) } else { None })).collect(),
            };
            js(&w)
        }),
        tc!("Option<()>", Option<()>, |r| (*r.pick(&["null", "[]", "0"])).to_string()),
        tc!("BTreeMap<Id,String>", BTreeMap<Id, String>, |r| js(&(0..r.range(0, 4)).map(|_| (Id(r.next() as u32 >> r.below(32)), rs(r))).collect::<BTreeMap<_, _>>())),
        tc!("BTreeMap<Flag,u8>", BTreeMap<Flag, u8>, |r| js(&(0..r.range(0, 3)).map(|_| (Flag(r.chance(1, 2)), r.next() as u8)).collect::<BTreeMap<_, _>>())),
        tc!("BTreeMap<Name,Wide>", BTreeMap<Name, Wide>, |r| js(&(0..r.range(0, 3)).map(|_| (Name(rs(r)), Wide((r.next() as i64 as i128) << r.below(64)))).collect::<BTreeMap<_, _>>())),
        tc!("BTreeMap<Wide,Id>", BTreeMap<Wide, Id>, |r| js(&(0..r.range(0, 3)).map(|_| (Wide((r.next() as i64 as i128) << r.below(64)), Id(r.next() as u32))).collect::<BTreeMap<_, _>>())),
        // 128-bit integers read after strings by the same deserializer (tuples, sequences of pairs)
        tco!("(String,u128)", (String, u128), |r| js(&(rs(r), (r.next() as u128) << r.below(64)))),
        tco!("Vec<(String,i128)>", Vec<(String, i128)>, |r| js(&(0..r.range(0, 4)).map(|_| (rs(r), (r.next() as i64 as i128) << r.below(64))).collect::<Vec<_>>())),
        tco!("(String,i128,String,u128,u64)", (String, i128, String, u128, u64), |r| {
            // escaped digits in the strings: what an unescape leaves behind must not leak into the number
            let s1 = if r.chance(1, 2) { "\\u0031\\u0032".to_string() } else { "a\\\"b\\n".to_string() };
            format!("[\"{}\", {}, \"{}\" ,{},{}]", s1, (r.next() as i64 as i128) << r.below(60), "\\u0039\\t", (r.next() as u128) << r.below(60), r.next())
        }),
        tc!("BTreeMap<ByteBuf,u8>", BTreeMap<serde_bytes::ByteBuf, u8>, |r| {
            let mut g = doc::Gen::new(r, doc::DocOpts::default());
            g.out.push(b'{');
            let t = g.text();
            g.write_string(&t);
            g.out.extend_from_slice(b":7}");
            String::from_utf8(g.out).unwrap()
        }),
        tc!("UntaggedBorrow", UntaggedBorrow, |r| (*r.pick(&["\"plain\"", "\"esc\\n\"", "5", "{\"p\":\"x\"}", "{\"p\":\"a\\tb\"}", "\"\"", "null"])).to_string()),
        tc!("TaggedBorrow", TaggedBorrow, |r| (*r.pick(&["{\"t\":\"A\",\"s\":\"plain\"}", "{\"s\":\"plain\",\"t\":\"A\"}", "{\"t\":\"A\",\"s\":\"e\\\"sc\"}", "{\"t\":\"B\",\"n\":3}", "{\"t\":\"A\"}"])).to_string()),
        tc!("FlatBorrow", FlatBorrow, |r| (*r.pick(&["{\"id\":1,\"name\":\"plain\"}", "{\"name\":\"plain\",\"id\":2}", "{\"id\":1,\"name\":\"e\\nsc\"}", "{\"id\":1}", "{\"id\":1,\"name\":\"x\",\"extra\":[1]}"])).to_string()),
        tc!("Version", Version, |r| (*r.pick(&["[1]", "[1,0]", "[1,2]", "[1,2,3]", "[]", "1"])).to_string()),
        tc!("TailEnum", TailEnum, |r| (*r.pick(&["{\"Line\":[7]}", "{\"Line\":[7,null]}", "{\"Line\":[7,8]}", "\"Dot\"", "{\"Line\":[]}", "{\"Line\":[1,2,3]}"])).to_string()),
        tc!("Known+skipped", Known, |r| {
            // the skipped member holds a number shape, a hostile literal or a whole document
            let v = match r.below(4) {
                0 => numlit::number_shape(r.range(1, 140), r.below(64) as usize, r.chance(1, 4), r.range(0, 40)),
                1 => numlit::hostile(r),
                2 => format!("[{},{{\"q\":{}}}]", numlit::number_shape(r.range(1, 100), r.below(64) as usize, false, 0), numlit::hostile(r)),
                _ => String::from_utf8_lossy(&doc::gen_any(r)).into_owned(),
            };
            if r.chance(1, 2) { format!("{{\"a\":1,\"zz\":{}}}", v) } else { format!("{{\"zz\":{} ,\"a\":1}}", v) }
        }),
        tc!("IgnoredAny", serde::de::IgnoredAny, |r| match r.below(3) {
            0 => numlit::number_shape(r.range(1, 140), r.below(64) as usize, r.chance(1, 4), r.range(0, 40)),
            1 => format!("[{}]", numlit::hostile(r)),
            _ => String::from_utf8_lossy(&doc::gen_any(r)).into_owned(),
        }),
        tco!("Plain", Plain, |r| js(&plain(r))),
        tc!("Defaults", Defaults, |r| {
            let d = Defaults { a: r.next() as i32, b: if r.chance(1, 2) { Some(rs(r)) } else { None }, c: vec![r.next() as i64] };
            let mut v = serde_json::to_value(&d).unwrap();
            // drop some fields, add unknown ones
            if let Some(o) = v.as_object_mut() {
                if r.chance(1, 2) {
                    o.remove("a");
                }
                if r.chance(1, 2) {
                    o.remove("quote\"");
                }
                if r.chance(1, 2) {
                    o.insert("unknown".into(), serde_json::json!({"deep": [1, {"x": null}], "s": "\\\"]}"}));
                }
            }
            v.to_string()
        }),
        tc!("Strict", Strict, |r| (*r.pick(&["{\"x\":1,\"y\":-1}", "{\"x\":1,\"y\":-1,\"z\":0}", "{\"y\":-128,\"x\":255}", "{\"x\":256,\"y\":0}", "{\"x\":1}", "{\"x\":1,\"x\":2,\"y\":3}", "[1,2]", "[1,2,3]"])).to_string()),
        tc!("Borrowing", Borrowing, |r| {
            let esc = r.chance(1, 3);
            let s = if esc { "a\\nb".to_string() } else { "plain".to_string() };
            format!("{{\"s\":\"{}\",\"c\":\"{}\",\"n\":{}}}", if r.chance(1, 2) { "x y" } else { &s }, s, r.below(70000))
        }),
        tco!("Nested", Nested, |r| {
            let n = Nested { p: plain(r), e: shapes(r), m: (0..r.range(0, 3)).map(|_| (rs(r), F64(crate::gen::dynval::rand_f64(r)))).filter(|(_, f)| f.0.is_finite()).collect(), t: (r.next() as u8, r.next() as i8, r.chance(1, 2)) };
            js(&n)
        }),
        tc!("Untagged", Untagged, |r| (*r.pick(&["1", "-5", "\"s\"", "[1,2,3]", "{\"k\":true}", "{\"k\":1}", "1.5", "[256]", "null", "18446744073709551615", "{\"k\":true,\"z\":1}"])).to_string()),
        tc!("Flat", Flat, |r| (*r.pick(&["{\"id\":1,\"a\":2,\"b\":-3}", "{\"a\":2,\"id\":7}", "{\"id\":1,\"a\":\"x\"}", "{\"id\":1}", "{\"a\":1}", "{\"id\":1,\"a\":1,\"a\":2}", "{\"id\":4294967296}"])).to_string()),
        tc!("Internally", Internally, |r| (*r.pick(&["{\"t\":\"A\",\"x\":1}", "{\"x\":1,\"t\":\"A\"}", "{\"t\":\"B\",\"y\":\"s\"}", "{\"t\":\"C\"}", "{\"x\":1}", "{\"t\":\"A\",\"x\":\"1\"}", "[\"A\",1]"])).to_string()),
        tc!("Adjacent", Adjacent, |r| (*r.pick(&["{\"t\":\"A\",\"c\":1}", "{\"c\":1,\"t\":\"A\"}", "{\"t\":\"B\",\"c\":[\"s\",true]}", "{\"t\":\"B\",\"c\":[\"s\"]}", "{\"t\":\"A\"}", "[\"A\",1]"])).to_string()),
        TypeCase { name: "ByteBuf", run: |ctx, s| run_bytebuf(ctx, s), gen: |r| if r.chance(1, 2) { js(&(0..r.range(0, 6)).map(|_| r.next() as u8).collect::<Vec<u8>>()) } else { js(&rs(r)) } },
        tc!("Box<[i8]>", Box<[i8]>, |r| js(&(0..r.range(0, 6)).map(|_| r.next() as i8).collect::<Vec<i8>>())),
        tco!("serde_json::Value", serde_json::Value, |r| String::from_utf8_lossy(&doc::gen_any(r)).into_owned()),
    ]
}

/// generic texts every type is confronted with
pub fn generic(r: &mut Rng) -> String {
    // strings whose text is echoed by type-mismatch / unknown-variant / unknown-field errors,
    // including fragments that look like the library's own position suffixes
    let echoed = |r: &mut Rng| -> String {
        let mut t = rs(r);
        if r.chance(1, 2) {
            t.push_str(*r.pick(doc::MESSAGE_FRAGMENTS));
        }
        let mut g = doc::Gen::new(r, doc::DocOpts::default());
        g.write_string(&t);
        String::from_utf8(g.out).unwrap()
    };
    match r.below(17) {
        14 => echoed(r),
        15 => format!("[{}]", echoed(r)),
        16 => format!("{{{}:{}}}", echoed(r), *r.pick(&["1", "null", "\"x\"", "[1]"])),
        0 => numlit::hostile(r),
        1 => String::from_utf8_lossy(&doc::gen_any(r)).into_owned(),
        2 => (*r.pick(&["null", "true", "false", "[]", "{}", "\"\"", "0", "-0", "1", "-1", "[null]", "{\"a\":null}", "[[]]", "\"a\"", " 1 ", "1 2", "", "nul", "[1,]", "{\"a\":1,}"])).to_string(),
        3 => format!("[{}]", numlit::hostile(r)),
        4 => format!("{{\"{}\":{}}}", *r.pick(&["a", "x", "id", "k", "t", "A", "Unit", "Newtype", "Struct", "Tuple", "1", "-1", "true"]), numlit::hostile(r)),
        5 => format!("\"{}\"", *r.pick(&["A", "B", "c d", "Unit", "a", "1", "-1", "true", "null", "\\ud800", "\\u0041", "é"])),
        6 => format!("{{\"{}\":{}}}", *r.pick(&["Unit", "Newtype", "Tuple", "Struct", "A", "B"]), *r.pick(&["null", "1", "[1,\"x\"]", "{\"a\":1,\"b\":null}", "[]", "{}", "\"s\""])),
        7 => format!("[{},\"{}\",{}]", r.below(300), "s", *r.pick(&["true", "false", "null", "1"])),
        8 => format!("{}", (r.next() as i128) << r.below(64)),
        9 => format!("{}.{}", r.next() as i64, r.below(1000)),
        10 => format!("[{}]", (0..r.range(0, 5)).map(|_| format!("{}", r.below(300))).collect::<Vec<_>>().join(",")),
        11 => format!("{{\"a\":{},\"b\":\"{}\",\"c\":[{}],\"d\":{}}}", r.next() as i32, "s", r.below(256), *r.pick(&["null", "true", "1"])),
        12 => format!("{{\"x\":{},\"y\":{}}}", r.below(300), r.below(300) as i64 - 150),
        _ => format!("\"{}\"", numlit::hostile(r)),
    }
}

impl Check for C04 {
    fn id(&self) -> &'static str {
        "C04"
    }
    fn generate(&self, g: &GenParams, emit: &mut dyn FnMut(Case)) {
        let nt = types().len() as u64;
        let mut r = g.rng(4);
        let per_type = g.count(16 * 3_000, 16 * 300_000) / 16; // cases (of 16 texts each) per shard
        for k in 0..per_type.max(1) {
            for t in 0..nt {
                let _ = k;
                emit(Case::with("type", vec![], &[t as i64, r.next() as i64, 16]));
            }
        }
    }
    fn exec(&self, ctx: &mut Ctx, c: &Case) {
        let ts = types();
        let t = &ts[(c.p(0) as usize) % ts.len()];
        let mut r = Rng::new(c.p(1) as u64);
        ctx.nontrivial();
        ctx.class(&format!("type:{}", t.name));
        for _ in 0..c.p(2) {
            let text: Vec<u8> = match r.below(8) {
                0 if t.name == "ByteBuf" => bytes_literal(&mut r),
                0 | 1 | 2 => (t.gen)(&mut r).into_bytes(),
                3 | 4 => {
                    // near-matching: a mutation of a matching text
                    let m = (t.gen)(&mut r).into_bytes();
                    mutate::mutate(&mut r, &m).0
                }
                5 => {
                    // whitespace around a matching text
                    format!(" \n{}\t ", (t.gen)(&mut r)).into_bytes()
                }
                _ => generic(&mut r).into_bytes(),
            };
            if let Ok(d) = crate::refmodel::recog::parse_document(&text) {
                if d.flags.max_depth > 64 {
                    continue;
                }
            }
            (t.run)(ctx, &text);
        }
        ctx.sample(t.name);
    }
    fn required_classes(&self, _b: &str, _t: Tier) -> Vec<&'static str> {
        vec!["outcome:both-ok", "outcome:both-err", "type:u128", "type:Untagged", "type:Flat", "type:Borrowing", "type:Shapes", "type:ByteBuf", "bytes-literal:not-utf8", "bytes-literal:utf8", "type:Known+skipped", "type:IgnoredAny", "owned:compared-after-input-discard"]
    }
}
