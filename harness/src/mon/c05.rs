//! C05 — serialisation always emits well-formed JSON that denotes the serialised value.
use std::cell::RefCell;
use std::io::{self, Write};
use std::rc::Rc;

use bytes::{BufMut, BytesMut};
use serde::Serialize;
use sonic_rs::writer::BufferedWriter;

use crate::core::{Case, Check, Ctx, GenParams, Tier};
use crate::gen::dynval::{gen_dyn, Dyn, DynOpts, Key};
use crate::mon::common::{exact, for_each_string, tree_eq, GuardBuf};
use crate::refmodel::esc;
use crate::refmodel::recog::{self, K};
use crate::rng::Rng;

pub struct C05;

/// writer that accepts `limit` bytes, then fails; optionally short-writes (at most `chunk` bytes
/// per call). The accepted bytes are recorded in a shared buffer.
pub struct FailAfter {
    pub got: Rc<RefCell<Vec<u8>>>,
    pub limit: usize,
    pub chunk: usize,
}

impl Write for FailAfter {
    fn write(&mut self, buf: &[u8]) -> io::Result<usize> {
        if buf.is_empty() {
            return Ok(0);
        }
        let mut got = self.got.borrow_mut();
        let room = self.limit - got.len();
        if room == 0 {
            return Err(io::Error::new(io::ErrorKind::BrokenPipe, "FailAfter"));
        }
        let n = buf.len().min(room).min(self.chunk);
        got.extend_from_slice(&buf[..n]);
        Ok(n)
    }
    fn flush(&mut self) -> io::Result<()> {
        Ok(())
    }
}

/// writer with a transient fault: exactly the k-th `write` call is refused, every other call is
/// accepted in full (a non-blocking sink that was momentarily full, an interrupted call that the
/// caller does not retry). Whatever arrives after the refused call is recorded too.
pub struct FailCall {
    pub got: Rc<RefCell<Vec<u8>>>,
    pub k: usize,
    pub calls: usize,
    pub at_failure: Rc<RefCell<Option<usize>>>,
}

impl Write for FailCall {
    fn write(&mut self, buf: &[u8]) -> io::Result<usize> {
        if buf.is_empty() {
            return Ok(0);
        }
        self.calls += 1;
        if self.calls - 1 == self.k {
            *self.at_failure.borrow_mut() = Some(self.got.borrow().len());
            return Err(io::Error::new(io::ErrorKind::WouldBlock, "FailCall"));
        }
        self.got.borrow_mut().extend_from_slice(buf);
        Ok(buf.len())
    }
    fn flush(&mut self) -> io::Result<()> {
        Ok(())
    }
}

#[derive(Serialize)]
struct Holder<'a> {
    s: &'a str,
    v: Vec<&'a str>,
    o: Option<&'a str>,
}

/// all the writers on one value; returns the compact output
fn writers<T: Serialize + ?Sized>(ctx: &mut Ctx, what: &str, x: &T, model: Result<&[u8], ()>) -> Option<Vec<u8>> {
    ctx.ops(1);
    let out = match sonic_rs::to_string(x) {
        Ok(s) => {
            if std::str::from_utf8(s.as_bytes()).is_err() {
                ctx.fail(&format!("output-not-utf8:{}", what), "to_string returned a String that is not UTF-8".into());
                return None;
            }
            s.into_bytes()
        }
        Err(e) => {
            if model.is_ok() {
                ctx.fail(&format!("ser-error:{}", what), format!("to_string failed where the model serialises: {}", e));
            }
            // every writer must fail alike
            if sonic_rs::to_vec(x).is_ok() || sonic_rs::to_string_pretty(x).is_ok() {
                ctx.fail(&format!("writers-differ-on-error:{}", what), "to_string failed but to_vec/to_string_pretty succeeded".into());
            }
            return None;
        }
    };
    if model.is_err() {
        ctx.fail(&format!("ser-accepts:{}", what), format!("serialisation succeeded where the documented counterpart is an error: {}", String::from_utf8_lossy(&out)));
        return None;
    }
    let mut differ = |name: &str, got: &[u8], want: &[u8]| {
        if got != want {
            ctx.fail(
                &format!("writers-differ:{}", name),
                format!("{} wrote {:?} but to_string gave {:?}", name, crate::core::truncate(&String::from_utf8_lossy(got), 300), crate::core::truncate(&String::from_utf8_lossy(want), 300)),
            );
        }
    };
    let pretty = sonic_rs::to_string_pretty(x).map(|s| s.into_bytes()).unwrap_or_default();
    differ("to_vec", &sonic_rs::to_vec(x).unwrap_or_default(), &out);
    differ("to_vec_pretty", &sonic_rs::to_vec_pretty(x).unwrap_or_default(), &pretty);
    let mut v = Vec::new();
    let _ = sonic_rs::to_writer(&mut v, x);
    differ("to_writer(&mut Vec)", &v, &out);
    let mut v = vec![b'#'; 3];
    let _ = sonic_rs::to_writer(&mut v, x);
    differ("to_writer(&mut non-empty Vec)", &v[3.min(v.len())..], &out);
    let mut v = Vec::new();
    let _ = sonic_rs::to_writer_pretty(&mut v, x);
    differ("to_writer_pretty(&mut Vec)", &v, &pretty);
    let mut bm = BytesMut::new().writer();
    let _ = sonic_rs::to_writer(&mut bm, x);
    differ("to_writer(BytesMut writer)", bm.get_ref(), &out);
    let mut bm = BytesMut::new().writer();
    let _ = sonic_rs::to_writer_pretty(&mut bm, x);
    differ("to_writer_pretty(BytesMut writer)", bm.get_ref(), &pretty);
    let mut inner = BytesMut::new();
    {
        let w = (&mut inner).writer();
        let _ = sonic_rs::to_writer(w, x);
    }
    differ("to_writer(&mut BytesMut writer)", &inner, &out);
    let mut bw = BufferedWriter::new(Vec::new());
    let _ = sonic_rs::to_writer(&mut bw, x);
    let _ = bw.flush();
    // BufferedWriter owns its inner writer; reach it through a cursor we keep
    let mut cur = io::Cursor::new(Vec::new());
    {
        let mut bw = BufferedWriter::new(&mut cur);
        let _ = sonic_rs::to_writer(&mut bw, x);
        let _ = bw.flush();
    }
    differ("to_writer(BufferedWriter<Cursor>)", cur.get_ref(), &out);
    let mut cur = io::Cursor::new(Vec::new());
    {
        let mut bw = BufferedWriter::new(&mut cur);
        let _ = sonic_rs::to_writer_pretty(&mut bw, x);
    }
    differ("to_writer_pretty(BufferedWriter<Cursor>)", cur.get_ref(), &pretty);
    {
        let mut iw = io::BufWriter::new(Vec::new());
        let _ = sonic_rs::to_writer(&mut iw, x);
        match iw.into_inner() {
            Ok(v) => differ("to_writer(io::BufWriter<Vec>)", &v, &out),
            Err(_) => differ("to_writer(io::BufWriter<Vec>)", b"<into_inner failed>", &out),
        }
        let mut iw = io::BufWriter::with_capacity(7, Vec::new());
        let _ = sonic_rs::to_writer_pretty(&mut iw, x);
        match iw.into_inner() {
            Ok(v) => differ("to_writer_pretty(io::BufWriter<Vec>)", &v, &pretty),
            Err(_) => differ("to_writer_pretty(io::BufWriter<Vec>)", b"<into_inner failed>", &pretty),
        }
    }
    // a sink that accepts only a few bytes per write call (a socket-like short-writing sink):
    // nothing may be lost, through BufferedWriter and through io::BufWriter
    for chunk in [1usize, 3, 7] {
        let rec = Rc::new(RefCell::new(Vec::new()));
        {
            let mut bw = BufferedWriter::new(FailAfter { got: rec.clone(), limit: usize::MAX, chunk });
            let r = sonic_rs::to_writer(&mut bw, x);
            let f = bw.flush();
            if r.is_err() || f.is_err() {
                differ("to_writer(BufferedWriter<short-writing sink>) reported an error", b"<error>", &out);
            }
        }
        differ("to_writer(BufferedWriter<short-writing sink>)", &rec.borrow(), &out);
        let rec = Rc::new(RefCell::new(Vec::new()));
        {
            let mut iw = io::BufWriter::with_capacity(5, BufferedWriter::new(FailAfter { got: rec.clone(), limit: usize::MAX, chunk }));
            let _ = sonic_rs::to_writer_pretty(&mut iw, x);
            let _ = iw.flush();
            let _ = iw.get_mut().flush();
        }
        differ("to_writer_pretty(io::BufWriter<short-writing sink>)", &rec.borrow(), &pretty);
    }
    {
        let mut bx: Box<Vec<u8>> = Box::new(Vec::new());
        let _ = sonic_rs::to_writer(&mut bx, x);
        differ("to_writer(Box<Vec>)", &bx, &out);
    }
    // custom indentation through Serializer::with_formatter(PrettyFormatter::with_indent(..)):
    // the same re-indentation rule with another indent unit
    // (units whose length does not divide a power of two, mixed units and units longer than any
    // scratch block rotate with the output's length)
    const ODD_UNITS: [&[u8]; 9] = [b"   ", b"     ", b" \t ", b"       ", b"      ", b"\t\t\t", b"                                 ", b"\r\n", &[b' '; 129]];
    let rot = out.len() % 9;
    for unit in [&b"\t"[..], b" ", b"    ", b"", b"        ", ODD_UNITS[rot], ODD_UNITS[(rot + 4) % 9]] {
        let mut ser = sonic_rs::Serializer::with_formatter(Vec::new(), sonic_rs::format::PrettyFormatter::with_indent(unit));
        if x.serialize(&mut ser).is_ok() {
            let got = ser.into_inner();
            let want = esc::pretty_with(&out, unit);
            if got != want {
                ctx.fail(
                    &format!("pretty-custom-indent-differs:{}", what),
                    format!("indent {:?}: {:?} is not the prescribed re-indentation {:?}", String::from_utf8_lossy(unit), crate::core::truncate(&String::from_utf8_lossy(&got), 300), crate::core::truncate(&String::from_utf8_lossy(&want), 300)),
                );
            }
        } else {
            ctx.fail(&format!("pretty-custom-indent-failed:{}", what), format!("indent {:?}", String::from_utf8_lossy(unit)));
        }
    }
    ctx.ops(21);
    // pretty = re-indented compact
    let want_pretty = esc::pretty(&out);
    if pretty != want_pretty {
        ctx.fail(
            &format!("pretty-differs:{}", what),
            format!("pretty output {:?} is not the prescribed re-indentation {:?}", crate::core::truncate(&String::from_utf8_lossy(&pretty), 300), crate::core::truncate(&String::from_utf8_lossy(&want_pretty), 300)),
        );
    }
    Some(out)
}

/// output is well-formed, every string literal is escaped exactly as specified
fn check_output(ctx: &mut Ctx, what: &str, out: &[u8]) -> Option<recog::Doc> {
    match recog::parse_document(out) {
        Ok(d) => {
            if !d.utf8 || !d.flags.escapes_ok {
                ctx.fail(&format!("output-malformed:{}", what), "output has undecodable escapes or invalid UTF-8".into());
                return None;
            }
            let mut bad: Option<String> = None;
            for_each_string(&d.root, &mut |s| {
                if let K::Str { decoded: Some(t), .. } = &s.k {
                    let want = esc::escape(t);
                    if &out[s.start..s.end] != &want[..] && bad.is_none() {
                        bad = Some(format!("literal {:?} should be {:?}", String::from_utf8_lossy(&out[s.start..s.end]), String::from_utf8_lossy(&want)));
                    }
                }
            });
            if let Some(b) = bad {
                ctx.fail(&format!("escaping-differs:{}", what), b);
            }
            // compact output has no whitespace outside strings
            Some(d)
        }
        Err(e) => {
            ctx.fail(
                &format!("output-malformed:{}", what),
                format!("output is not well-formed JSON at byte {}: {:?}", e.at, crate::core::truncate(&String::from_utf8_lossy(out), 400)),
            );
            None
        }
    }
}

fn check_string(ctx: &mut Ctx, s: &str) {
    // (i) exact-size heap block
    let ex = exact(s.as_bytes());
    let hs = std::str::from_utf8(&ex).unwrap();
    let want = esc::escape(s);
    if let Some(out) = writers(ctx, "str", hs, Ok(&want)) {
        if out != want {
            ctx.fail("escaping-differs:str", format!("to_string(&str) = {:?}, specification says {:?}", String::from_utf8_lossy(&out), String::from_utf8_lossy(&want)));
        }
    }
    // (ii) string that ends on a page boundary before a PROT_NONE page (production over-read path)
    if !ctx.is_instrumented() {
        if let Some(g) = GuardBuf::new(s.as_bytes()) {
            let gs = g.as_str().unwrap();
            ctx.ops(3);
            ctx.class("str:guard-page");
            match sonic_rs::to_string(gs) {
                Ok(o) if o.as_bytes() == &want[..] => {}
                Ok(o) => ctx.fail("escaping-differs:guard-str", format!("guard-page str gave {:?}", o)),
                Err(e) => ctx.fail("ser-error:guard-str", e.to_string()),
            }
            let mut v = Vec::new();
            let _ = sonic_rs::to_writer(&mut v, &[gs, gs]);
            let h = Holder { s: gs, v: vec![gs], o: Some(gs) };
            let _ = sonic_rs::to_string_pretty(&h);
        }
    }
    // (iii) nested, as map key, as variant name via Dyn
    let h = Holder { s: hs, v: vec![hs, "", hs], o: Some(hs) };
    let model = serde_json::to_vec(&h).unwrap();
    if let Some(out) = writers(ctx, "holder", &h, Ok(&model)) {
        if let Some(d) = check_output(ctx, "holder", &out) {
            let md = recog::parse_document(&model).unwrap();
            if let Err(m) = tree_eq(&d.root, &out, &md.root, &model, &mut String::new()) {
                ctx.fail("tree-differs:holder", m);
            }
        }
    }
    let d = Dyn::Map(vec![
        (Key::Str(s.to_string()), Dyn::CollectStr(s.to_string())),
        (Key::Str(format!("{}#", s)), Dyn::Seq(vec![Dyn::Str(s.to_string())])),
        (Key::Str("chars".into()), Dyn::Seq(vec![Dyn::CollectChars(s.to_string(), 0), Dyn::CollectChars(s.to_string(), 1), Dyn::CollectChars(s.to_string(), 2)])),
    ]);
    check_dyn(ctx, &d, false);
}

fn check_dyn(ctx: &mut Ctx, x: &Dyn, failing: bool) {
    let model = serde_json::to_vec(x);
    let expect_err = x.has_bad_key();
    let m: Result<&[u8], ()> = match (&model, expect_err) {
        (Ok(m), false) => Ok(m),
        (Err(_), true) => Err(()),
        (Ok(_), true) => Err(()),
        (Err(e), false) => {
            // the model refuses something the generator thought fine (e.g. float keys): no expectation
            ctx.class("dyn:model-error");
            let _ = e;
            let _ = sonic_rs::to_string(x);
            return;
        }
    };
    let Some(out) = writers(ctx, "dyn", x, m) else { return };
    let Some(d) = check_output(ctx, "dyn", &out) else { return };
    let model = model.unwrap();
    let md = recog::parse_document(&model).expect("serde_json output is well-formed");
    if let Err(msg) = tree_eq(&d.root, &out, &md.root, &model, &mut String::new()) {
        ctx.fail("tree-differs:dyn", format!("{} ; sonic {:?} vs model {:?}", msg, crate::core::truncate(&String::from_utf8_lossy(&out), 300), crate::core::truncate(&String::from_utf8_lossy(&model), 300)));
    }
    if failing {
        let pretty = sonic_rs::to_vec_pretty(x).unwrap_or_default();
        for (pretty_mode, correct) in [(false, &out), (true, &pretty)] {
            for n in 0..correct.len() {
                for chunk in [usize::MAX, 3] {
                    ctx.ops(1);
                    let rec = Rc::new(RefCell::new(Vec::new()));
                    let fa = FailAfter { got: rec.clone(), limit: n, chunk };
                    let mut bw = BufferedWriter::new(fa);
                    let r = if pretty_mode { sonic_rs::to_writer_pretty(&mut bw, x) } else { sonic_rs::to_writer(&mut bw, x) };
                    drop(bw);
                    fail_verdict(ctx, "BufferedWriter", r, &rec.borrow(), correct, n);
                }
            }
            // a transient fault: the k-th write call alone is refused. The error is returned and
            // nothing more is written behind the gap (what the sink holds stays a prefix)
            for k in 0..40 {
                ctx.ops(1);
                let rec = Rc::new(RefCell::new(Vec::new()));
                let at = Rc::new(RefCell::new(None));
                let fc = FailCall { got: rec.clone(), k, calls: 0, at_failure: at.clone() };
                let mut bw = BufferedWriter::new(fc);
                let r = if pretty_mode { sonic_rs::to_writer_pretty(&mut bw, x) } else { sonic_rs::to_writer(&mut bw, x) };
                drop(bw);
                let failed_at = *at.borrow();
                let Some(pos) = failed_at else { break };
                let got = rec.borrow();
                if r.is_ok() {
                    ctx.fail("writer-error-swallowed:transient", format!("write call #{} was refused, to_writer returned Ok", k));
                } else if got.len() != pos || !correct.starts_with(&got) {
                    ctx.fail("written-after-failure:transient", format!("write call #{} was refused after {} bytes; the sink then received more: it holds {:?}, the correct output begins {:?}", k, pos, crate::core::truncate(&String::from_utf8_lossy(&got), 120), crate::core::truncate(&String::from_utf8_lossy(correct), 120)));
                }
            }
            // io::BufWriter over a failing WriteExt: errors may surface at flush
            for n in (0..correct.len()).step_by(3) {
                ctx.ops(1);
                let rec = Rc::new(RefCell::new(Vec::new()));
                let fa = FailAfter { got: rec.clone(), limit: n, chunk: usize::MAX };
                let mut iw = io::BufWriter::with_capacity(16, BufferedWriter::new(fa));
                let r = if pretty_mode { sonic_rs::to_writer_pretty(&mut iw, x) } else { sonic_rs::to_writer(&mut iw, x) };
                let fl = iw.flush();
                let _ = iw.into_parts();
                let got = rec.borrow();
                if r.is_ok() && fl.is_ok() {
                    ctx.fail("writer-error-swallowed:io::BufWriter", format!("writer failing after {} of {} bytes: to_writer and flush both returned Ok", n, correct.len()));
                } else if !correct.starts_with(&got) {
                    ctx.fail("written-not-prefix:io::BufWriter", format!("bytes accepted before the failure {:?} are not a prefix of {:?}", String::from_utf8_lossy(&got), String::from_utf8_lossy(correct)));
                }
            }
        }
        ctx.class("dyn:failing-writers");
    }
}

fn fail_verdict(ctx: &mut Ctx, name: &str, r: sonic_rs::Result<()>, got: &[u8], correct: &[u8], n: usize) {
    match r {
        Ok(()) => ctx.fail(
            &format!("writer-error-swallowed:{}", name),
            format!("writer failing after {} of {} bytes, to_writer returned Ok", n, correct.len()),
        ),
        Err(e) => {
            if e.io_error_kind().is_none() || !e.is_io() {
                ctx.fail(&format!("writer-error-not-io:{}", name), format!("error is not reported as io: {}", e));
            }
        }
    }
    if !correct.starts_with(got) {
        ctx.fail(
            &format!("written-not-prefix:{}", name),
            format!("bytes accepted before the failure {:?} are not a prefix of {:?}", String::from_utf8_lossy(got), String::from_utf8_lossy(correct)),
        );
    }
}

pub const CLASSES: &[(&str, &[&str])] = &[
    ("plain", &["a"]),
    ("quote", &["\""]),
    ("backslash", &["\\"]),
    ("c0", &["\u{0}", "\u{1}", "\u{8}", "\t", "\n", "\u{b}", "\u{c}", "\r", "\u{1f}"]),
    ("del", &["\u{7f}"]),
    ("utf8-2", &["é", "\u{80}", "\u{7ff}"]),
    ("utf8-3", &["日", "\u{800}", "\u{ffff}", "\u{2028}"]),
    ("utf8-4", &["😀", "\u{10000}", "\u{10ffff}"]),
];

impl Check for C05 {
    fn id(&self) -> &'static str {
        "C05"
    }
    fn generate(&self, g: &GenParams, emit: &mut dyn FnMut(Case)) {
        // strings of every length with the special character at every position
        let max_len: usize = if g.tier == Tier::Quick { 200 } else { 4200 };
        let max_len = if g.scale < 0.5 { 80 } else { max_len };
        let mut idx = 0u64;
        let mut r = g.rng(5);
        for len in 0..=max_len {
            // beyond 200, sample lengths around block/page multiples
            if len > 200 && !(len % 32 <= 1 || len % 32 == 31 || len % 4096 <= 2 || len % 4096 >= 4094 || len % 97 == 0) {
                continue;
            }
            for (ci, (_cname, chars)) in CLASSES.iter().enumerate() {
                let positions: Vec<usize> = if len <= 200 && g.tier == Tier::Thorough {
                    (0..len.max(1)).collect()
                } else if len <= 70 {
                    (0..len.max(1)).collect()
                } else {
                    let mut p = vec![0, 1, len / 2, len.saturating_sub(33), len.saturating_sub(32), len.saturating_sub(17), len.saturating_sub(2), len - 1];
                    for _ in 0..6 {
                        p.push(r.range(0, len - 1));
                    }
                    p.sort();
                    p.dedup();
                    p
                };
                for pos in positions {
                    idx += 1;
                    if !g.mine(idx) {
                        continue;
                    }
                    let ch = chars[(pos + len) % chars.len()];
                    emit(Case::with("strgrid", vec![], &[len as i64, pos as i64, ci as i64, (pos + len) as i64 % chars.len() as i64]));
                    let _ = ch;
                }
            }
        }
        // strings of hundreds of KiB to a few MiB (whatever an escaper does differently "for large
        // inputs": chunking, a plain-prefix copy, a smaller reservation), ASCII and multi-byte
        // fillers, one special sequence near the end or none
        if g.scale >= 0.5 {
            for i in 0..(if g.tier == Tier::Quick { 48u64 } else { 240 }) {
                if g.mine(9000 + i) {
                    emit(Case::with("huge", vec![], &[i as i64]));
                }
            }
        }
        // random texts
        let n = g.count(20_000, 600_000);
        for _ in 0..n {
            let t = crate::gen::dynval::rand_text(&mut r);
            emit(Case::new("str", t.into_bytes()));
        }
        // dynamic values through the whole Serializer surface
        let n = g.count(150_000, 6_000_000);
        for k in 0..n {
            emit(Case::with("dyn", vec![], &[r.next() as i64, (k % 7 == 0) as i64]));
        }
        // deeply nested values (parsed documents serialised through every writer, compact and pretty)
        for d in 1..=64usize {
            if g.mine(d as u64) {
                emit(Case::new("nested", crate::gen::doc::nested(&mut r, d)));
            }
        }
        // failing writers on small values
        let n = g.count(1_500, 60_000);
        for _ in 0..n {
            emit(Case::with("fail", vec![], &[r.next() as i64]));
        }
    }
    fn exec(&self, ctx: &mut Ctx, c: &Case) {
        match c.entry.as_str() {
            "strgrid" => {
                let (len, pos, ci, chi) = (c.p(0) as usize, c.p(1) as usize, c.p(2) as usize, c.p(3) as usize);
                let (cname, chars) = CLASSES[ci % CLASSES.len()];
                let ch = chars[chi % chars.len()];
                let mut s = String::with_capacity(len + 4);
                for i in 0..len {
                    if i == pos {
                        s.push_str(ch);
                    } else {
                        s.push((b'a' + (i % 26) as u8) as char);
                    }
                }
                ctx.class(&format!("str:{}", cname));
                if len >= 32 {
                    ctx.class("str:len>=32");
                    ctx.nontrivial();
                } else if pos > 0 || len > 1 {
                    ctx.nontrivial();
                }
                check_string(ctx, &s);
                ctx.sample(cname);
            }
            "huge" => {
                let i = c.p(0) as usize;
                const LENS: [usize; 12] = [262_144, 262_145, 262_151, 262_175, 300_001, (1 << 20) + 5, (4 << 20) + 33, 5_242_883, 65_536, 65_551, 65_567, 131_073 + 16];
                const SPECIALS: [&str; 8] = ["\n", "\"", "\\", "\u{1f}", "\u{0}", "\t", "\r\n", ""];
                const BACK: [usize; 8] = [0, 1, 5, 13, 30, 31, 32, 40];
                let len = LENS[i % 12] + (i / 48) * 3;
                let filler: &[&str] = [&["QUJD", "RUZH", "0123", "abcd"][..], &["中", "文", "字"][..], &["é", "ü", "ñ"][..], &["a", "é", "中", "😀", "bcdefgh"][..]][(i / 2) % 4];
                let special = SPECIALS[(i / 8 + i) % 8];
                let back = BACK[(i * 3 + i / 8) % 8];
                let mut s = String::with_capacity(len + 16);
                let mut k = 0usize;
                while s.len() < len {
                    s.push_str(filler[k % filler.len()]);
                    k += 1;
                }
                // the special sequence `back` bytes before the end (moved to a character boundary)
                let at = (0..=s.len().saturating_sub(back)).rev().find(|p| s.is_char_boundary(*p)).unwrap_or(0);
                s.insert_str(at, special);
                ctx.nontrivial();
                ctx.class("str:huge");
                check_string(ctx, &s);
                ctx.sample("huge");
                if let Some(last) = ctx.samples.last_mut() {
                    last["value"] = serde_json::json!(format!("{} bytes of {:?}…, {:?} {} bytes before the end", s.len(), filler, special, back));
                }
            }
            "str" => {
                let s = String::from_utf8_lossy(&c.input).into_owned();
                if s.len() > 1 {
                    ctx.nontrivial();
                }
                ctx.class("str:random");
                check_string(ctx, &s);
            }
            "dyn" => {
                let mut r = Rng::new(c.p(0) as u64);
                let mut o = DynOpts::default();
                o.bad_keys = c.p(1) != 0;
                o.max_depth = 1 + (c.p(0) as u64 % 4) as usize;
                let x = gen_dyn(&mut r, &o, 0);
                ctx.class("dyn:value");
                if x.has_bad_key() {
                    ctx.class("dyn:bad-key");
                }
                ctx.nontrivial();
                check_dyn(ctx, &x, false);
                if ctx.samples.len() < 12 {
                    ctx.sample("dyn");
                    if let Some(last) = ctx.samples.last_mut() {
                        if last["label"] == "dyn" {
                            last["value"] = serde_json::json!(crate::core::truncate(&format!("{:?}", x), 300));
                        }
                    }
                }
            }
            "nested" => {
                ctx.nontrivial();
                ctx.class("value:nested-document");
                if let Ok(v) = sonic_rs::from_slice::<sonic_rs::Value>(&c.input) {
                    let model = serde_json::from_slice::<serde_json::Value>(&c.input).map(|m| serde_json::to_vec(&m).unwrap_or_default());
                    if let Ok(model) = model {
                        if let Some(out) = writers(ctx, "nested", &v, Ok(&model)) {
                            if let Some(d) = check_output(ctx, "nested", &out) {
                                let md = recog::parse_document(&model).unwrap();
                                if let Err(m) = tree_eq(&d.root, &out, &md.root, &model, &mut String::new()) {
                                    ctx.fail("tree-differs:nested", m);
                                }
                            }
                        }
                    }
                }
                ctx.sample("nested");
            }
            "fail" => {
                let mut r = Rng::new(c.p(0) as u64);
                let mut o = DynOpts::default();
                o.max_depth = 2;
                let x = gen_dyn(&mut r, &o, 0);
                ctx.nontrivial();
                check_dyn(ctx, &x, true);
                ctx.sample("failing-writer");
            }
            _ => {}
        }
    }
    fn required_classes(&self, b: &str, _t: Tier) -> Vec<&'static str> {
        let mut v = vec!["str:quote", "str:c0", "str:utf8-4", "str:len>=32", "dyn:value", "dyn:bad-key", "dyn:failing-writers"];
        if b == "native-rel" {
            v.push("str:guard-page");
            v.push("str:huge");
        }
        v
    }
}
