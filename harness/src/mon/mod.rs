//! One monitor module per property.
pub mod c01;
pub mod c02;
pub mod c03;
pub mod c04;
pub mod c05;
pub mod c06;
pub mod c07;
pub mod c08;
pub mod c09;
pub mod c10;
pub mod c11;
pub mod c12;
pub mod c13;
pub mod c14;
pub mod c15;
pub mod c16;
pub mod c17;
pub mod c18;
pub mod machine;
pub mod c19;
pub mod c20;
pub mod common;

use crate::core::Check;

pub fn registry() -> Vec<&'static dyn Check> {
    vec![&c01::C01, &c02::C02, &c03::C03, &c04::C04, &c05::C05, &c06::C06, &c07::C07, &c08::C08, &c09::C09, &c10::C10, &c11::C11, &c12::C12, &c13::C13, &c14::C14, &c15::C15, &c16::C16, &c17::C17, &c18::C18, &c19::C19, &c20::C20]
}

pub fn find(id: &str) -> Option<&'static dyn Check> {
    registry().into_iter().find(|c| c.id() == id)
}
