//! One monitor module per property.
pub mod c02;
pub mod common;

use crate::core::Check;

pub fn registry() -> Vec<&'static dyn Check> {
    vec![&c02::C02]
}

pub fn find(id: &str) -> Option<&'static dyn Check> {
    registry().into_iter().find(|c| c.id() == id)
}
