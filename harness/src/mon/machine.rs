//! Register machine for the mutable-DOM history checkers (C15, C16): every operation is applied
//! to real `sonic_rs::Value` registers and to a plain model; results and all registers are
//! compared after every step.
use std::collections::BTreeMap;
use std::panic::{catch_unwind, AssertUnwindSafe};

use sonic_rs::{JsonContainerTrait, JsonNumberTrait, JsonValueMutTrait, JsonValueTrait, PointerNode, Value, ValueRef};

use crate::rng::Rng;

#[derive(Clone, Debug, PartialEq)]
pub enum M {
    Null,
    Bool(bool),
    U(u64),
    I(i64),
    F(u64),
    Str(String),
    Arr(Vec<M>),
    Obj(BTreeMap<String, M>),
    /// the real value showed duplicate member names where the model cannot have them
    Broken(String),
}

pub fn dump(v: &Value) -> M {
    match v.as_ref() {
        ValueRef::Null => M::Null,
        ValueRef::Bool(b) => M::Bool(b),
        ValueRef::Number(n) => {
            if n.is_u64() {
                M::U(n.as_u64().unwrap())
            } else if n.is_i64() {
                M::I(n.as_i64().unwrap())
            } else {
                M::F(n.as_f64().unwrap().to_bits())
            }
        }
        ValueRef::String(s) => {
            if std::str::from_utf8(s.as_bytes()).is_err() {
                M::Broken("string not UTF-8".into())
            } else {
                M::Str(s.to_string())
            }
        }
        ValueRef::Array(a) => {
            let items: Vec<M> = a.iter().map(dump).collect();
            if a.len() != items.len() {
                return M::Broken("array len differs from iteration".into());
            }
            M::Arr(items)
        }
        ValueRef::Object(o) => {
            let mut m = BTreeMap::new();
            let mut n = 0;
            for (k, x) in o.iter() {
                n += 1;
                if m.insert(k.to_string(), dump(x)).is_some() {
                    return M::Broken(format!("duplicate member {:?}", k));
                }
            }
            if n != o.len() {
                return M::Broken("object len differs from iteration".into());
            }
            M::Obj(m)
        }
    }
}

pub fn to_json(m: &M) -> String {
    match m {
        M::Null => "null".into(),
        M::Bool(b) => b.to_string(),
        M::U(u) => u.to_string(),
        M::I(i) => i.to_string(),
        M::F(b) => {
            let f = f64::from_bits(*b);
            let s = format!("{:?}", f);
            if s.contains('.') || s.contains('e') || s.contains("inf") || s.contains("NaN") {
                s
            } else {
                format!("{}.0", s)
            }
        }
        M::Str(s) => String::from_utf8(crate::refmodel::esc::escape(s)).unwrap(),
        M::Arr(v) => format!("[{}]", v.iter().map(to_json).collect::<Vec<_>>().join(",")),
        M::Obj(o) => format!("{{{}}}", o.iter().map(|(k, v)| format!("{}:{}", String::from_utf8(crate::refmodel::esc::escape(k)).unwrap(), to_json(v))).collect::<Vec<_>>().join(",")),
        M::Broken(s) => format!("<broken: {}>", s),
    }
}

/// a small scalar/compound value used as operand
#[derive(Clone, Debug)]
pub enum Lit {
    Null,
    Bool(bool),
    U(u64),
    I(i64),
    F(f64),
    Str(String),
    /// JSON text parsed into a (rooted) Value
    Json(String),
    /// built with the mutation API
    Built(String),
}

impl Lit {
    pub fn model(&self) -> M {
        match self {
            Lit::Null => M::Null,
            Lit::Bool(b) => M::Bool(*b),
            Lit::U(u) => M::U(*u),
            Lit::I(i) => {
                if *i >= 0 {
                    M::U(*i as u64)
                } else {
                    M::I(*i)
                }
            }
            Lit::F(f) => M::F(f.to_bits()),
            Lit::Str(s) => M::Str(s.clone()),
            Lit::Json(t) | Lit::Built(t) => dump(&sonic_rs::from_str::<Value>(t).expect("literal json")),
        }
    }
    pub fn value(&self) -> Value {
        match self {
            Lit::Null => Value::new(),
            Lit::Bool(b) => Value::from(*b),
            Lit::U(u) => Value::from(*u),
            Lit::I(i) => Value::from(*i),
            Lit::F(f) => Value::new_f64(*f).unwrap_or_default(),
            Lit::Str(s) => Value::from(s.as_str()),
            Lit::Json(t) => sonic_rs::from_str::<Value>(t).expect("literal json"),
            Lit::Built(t) => build(&sonic_rs::from_str::<Value>(t).expect("literal json")),
        }
    }
}

/// rebuild through the owned-container API (no arena)
pub fn build(v: &Value) -> Value {
    if let Some(a) = v.as_array() {
        let mut out = sonic_rs::Array::new();
        for x in a.iter() {
            out.push(build(x));
        }
        out.into_value()
    } else if let Some(o) = v.as_object() {
        let mut out = sonic_rs::Object::new();
        for (k, x) in o.iter() {
            out.insert(k, build(x));
        }
        out.into_value()
    } else if let Some(s) = v.as_str() {
        Value::from(s)
    } else {
        v.clone()
    }
}

pub const LIT_JSON: &[&str] = &[
    "[]",
    "{}",
    "[1,\"a\",null]",
    "{\"a\":1,\"b\":[2,{\"c\":\"x\"}]}",
    "[[],[[1]],{\"k\":[true]}]",
    "{\"k\":{\"k\":{\"k\":0}},\"\":\"\"}",
    "\"str\\n\"",
    "-5",
    "1.5",
    "[0,1,2,3,4,5,6,7,8,9]",
    "{\"a\":\"A\",\"b\":\"B\",\"c\":\"C\",\"d\":\"D\"}",
];

pub const KEYS: &[&str] = &["a", "b", "c", "k", "", "new", "quote\"", "日本"];

pub fn rand_lit(r: &mut Rng) -> Lit {
    match r.below(10) {
        0 => Lit::Null,
        1 => Lit::Bool(r.chance(1, 2)),
        2 => Lit::U(r.next() >> r.below(64)),
        3 => Lit::I(-((r.next() >> (1 + r.below(63))) as i64)),
        4 => Lit::F(*r.pick(&[0.5, -0.0, 1e300, 2.5e-5, 1.0])),
        5 => Lit::Str((*r.pick(&["", "s", "longer string value ............................ end", "é\"\\"])).to_string()),
        6 | 7 => Lit::Json((*r.pick(LIT_JSON)).to_string()),
        _ => Lit::Built((*r.pick(LIT_JSON)).to_string()),
    }
}

#[derive(Clone, Debug)]
pub enum PathEl {
    K(String),
    I(usize),
}

#[derive(Clone, Debug)]
pub enum Op {
    // registers
    Set(usize, Lit),
    Clone(usize, usize),
    Take(usize, usize),
    Swap(usize, usize),
    /// dst = clone of src.pointer(path) (or unchanged when the path does not resolve)
    CloneSub(usize, Vec<PathEl>, usize),
    /// dst = take of src.pointer_mut(path)
    TakeSub(usize, Vec<PathEl>, usize),
    /// *src.pointer_mut(path) = lit
    SetSub(usize, Vec<PathEl>, Lit),
    /// reg[key] = lit  (IndexMut: inserts into objects / null, panics otherwise)
    IndexKeySet(usize, String, Lit),
    /// reg[idx] = lit  (IndexMut: panics when out of range / not an array)
    IndexIdxSet(usize, usize, Lit),
    GetMutSet(usize, PathEl, Lit),
    // arrays (on the sub-value at path)
    Push(usize, Vec<PathEl>, Lit),
    Pop(usize, Vec<PathEl>),
    Insert(usize, Vec<PathEl>, usize, Lit),
    Remove(usize, Vec<PathEl>, usize),
    SwapRemove(usize, Vec<PathEl>, usize),
    Truncate(usize, Vec<PathEl>, usize),
    Clear(usize, Vec<PathEl>),
    RetainNonNull(usize, Vec<PathEl>),
    RetainMutEven(usize, Vec<PathEl>),
    SplitOff(usize, Vec<PathEl>, usize, usize),
    AppendFrom(usize, usize),
    Drain(usize, Vec<PathEl>, usize, usize),
    ExtendFromWithin(usize, Vec<PathEl>, usize, usize),
    /// the same with every kind of range bound: (0 included, 1 excluded, 2 unbounded; position)
    DrainBounds(usize, Vec<PathEl>, (u8, usize), (u8, usize)),
    ExtendFromWithinBounds(usize, Vec<PathEl>, (u8, usize), (u8, usize)),
    Resize(usize, Vec<PathEl>, usize, Lit),
    ResizeWith(usize, Vec<PathEl>, usize),
    IterMutSet(usize, Vec<PathEl>, Lit),
    Reverse(usize, Vec<PathEl>),
    IntoIterCollect(usize, usize),
    ExtendIter(usize, Vec<PathEl>, Vec<Lit>),
    // objects
    ObjInsert(usize, Vec<PathEl>, String, Lit),
    ObjRemove(usize, Vec<PathEl>, String),
    ObjRemoveEntry(usize, Vec<PathEl>, String),
    ObjGetMutSet(usize, Vec<PathEl>, String, Lit),
    EntryOrInsert(usize, Vec<PathEl>, String, Lit),
    EntryOrInsertWith(usize, Vec<PathEl>, String, Lit),
    EntryOrDefault(usize, Vec<PathEl>, String),
    EntryAndModify(usize, Vec<PathEl>, String, Lit),
    EntryOccupiedInsert(usize, Vec<PathEl>, String, Lit),
    EntryOccupiedRemove(usize, Vec<PathEl>, String),
    ObjRetainKeyLt(usize, Vec<PathEl>, String),
    ObjAppendFrom(usize, usize),
    ObjIterMutSet(usize, Vec<PathEl>, Lit),
    ObjClear(usize, Vec<PathEl>),
    ValueInsert(usize, String, Lit),
    ValueAppend(usize, Lit),
    /// o[&key] = lit through the Object wrapper (inserts when missing)
    ObjIndexMutSet(usize, Vec<PathEl>, String, Lit),
    /// a[idx] = lit through the Array wrapper (panics when out of range)
    ArrIndexMutSet(usize, Vec<PathEl>, usize, Lit),
    EntryOrInsertWithKey(usize, Vec<PathEl>, String),
    /// values_mut() / `for (_, v) in &mut obj`
    ValuesMutSet(usize, Vec<PathEl>, Lit),
    /// dst = [front items.., back items.., rest..] taken through Array::into_iter from both ends
    IntoIterMixed(usize, usize, usize, usize),
    // reads
    Read(usize, Vec<PathEl>),
    /// read-only queries of an object: contains_key/get/get_key_value/keys/values/len/Index
    ObjProbe(usize, Vec<PathEl>, String),
    /// read-only queries of an array: get/first/last/Index/ranges/iterators
    ArrProbe(usize, Vec<PathEl>, usize, usize, usize),
    /// Value-level Index by key and position, conversions, Debug/Display
    ValProbe(usize, Vec<PathEl>, String, usize),
}

pub const NREG: usize = 4;

/// outcome of one op on either side (for comparison)
#[derive(Debug, PartialEq, Clone)]
pub enum Out {
    Unit,
    Bool(bool),
    Len(usize),
    Val(Option<M>),
    Vals(Vec<M>),
    KeyVal(Option<(String, M)>),
    Panicked,
    Text(String),
}

fn to_ptr(p: &[PathEl]) -> Vec<PointerNode> {
    p.iter()
        .map(|e| match e {
            PathEl::K(k) => PointerNode::Key(faststr::FastStr::new(k)),
            PathEl::I(i) => PointerNode::Index(*i),
        })
        .collect()
}

fn m_at<'a>(m: &'a M, p: &[PathEl]) -> Option<&'a M> {
    let mut cur = m;
    for e in p {
        cur = match (cur, e) {
            (M::Arr(v), PathEl::I(i)) => v.get(*i)?,
            (M::Obj(o), PathEl::K(k)) => o.get(k)?,
            _ => return None,
        };
    }
    Some(cur)
}

fn m_at_mut<'a>(m: &'a mut M, p: &[PathEl]) -> Option<&'a mut M> {
    let mut cur = m;
    for e in p {
        cur = match (cur, e) {
            (M::Arr(v), PathEl::I(i)) => v.get_mut(*i)?,
            (M::Obj(o), PathEl::K(k)) => o.get_mut(k)?,
            _ => return None,
        };
    }
    Some(cur)
}

pub struct Machine {
    pub regs: Vec<Value>,
    pub model: Vec<M>,
}

fn bound(b: &(u8, usize)) -> std::ops::Bound<usize> {
    match b.0 {
        0 => std::ops::Bound::Included(b.1),
        1 => std::ops::Bound::Excluded(b.1),
        _ => std::ops::Bound::Unbounded,
    }
}

fn guarded<R>(f: impl FnOnce() -> R) -> Result<R, ()> {
    catch_unwind(AssertUnwindSafe(f)).map_err(|_| {
        let _ = crate::core::take_panic();
    })
}

impl Machine {
    pub fn new() -> Self {
        Machine { regs: (0..NREG).map(|_| Value::new()).collect(), model: vec![M::Null; NREG] }
    }

    /// apply to the model; returns the expected outcome (Panicked = the documented panic / refusal)
    pub fn step_model(&mut self, op: &Op) -> Out {
        use Op::*;
        let md = &mut self.model;
        macro_rules! arr {
            ($r:expr, $p:expr) => {
                match m_at_mut(&mut md[*$r], $p) {
                    Some(M::Arr(v)) => v,
                    _ => return Out::Val(None),
                }
            };
        }
        macro_rules! obj {
            ($r:expr, $p:expr) => {
                match m_at_mut(&mut md[*$r], $p) {
                    Some(M::Obj(o)) => o,
                    _ => return Out::Val(None),
                }
            };
        }
        match op {
            Set(r, l) => {
                md[*r] = l.model();
                Out::Unit
            }
            Clone(s, d) => {
                md[*d] = md[*s].clone();
                Out::Unit
            }
            Take(s, d) => {
                let t = std::mem::replace(&mut md[*s], M::Null);
                md[*d] = t;
                Out::Unit
            }
            Swap(a, b) => {
                md.swap(*a, *b);
                Out::Unit
            }
            CloneSub(s, p, d) => match m_at(&md[*s], p).cloned() {
                Some(x) => {
                    md[*d] = x.clone();
                    Out::Val(Some(x))
                }
                None => Out::Val(None),
            },
            TakeSub(s, p, d) => {
                if s == d {
                    return Out::Val(None);
                }
                match m_at_mut(&mut md[*s], p) {
                    Some(x) => {
                        let t = std::mem::replace(x, M::Null);
                        md[*d] = t.clone();
                        Out::Val(Some(t))
                    }
                    None => Out::Val(None),
                }
            }
            SetSub(r, p, l) => match m_at_mut(&mut md[*r], p) {
                Some(x) => {
                    *x = l.model();
                    Out::Bool(true)
                }
                None => Out::Bool(false),
            },
            IndexKeySet(r, k, l) => match &mut md[*r] {
                M::Obj(o) => {
                    o.insert(k.clone(), l.model());
                    Out::Unit
                }
                M::Null => {
                    let mut o = BTreeMap::new();
                    o.insert(k.clone(), l.model());
                    md[*r] = M::Obj(o);
                    Out::Unit
                }
                _ => Out::Panicked,
            },
            IndexIdxSet(r, i, l) => match &mut md[*r] {
                M::Arr(v) if *i < v.len() => {
                    v[*i] = l.model();
                    Out::Unit
                }
                _ => Out::Panicked,
            },
            GetMutSet(r, e, l) => match m_at_mut(&mut md[*r], std::slice::from_ref(e)) {
                Some(x) => {
                    *x = l.model();
                    Out::Bool(true)
                }
                None => Out::Bool(false),
            },
            Push(r, p, l) => {
                arr!(r, p).push(l.model());
                Out::Unit
            }
            Pop(r, p) => Out::Val(Some(arr!(r, p).pop().unwrap_or(M::Broken("none".into())))),
            Insert(r, p, i, l) => {
                let v = arr!(r, p);
                if *i > v.len() {
                    return Out::Panicked;
                }
                v.insert(*i, l.model());
                Out::Unit
            }
            Remove(r, p, i) => {
                let v = arr!(r, p);
                if *i >= v.len() {
                    return Out::Panicked;
                }
                v.remove(*i);
                Out::Unit
            }
            SwapRemove(r, p, i) => {
                let v = arr!(r, p);
                if *i >= v.len() {
                    return Out::Panicked;
                }
                Out::Val(Some(v.swap_remove(*i)))
            }
            Truncate(r, p, n) => {
                arr!(r, p).truncate(*n);
                Out::Unit
            }
            Clear(r, p) => {
                arr!(r, p).clear();
                Out::Unit
            }
            RetainNonNull(r, p) => {
                arr!(r, p).retain(|x| *x != M::Null);
                Out::Unit
            }
            RetainMutEven(r, p) => {
                let v = arr!(r, p);
                let mut i = 0;
                v.retain_mut(|x| {
                    i += 1;
                    if i % 2 == 0 {
                        false
                    } else {
                        if let M::U(u) = x {
                            *u = u.wrapping_add(1);
                        }
                        true
                    }
                });
                Out::Unit
            }
            SplitOff(r, p, at, d) => {
                if r == d {
                    return Out::Val(None);
                }
                let v = arr!(r, p);
                if *at > v.len() {
                    return Out::Panicked;
                }
                let t = v.split_off(*at);
                md[*d] = M::Arr(t);
                Out::Unit
            }
            AppendFrom(r, o) => {
                if r == o {
                    return Out::Val(None);
                }
                let other = match &mut md[*o] {
                    M::Arr(v) => std::mem::take(v),
                    _ => return Out::Val(None),
                };
                match &mut md[*r] {
                    M::Arr(v) => {
                        v.extend(other);
                        Out::Unit
                    }
                    _ => {
                        md[*o] = M::Arr(other);
                        Out::Val(None)
                    }
                }
            }
            Drain(r, p, a, b) => {
                let v = arr!(r, p);
                if a > b || *b > v.len() {
                    return Out::Panicked;
                }
                Out::Vals(v.drain(*a..*b).collect())
            }
            ExtendFromWithin(r, p, a, b) => {
                let v = arr!(r, p);
                if a > b || *b > v.len() {
                    return Out::Panicked;
                }
                v.extend_from_within(*a..*b);
                Out::Unit
            }
            // (the model is Vec itself, bounds and panics included)
            DrainBounds(r, p, a, b) => {
                let v = arr!(r, p);
                match guarded(|| v.drain((bound(a), bound(b))).collect::<Vec<_>>()) {
                    Ok(d) => Out::Vals(d),
                    Err(()) => Out::Panicked,
                }
            }
            ExtendFromWithinBounds(r, p, a, b) => {
                let v = arr!(r, p);
                match guarded(|| v.extend_from_within((bound(a), bound(b)))) {
                    Ok(()) => Out::Unit,
                    Err(()) => Out::Panicked,
                }
            }
            Resize(r, p, n, l) => {
                arr!(r, p).resize(*n, l.model());
                Out::Unit
            }
            ResizeWith(r, p, n) => {
                let v = arr!(r, p);
                let mut c = 100u64;
                v.resize_with(*n, || {
                    c += 1;
                    M::U(c)
                });
                Out::Unit
            }
            IterMutSet(r, p, l) => {
                for x in arr!(r, p).iter_mut() {
                    if !matches!(x, M::Arr(_) | M::Obj(_)) {
                        *x = l.model();
                    }
                }
                Out::Unit
            }
            Reverse(r, p) => {
                arr!(r, p).reverse();
                Out::Unit
            }
            IntoIterCollect(s, d) => {
                if s == d {
                    return Out::Val(None);
                }
                match std::mem::replace(&mut md[*s], M::Null) {
                    M::Arr(v) => {
                        let mut v = v;
                        v.reverse();
                        md[*d] = M::Arr(v);
                        Out::Unit
                    }
                    other => {
                        md[*s] = other;
                        Out::Val(None)
                    }
                }
            }
            ExtendIter(r, p, ls) => {
                arr!(r, p).extend(ls.iter().map(|l| l.model()));
                Out::Unit
            }
            ObjInsert(r, p, k, l) => Out::Val(obj!(r, p).insert(k.clone(), l.model())),
            ObjRemove(r, p, k) => Out::Val(obj!(r, p).remove(k)),
            ObjRemoveEntry(r, p, k) => Out::KeyVal(obj!(r, p).remove(k).map(|v| (k.clone(), v))),
            ObjGetMutSet(r, p, k, l) => match obj!(r, p).get_mut(k) {
                Some(x) => {
                    *x = l.model();
                    Out::Bool(true)
                }
                None => Out::Bool(false),
            },
            EntryOrInsert(r, p, k, l) | EntryOrInsertWith(r, p, k, l) => Out::Val(Some(obj!(r, p).entry(k.clone()).or_insert(l.model()).clone())),
            EntryOrDefault(r, p, k) => Out::Val(Some(obj!(r, p).entry(k.clone()).or_insert(M::Null).clone())),
            EntryAndModify(r, p, k, l) => {
                let o = obj!(r, p);
                let lm = l.model();
                o.entry(k.clone()).and_modify(|x| *x = lm.clone()).or_insert(M::Str("vacant".into()));
                Out::Unit
            }
            EntryOccupiedInsert(r, p, k, l) => {
                let o = obj!(r, p);
                match o.get_mut(k) {
                    Some(x) => Out::Val(Some(std::mem::replace(x, l.model()))),
                    None => {
                        o.insert(k.clone(), l.model());
                        Out::Val(None)
                    }
                }
            }
            EntryOccupiedRemove(r, p, k) => Out::Val(obj!(r, p).remove(k)),
            ObjRetainKeyLt(r, p, k) => {
                obj!(r, p).retain(|kk, _| kk.as_str() < k.as_str());
                Out::Unit
            }
            ObjAppendFrom(r, o) => {
                if r == o {
                    return Out::Val(None);
                }
                let other = match &mut md[*o] {
                    M::Obj(v) => std::mem::take(v),
                    _ => return Out::Val(None),
                };
                match &mut md[*r] {
                    M::Obj(v) => {
                        v.extend(other);
                        Out::Unit
                    }
                    _ => {
                        md[*o] = M::Obj(other);
                        Out::Val(None)
                    }
                }
            }
            ObjIterMutSet(r, p, l) => {
                for (_, x) in obj!(r, p).iter_mut() {
                    if !matches!(x, M::Arr(_) | M::Obj(_)) {
                        *x = l.model();
                    }
                }
                Out::Unit
            }
            ObjClear(r, p) => {
                obj!(r, p).clear();
                Out::Unit
            }
            ValueInsert(r, k, l) => match &mut md[*r] {
                M::Obj(o) => {
                    o.insert(k.clone(), l.model());
                    Out::Unit
                }
                _ => Out::Val(None),
            },
            ValueAppend(r, l) => match &mut md[*r] {
                M::Arr(v) => {
                    v.push(l.model());
                    Out::Unit
                }
                _ => Out::Val(None),
            },
            ObjIndexMutSet(r, p, k, l) => {
                obj!(r, p).insert(k.clone(), l.model());
                Out::Unit
            }
            ArrIndexMutSet(r, p, i, l) => {
                let v = arr!(r, p);
                if *i < v.len() {
                    v[*i] = l.model();
                    Out::Unit
                } else {
                    Out::Panicked
                }
            }
            EntryOrInsertWithKey(r, p, k) => Out::Val(Some(obj!(r, p).entry(k.clone()).or_insert_with(|| M::Str(k.clone())).clone())),
            ValuesMutSet(r, p, l) => {
                for x in obj!(r, p).values_mut() {
                    if matches!(x, M::Null | M::Bool(_)) {
                        *x = l.model();
                    }
                }
                Out::Unit
            }
            IntoIterMixed(s, d, nf, nb) => {
                if s == d {
                    return Out::Val(None);
                }
                match std::mem::replace(&mut md[*s], M::Null) {
                    M::Arr(v) => {
                        let mut it = v.into_iter();
                        let mut log = String::new();
                        let mut out = vec![];
                        for _ in 0..*nf {
                            log.push_str(&format!("{}{:?};", it.len(), it.size_hint()));
                            if let Some(x) = it.next() {
                                out.push(x);
                            }
                        }
                        // a clone of the iterator is an independent iterator over what is left
                        let twin = it.clone();
                        for _ in 0..*nb {
                            log.push_str(&format!("{}{:?};", it.len(), it.size_hint()));
                            if let Some(x) = it.next_back() {
                                out.push(x);
                            }
                        }
                        log.push_str(&format!("{}{:?};", it.len(), it.size_hint()));
                        out.extend(it);
                        out.push(M::Arr(twin.collect()));
                        md[*d] = M::Arr(out);
                        Out::Text(log)
                    }
                    other => {
                        md[*s] = other;
                        Out::Val(None)
                    }
                }
            }
            ObjProbe(r, p, k) => match m_at(&md[*r], p) {
                Some(M::Obj(o)) => Out::Text(format!(
                    "contains={} get={} kv={} empty={} len={} keys={:?} counts={:?} index={}",
                    o.contains_key(k),
                    o.get(k).map(to_json).unwrap_or("none".into()),
                    o.get_key_value(k).map(|(a, b)| format!("{:?}:{}", a, to_json(b))).unwrap_or("none".into()),
                    o.is_empty(),
                    o.len(),
                    o.keys().collect::<Vec<_>>(),
                    [o.len(); 5],
                    o.get(k).map(to_json).unwrap_or("panic".into()),
                )),
                _ => Out::Val(None),
            },
            ArrProbe(r, p, i, a, b) => match m_at(&md[*r], p) {
                Some(M::Arr(v)) => {
                    let js = |x: Option<&M>| x.map(to_json).unwrap_or("none".into());
                    Out::Text(format!(
                        "empty={} len={} get={} first={} last={} index={} range={} counts={:?} rev={}",
                        v.is_empty(),
                        v.len(),
                        js(v.get(*i)),
                        js(v.first()),
                        js(v.last()),
                        v.get(*i).map(to_json).unwrap_or("panic".into()),
                        v.get(*a..*b).map(|s| to_json(&M::Arr(s.to_vec()))).unwrap_or("panic".into()),
                        [v.len(); 4],
                        to_json(&M::Arr(v.iter().rev().cloned().collect())),
                    ))
                }
                _ => Out::Val(None),
            },
            ValProbe(r, p, k, i) => match m_at(&md[*r], p) {
                Some(x) => {
                    let by_key = match x {
                        M::Obj(o) => o.get(k),
                        _ => None,
                    };
                    let by_idx = match x {
                        M::Arr(v) => v.get(*i),
                        _ => None,
                    };
                    Out::Text(format!(
                        "key={} idx={} getk={} geti={} obj={} arr={} text={}",
                        by_key.map(to_json).unwrap_or("null".into()),
                        by_idx.map(to_json).unwrap_or("null".into()),
                        by_key.map(to_json).unwrap_or("none".into()),
                        by_idx.map(to_json).unwrap_or("none".into()),
                        matches!(x, M::Obj(_)),
                        matches!(x, M::Arr(_)),
                        to_json(x),
                    ))
                }
                None => Out::Val(None),
            },
            Read(r, p) => {
                let x = m_at(&md[*r], p);
                Out::Text(match x {
                    None => "none".into(),
                    Some(x) => format!(
                        "{}|len={:?}|{}",
                        match x {
                            M::Null => "null",
                            M::Bool(_) => "bool",
                            M::U(_) | M::I(_) | M::F(_) => "number",
                            M::Str(_) => "string",
                            M::Arr(_) => "array",
                            M::Obj(_) => "object",
                            M::Broken(_) => "broken",
                        },
                        match x {
                            M::Arr(v) => Some(v.len()),
                            M::Obj(o) => Some(o.len()),
                            _ => None,
                        },
                        to_json(x)
                    ),
                })
            }
        }
    }

    /// apply to the real values
    pub fn step_real(&mut self, op: &Op) -> Out {
        use Op::*;
        let rg = &mut self.regs;
        macro_rules! arr {
            ($r:expr, $p:expr) => {
                match rg[*$r].pointer_mut(&to_ptr($p)).and_then(|x| x.as_array_mut()) {
                    Some(a) => a,
                    None => return Out::Val(None),
                }
            };
        }
        macro_rules! obj {
            ($r:expr, $p:expr) => {
                match rg[*$r].pointer_mut(&to_ptr($p)).and_then(|x| x.as_object_mut()) {
                    Some(o) => o,
                    None => return Out::Val(None),
                }
            };
        }
        macro_rules! may_panic {
            ($e:expr) => {
                match guarded(|| $e) {
                    Ok(v) => v,
                    Err(()) => return Out::Panicked,
                }
            };
        }
        match op {
            Set(r, l) => {
                rg[*r] = l.value();
                Out::Unit
            }
            Clone(s, d) => {
                let c = rg[*s].clone();
                rg[*d] = c;
                Out::Unit
            }
            Take(s, d) => {
                let t = rg[*s].take();
                rg[*d] = t;
                Out::Unit
            }
            Swap(a, b) => {
                rg.swap(*a, *b);
                Out::Unit
            }
            CloneSub(s, p, d) => match rg[*s].pointer(&to_ptr(p)).cloned() {
                Some(x) => {
                    let m = dump(&x);
                    rg[*d] = x;
                    Out::Val(Some(m))
                }
                None => Out::Val(None),
            },
            TakeSub(s, p, d) => {
                if s == d {
                    return Out::Val(None);
                }
                match rg[*s].pointer_mut(&to_ptr(p)).map(|x| x.take()) {
                    Some(x) => {
                        let m = dump(&x);
                        rg[*d] = x;
                        Out::Val(Some(m))
                    }
                    None => Out::Val(None),
                }
            }
            SetSub(r, p, l) => match rg[*r].pointer_mut(&to_ptr(p)) {
                Some(x) => {
                    *x = l.value();
                    Out::Bool(true)
                }
                None => Out::Bool(false),
            },
            IndexKeySet(r, k, l) => {
                let v = l.value();
                let reg = &mut rg[*r];
                // the index carrier varies with the key (str, String, &String, FastStr, PointerNode)
                let form = k.len() % 5;
                may_panic!({
                    match form {
                        0 => reg[k.as_str()] = v,
                        1 => reg[&&k.clone()] = v,
                        2 => reg[k] = v,
                        3 => reg[&faststr::FastStr::new(k)] = v,
                        _ => reg[PointerNode::Key(faststr::FastStr::new(k))] = v,
                    }
                });
                Out::Unit
            }
            IndexIdxSet(r, i, l) => {
                let v = l.value();
                let reg = &mut rg[*r];
                may_panic!({
                    match *i % 3 {
                        0 => reg[*i] = v,
                        1 => reg[i] = v,
                        _ => reg[PointerNode::Index(*i)] = v,
                    }
                });
                Out::Unit
            }
            GetMutSet(r, e, l) => {
                let x = match e {
                    PathEl::K(k) if k.len() % 2 == 0 => rg[*r].get_mut(k.as_str()),
                    PathEl::K(k) => rg[*r].get_mut(&PointerNode::from(k.as_str())),
                    PathEl::I(i) if *i % 2 == 0 => rg[*r].get_mut(*i),
                    PathEl::I(i) => rg[*r].get_mut(PointerNode::from(i)),
                };
                match x {
                    Some(x) => {
                        *x = l.value();
                        Out::Bool(true)
                    }
                    None => Out::Bool(false),
                }
            }
            Push(r, p, l) => {
                arr!(r, p).push(l.value());
                Out::Unit
            }
            Pop(r, p) => Out::Val(Some(arr!(r, p).pop().map(|x| dump(&x)).unwrap_or(M::Broken("none".into())))),
            Insert(r, p, i, l) => {
                let a = arr!(r, p);
                let v = l.value();
                may_panic!(a.insert(*i, v));
                Out::Unit
            }
            Remove(r, p, i) => {
                let a = arr!(r, p);
                may_panic!(a.remove(*i));
                Out::Unit
            }
            SwapRemove(r, p, i) => {
                let a = arr!(r, p);
                Out::Val(Some(dump(&may_panic!(a.swap_remove(*i)))))
            }
            Truncate(r, p, n) => {
                arr!(r, p).truncate(*n);
                Out::Unit
            }
            Clear(r, p) => {
                arr!(r, p).clear();
                Out::Unit
            }
            RetainNonNull(r, p) => {
                arr!(r, p).retain(|x| !x.is_null());
                Out::Unit
            }
            RetainMutEven(r, p) => {
                let mut i = 0;
                arr!(r, p).retain_mut(|x| {
                    i += 1;
                    if i % 2 == 0 {
                        false
                    } else {
                        if x.is_u64() {
                            *x = Value::from(x.as_u64().unwrap().wrapping_add(1));
                        }
                        true
                    }
                });
                Out::Unit
            }
            SplitOff(r, p, at, d) => {
                if r == d {
                    return Out::Val(None);
                }
                let a = arr!(r, p);
                let t = may_panic!(a.split_off(*at));
                rg[*d] = t.into_value();
                Out::Unit
            }
            AppendFrom(r, o) => {
                if r == o {
                    return Out::Val(None);
                }
                let (a, b) = two(rg, *r, *o);
                match (a.as_array_mut(), b.as_array_mut()) {
                    (Some(x), Some(y)) => {
                        x.append(y);
                        Out::Unit
                    }
                    _ => Out::Val(None),
                }
            }
            Drain(r, p, a, b) => {
                let arr = arr!(r, p);
                Out::Vals(may_panic!(arr.drain(*a..*b).map(|x| dump(&x)).collect::<Vec<_>>()))
            }
            ExtendFromWithin(r, p, a, b) => {
                let arr = arr!(r, p);
                may_panic!(arr.extend_from_within(*a..*b));
                Out::Unit
            }
            DrainBounds(r, p, a, b) => {
                let arr = arr!(r, p);
                Out::Vals(may_panic!(arr.drain((bound(a), bound(b))).map(|x| dump(&x)).collect::<Vec<_>>()))
            }
            ExtendFromWithinBounds(r, p, a, b) => {
                let arr = arr!(r, p);
                may_panic!(arr.extend_from_within((bound(a), bound(b))));
                Out::Unit
            }
            Resize(r, p, n, l) => {
                arr!(r, p).resize(*n, l.value());
                Out::Unit
            }
            ResizeWith(r, p, n) => {
                let mut c = 100u64;
                arr!(r, p).resize_with(*n, || {
                    c += 1;
                    Value::from(c)
                });
                Out::Unit
            }
            IterMutSet(r, p, l) => {
                for x in arr!(r, p).iter_mut() {
                    if !x.is_array() && !x.is_object() {
                        *x = l.value();
                    }
                }
                Out::Unit
            }
            Reverse(r, p) => {
                arr!(r, p).as_mut_slice().reverse();
                Out::Unit
            }
            IntoIterCollect(s, d) => {
                if s == d {
                    return Out::Val(None);
                }
                if !rg[*s].is_array() {
                    return Out::Val(None);
                }
                let a = rg[*s].take().into_array().expect("array");
                let want_len = a.len();
                let mut it = a.into_iter();
                // the iterator's views are usable before anything was taken
                if it.as_slice().len() != want_len || it.as_mut_slice().len() != want_len {
                    return Out::Text("IntoIter::as_slice length differs".into());
                }
                let mut items: Vec<Value> = vec![];
                if let Some(last) = it.next_back() {
                    for x in it.by_ref() {
                        items.push(x);
                    }
                    items.push(last);
                }
                items.reverse();
                rg[*d] = Value::from(items);
                Out::Unit
            }
            ExtendIter(r, p, ls) => {
                let vals: Vec<Value> = ls.iter().map(|l| l.value()).collect();
                arr!(r, p).extend(&vals);
                Out::Unit
            }
            ObjInsert(r, p, k, l) => Out::Val(obj!(r, p).insert(k.as_str(), l.value()).map(|x| dump(&x))),
            ObjRemove(r, p, k) => Out::Val(obj!(r, p).remove(&k.as_str()).map(|x| dump(&x))),
            ObjRemoveEntry(r, p, k) => Out::KeyVal(obj!(r, p).remove_entry(k).map(|(kk, x)| (kk.to_string(), dump(&x)))),
            ObjGetMutSet(r, p, k, l) => match obj!(r, p).get_mut(k) {
                Some(x) => {
                    *x = l.value();
                    Out::Bool(true)
                }
                None => Out::Bool(false),
            },
            EntryOrInsert(r, p, k, l) => Out::Val(Some(dump(obj!(r, p).entry(k.as_str()).or_insert(l.value())))),
            EntryOrInsertWith(r, p, k, l) => Out::Val(Some(dump(obj!(r, p).entry(k.as_str()).or_insert_with(|| l.value())))),
            EntryOrDefault(r, p, k) => Out::Val(Some(dump(obj!(r, p).entry(k.as_str()).or_default()))),
            EntryAndModify(r, p, k, l) => {
                let lv = l.value();
                let o = obj!(r, p);
                // Entry::key() names the member, occupied or vacant, whatever kind the value has
                let named = may_panic!(o.entry(k.as_str()).key().to_string());
                if named != *k {
                    return Out::Text(format!("Entry::key() = {:?} for entry({:?})", named, k));
                }
                o.entry(k.as_str()).and_modify(|x| *x = lv.clone()).or_insert("vacant");
                Out::Unit
            }
            EntryOccupiedInsert(r, p, k, l) => match obj!(r, p).entry(k.as_str()) {
                sonic_rs::value::object::Entry::Occupied(mut e) => {
                    let _ = e.get();
                    let _ = e.get_mut();
                    Out::Val(Some(dump(&e.insert(l.value()))))
                }
                sonic_rs::value::object::Entry::Vacant(e) => {
                    if e.key() != k.as_str() {
                        return Out::Text(format!("vacant key {:?}", e.key()));
                    }
                    e.insert(l.value());
                    Out::Val(None)
                }
            },
            EntryOccupiedRemove(r, p, k) => match obj!(r, p).entry(k.as_str()) {
                sonic_rs::value::object::Entry::Occupied(e) => Out::Val(Some(dump(&e.remove()))),
                sonic_rs::value::object::Entry::Vacant(_) => Out::Val(None),
            },
            ObjRetainKeyLt(r, p, k) => {
                obj!(r, p).retain(|kk, _| kk < k.as_str());
                Out::Unit
            }
            ObjAppendFrom(r, o) => {
                if r == o {
                    return Out::Val(None);
                }
                let (a, b) = two(rg, *r, *o);
                match (a.as_object_mut(), b.as_object_mut()) {
                    (Some(x), Some(y)) => {
                        x.append(y);
                        Out::Unit
                    }
                    _ => Out::Val(None),
                }
            }
            ObjIterMutSet(r, p, l) => {
                for (_, x) in obj!(r, p).iter_mut() {
                    if !x.is_array() && !x.is_object() {
                        *x = l.value();
                    }
                }
                Out::Unit
            }
            ObjClear(r, p) => {
                obj!(r, p).clear();
                Out::Unit
            }
            ValueInsert(r, k, l) => {
                if !rg[*r].is_object() {
                    return Out::Val(None);
                }
                rg[*r].insert(k, l.value());
                Out::Unit
            }
            ValueAppend(r, l) => {
                if !rg[*r].is_array() {
                    return Out::Val(None);
                }
                rg[*r].append_value(l.value());
                Out::Unit
            }
            ObjIndexMutSet(r, p, k, l) => {
                let o = obj!(r, p);
                let v = l.value();
                may_panic!({
                    o[k.as_str()] = v;
                });
                Out::Unit
            }
            ArrIndexMutSet(r, p, i, l) => {
                let a = arr!(r, p);
                let v = l.value();
                may_panic!({
                    a[*i] = v;
                });
                Out::Unit
            }
            EntryOrInsertWithKey(r, p, k) => Out::Val(Some(dump(obj!(r, p).entry(k.as_str()).or_insert_with_key(|kk| Value::from(kk))))),
            ValuesMutSet(r, p, l) => {
                let o = obj!(r, p);
                for (_, x) in o.iter_mut() {
                    if x.is_null() {
                        *x = l.value();
                    }
                }
                for (_, x) in &mut *o {
                    if x.is_boolean() {
                        *x = l.value();
                    }
                }
                Out::Unit
            }
            IntoIterMixed(s, d, nf, nb) => {
                if s == d || !rg[*s].is_array() {
                    return Out::Val(None);
                }
                let a = rg[*s].take().into_array().expect("array");
                let mut it = a.into_iter();
                let mut log = String::new();
                let mut out: Vec<Value> = vec![];
                for _ in 0..*nf {
                    log.push_str(&format!("{}{:?};", it.len(), it.size_hint()));
                    if let Some(x) = it.next() {
                        out.push(x);
                    }
                }
                let twin = it.clone();
                for _ in 0..*nb {
                    log.push_str(&format!("{}{:?};", it.len(), it.size_hint()));
                    if let Some(x) = it.next_back() {
                        out.push(x);
                    }
                }
                log.push_str(&format!("{}{:?};", it.len(), it.size_hint()));
                out.extend(it);
                // the twin is polled after the original is exhausted and gone
                out.push(Value::from(twin.collect::<Vec<Value>>()));
                rg[*d] = Value::from(out);
                Out::Text(log)
            }
            ObjProbe(r, p, k) => match rg[*r].pointer(&to_ptr(p)).and_then(|x| x.as_object()) {
                Some(o) => {
                    let js = |x: &Value| to_json(&dump(x));
                    let mut keys: Vec<&str> = o.iter().map(|(k, _)| k).collect();
                    keys.sort();
                    let indexed = guarded(|| js(&o[k.as_str()])).unwrap_or("panic".into());
                    if o.capacity() < o.len() {
                        return Out::Text("capacity below len".into());
                    }
                    Out::Text(format!(
                        "contains={} get={} kv={} empty={} len={} keys={:?} counts={:?} index={}",
                        o.contains_key(k),
                        o.get(k).map(js).unwrap_or("none".into()),
                        o.get_key_value(k).map(|(a, b)| format!("{:?}:{}", a, js(b))).unwrap_or("none".into()),
                        o.is_empty(),
                        o.len(),
                        keys,
                        [o.iter().len(), o.iter().size_hint().0, o.iter().count(), o.into_iter().count(), o.iter().map(|(k, _)| k).filter(|k| o.contains_key(k)).count()],
                        indexed,
                    ))
                }
                None => Out::Val(None),
            },
            ArrProbe(r, p, i, a, b) => match rg[*r].pointer(&to_ptr(p)).and_then(|x| x.as_array()) {
                Some(v) => {
                    let js = |x: Option<&Value>| x.map(|x| to_json(&dump(x))).unwrap_or("none".into());
                    let indexed = guarded(|| to_json(&dump(&v[*i]))).unwrap_or("panic".into());
                    let ranged = guarded(|| to_json(&M::Arr(v[*a..*b].iter().map(dump).collect()))).unwrap_or("panic".into());
                    if v.capacity() < v.len() {
                        return Out::Text("capacity below len".into());
                    }
                    let sl: &[Value] = v.as_ref();
                    Out::Text(format!(
                        "empty={} len={} get={} first={} last={} index={} range={} counts={:?} rev={}",
                        v.is_empty(),
                        v.len(),
                        js(v.get(*i)),
                        js(v.first()),
                        js(v.last()),
                        indexed,
                        ranged,
                        [sl.len(), v.iter().len(), v.iter().size_hint().0, v.as_slice().len()],
                        to_json(&M::Arr(v.iter().rev().map(dump).collect())),
                    ))
                }
                None => Out::Val(None),
            },
            ValProbe(r, p, k, i) => match rg[*r].pointer(&to_ptr(p)) {
                Some(x) => {
                    let js = |x: &Value| to_json(&dump(x));
                    // indexes far beyond any length (and beyond 32 bits) find nothing, through
                    // every read-only lookup
                    for big in [(1usize << 32) + *i, 1usize << 32, (1usize << 33) + *i, (u32::MAX as usize) + 1 + *i, usize::MAX - *i, (1usize << 63) | *i, (1usize << 16) + *i, (1usize << 24) + *i] {
                        if x.get(big).is_some() || x.pointer(&[big]).is_some() || !x[big].is_null() || x.as_array().map(|a| a.get(big).is_some()).unwrap_or(false) {
                            return Out::Text(format!("index {} (far out of range) finds a value", big));
                        }
                    }
                    let dbg = format!("{:?}", x);
                    let shown = format!("{}", x);
                    if dbg.is_empty() || Some(shown.clone()) != sonic_rs::to_string(x).ok() {
                        return Out::Text(format!("Display {:?} differs from to_string", shown));
                    }
                    // the value traits forward unchanged through &V, Option<&V> and Result<&V, E>
                    {
                        let o = Some(x);
                        let rr: Result<&Value, ()> = Ok(x);
                        let kk = k.as_str();
                        let same = |a: Option<&Value>, b: Option<&Value>| a.map(|v| v as *const Value) == b.map(|v| v as *const Value);
                        let fwd = same(o.get(kk), x.get(kk))
                            && same(o.get(*i), x.get(*i))
                            && same(rr.get(kk), x.get(kk))
                            && same((&x).get(*i), x.get(*i))
                            && same(o.pointer(&[PointerNode::Index(*i)]), x.pointer(&[PointerNode::Index(*i)]))
                            && same(rr.pointer(&[PointerNode::Key(faststr::FastStr::new(kk))]), x.get(kk))
                            && o.as_array().map(|a| a.len()) == x.as_array().map(|a| a.len())
                            && rr.as_object().map(|a| a.len()) == x.as_object().map(|a| a.len())
                            && (&x).as_array().map(|a| a.len()) == x.as_array().map(|a| a.len())
                            && o.get_type() == x.get_type()
                            && rr.as_str() == x.as_str()
                            && o.as_u64() == x.as_u64()
                            && rr.as_f64().map(f64::to_bits) == x.as_f64().map(f64::to_bits)
                            && x.is_true() == (x.as_bool() == Some(true))
                            && x.is_false() == (x.as_bool() == Some(false))
                            && None::<&Value>.get(kk).is_none()
                            && None::<&Value>.as_array().is_none();
                        if !fwd {
                            return Out::Text("trait forwarding through &V / Option / Result differs from the direct call".into());
                        }
                    }
                    Out::Text(format!(
                        "key={} idx={} getk={} geti={} obj={} arr={} text={}",
                        js(&x[k.as_str()]),
                        js(&x[*i]),
                        x.get(k.as_str()).map(js).unwrap_or("none".into()),
                        x.get(*i).map(js).unwrap_or("none".into()),
                        x.clone().into_object().is_some(),
                        x.clone().into_array().is_some(),
                        js(x),
                    ))
                }
                None => Out::Val(None),
            },
            Read(r, p) => {
                let x = rg[*r].pointer(&to_ptr(p));
                Out::Text(match x {
                    None => "none".into(),
                    Some(x) => format!(
                        "{}|len={:?}|{}",
                        match x.get_type() {
                            sonic_rs::JsonType::Null => "null",
                            sonic_rs::JsonType::Boolean => "bool",
                            sonic_rs::JsonType::Number => "number",
                            sonic_rs::JsonType::String => "string",
                            sonic_rs::JsonType::Array => "array",
                            sonic_rs::JsonType::Object => "object",
                        },
                        x.as_array().map(|a| a.len()).or(x.as_object().map(|o| o.len())),
                        to_json(&dump(x))
                    ),
                })
            }
        }
    }
}

fn two(v: &mut [Value], a: usize, b: usize) -> (&mut Value, &mut Value) {
    assert!(a != b);
    if a < b {
        let (x, y) = v.split_at_mut(b);
        (&mut x[a], &mut y[0])
    } else {
        let (x, y) = v.split_at_mut(a);
        (&mut y[0], &mut x[b])
    }
}

/// a random path that resolves in the model with good probability
pub fn rand_path(r: &mut Rng, m: &M) -> Vec<PathEl> {
    let mut p = vec![];
    let mut cur = m;
    for _ in 0..r.below(4) {
        match cur {
            M::Arr(v) if !v.is_empty() => {
                let i = r.below(v.len() as u64) as usize;
                p.push(PathEl::I(i));
                cur = &v[i];
            }
            M::Obj(o) if !o.is_empty() => {
                let i = r.below(o.len() as u64) as usize;
                let (k, v) = o.iter().nth(i).unwrap();
                p.push(PathEl::K(k.clone()));
                cur = v;
            }
            _ => break,
        }
    }
    if r.chance(1, 12) {
        p.push(if r.chance(1, 2) { PathEl::I(r.below(4) as usize) } else { PathEl::K((*r.pick(KEYS)).to_string()) });
    }
    p
}

/// path to a container of the wanted kind (1 array, 2 object) if one exists
pub fn path_to_kind(r: &mut Rng, m: &M, kind: u8) -> Vec<PathEl> {
    let mut found: Vec<Vec<PathEl>> = vec![];
    fn rec(m: &M, cur: &mut Vec<PathEl>, kind: u8, out: &mut Vec<Vec<PathEl>>) {
        if out.len() > 16 {
            return;
        }
        match m {
            M::Arr(v) => {
                if kind == 1 {
                    out.push(cur.clone());
                }
                for (i, x) in v.iter().enumerate().take(6) {
                    cur.push(PathEl::I(i));
                    rec(x, cur, kind, out);
                    cur.pop();
                }
            }
            M::Obj(o) => {
                if kind == 2 {
                    out.push(cur.clone());
                }
                for (k, x) in o.iter().take(6) {
                    cur.push(PathEl::K(k.clone()));
                    rec(x, cur, kind, out);
                    cur.pop();
                }
            }
            _ => {}
        }
    }
    rec(m, &mut vec![], kind, &mut found);
    if found.is_empty() || r.chance(1, 15) {
        rand_path(r, m)
    } else {
        r.pick(&found).clone()
    }
}

pub fn rand_op(r: &mut Rng, model: &[M]) -> Op {
    use Op::*;
    let reg = r.below(NREG as u64) as usize;
    let other = r.below(NREG as u64) as usize;
    let m = &model[reg];
    let ap = |r: &mut Rng| path_to_kind(r, m, 1);
    let op = |r: &mut Rng| path_to_kind(r, m, 2);
    let alen = |p: &[PathEl]| match m_at(m, p) {
        Some(M::Arr(v)) => v.len(),
        _ => 0,
    };
    let key = |r: &mut Rng, p: &[PathEl]| -> String {
        if let Some(M::Obj(o)) = m_at(m, p) {
            if !o.is_empty() && r.chance(2, 3) {
                return o.keys().nth(r.below(o.len() as u64) as usize).unwrap().clone();
            }
        }
        (*r.pick(KEYS)).to_string()
    };
    let idx = |r: &mut Rng, n: usize| -> usize {
        if n == 0 || r.chance(1, 8) {
            n + r.below(3) as usize
        } else {
            r.below(n as u64 + 1) as usize
        }
    };
    match r.below(64) {
        52 => {
            let p = op(r);
            let k = key(r, &p);
            ObjIndexMutSet(reg, p, k, rand_lit(r))
        }
        53 => {
            let p = ap(r);
            let n = alen(&p);
            ArrIndexMutSet(reg, p, idx(r, n), rand_lit(r))
        }
        54 => {
            let p = op(r);
            let k = key(r, &p);
            EntryOrInsertWithKey(reg, p, k)
        }
        55 => ValuesMutSet(reg, op(r), rand_lit(r)),
        56 => IntoIterMixed(reg, other, r.below(4) as usize, r.below(4) as usize),
        57 => {
            let p = op(r);
            let k = key(r, &p);
            ObjProbe(reg, p, k)
        }
        58 => {
            let p = ap(r);
            let n = alen(&p);
            let a = idx(r, n);
            let b = idx(r, n);
            ArrProbe(reg, p, idx(r, n), a.min(b), if r.chance(1, 10) { a.max(b) + 1 } else { a.max(b) })
        }
        59 => {
            let p = rand_path(r, m);
            let k = match m_at(m, &p) {
                Some(M::Obj(_)) => key(r, &p),
                _ => (*r.pick(KEYS)).to_string(),
            };
            ValProbe(reg, p, k, r.below(5) as usize)
        }
        0 | 1 => Set(reg, rand_lit(r)),
        2 | 3 => Clone(reg, other),
        4 => Take(reg, other),
        5 => Swap(reg, other),
        6 | 7 => CloneSub(reg, rand_path(r, m), other),
        8 => TakeSub(reg, rand_path(r, m), other),
        9 | 10 => SetSub(reg, rand_path(r, m), rand_lit(r)),
        11 => IndexKeySet(reg, (*r.pick(KEYS)).to_string(), rand_lit(r)),
        12 => {
            let n = alen(&[]);
            IndexIdxSet(reg, idx(r, n), rand_lit(r))
        }
        13 => GetMutSet(reg, if r.chance(1, 2) { PathEl::I(r.below(5) as usize) } else { PathEl::K((*r.pick(KEYS)).to_string()) }, rand_lit(r)),
        14 | 15 => Push(reg, ap(r), rand_lit(r)),
        16 => Pop(reg, ap(r)),
        17 => {
            let p = ap(r);
            let n = alen(&p);
            Insert(reg, p, idx(r, n), rand_lit(r))
        }
        18 => {
            let p = ap(r);
            let n = alen(&p);
            Remove(reg, p, idx(r, n))
        }
        19 => {
            let p = ap(r);
            let n = alen(&p);
            SwapRemove(reg, p, idx(r, n))
        }
        20 => {
            let p = ap(r);
            let n = alen(&p);
            Truncate(reg, p, idx(r, n))
        }
        21 => Clear(reg, ap(r)),
        22 => RetainNonNull(reg, ap(r)),
        23 => RetainMutEven(reg, ap(r)),
        24 => {
            let p = ap(r);
            let n = alen(&p);
            SplitOff(reg, p, idx(r, n), other)
        }
        25 => AppendFrom(reg, other),
        26 => {
            let p = ap(r);
            let n = alen(&p);
            let a = idx(r, n);
            let b = idx(r, n);
            Drain(reg, p, a.min(b), a.max(b))
        }
        27 => {
            let p = ap(r);
            let n = alen(&p);
            let a = idx(r, n);
            let b = idx(r, n);
            ExtendFromWithin(reg, p, a.min(b), a.max(b))
        }
        28 => Resize(reg, ap(r), r.below(8) as usize, rand_lit(r)),
        29 => ResizeWith(reg, ap(r), r.below(8) as usize),
        30 => IterMutSet(reg, ap(r), rand_lit(r)),
        31 => Reverse(reg, ap(r)),
        32 => IntoIterCollect(reg, other),
        33 => ExtendIter(reg, ap(r), (0..r.below(4)).map(|_| rand_lit(r)).collect()),
        34 | 35 => {
            let p = op(r);
            let k = key(r, &p);
            ObjInsert(reg, p, k, rand_lit(r))
        }
        36 => {
            let p = op(r);
            let k = key(r, &p);
            ObjRemove(reg, p, k)
        }
        37 => {
            let p = op(r);
            let k = key(r, &p);
            ObjRemoveEntry(reg, p, k)
        }
        38 => {
            let p = op(r);
            let k = key(r, &p);
            ObjGetMutSet(reg, p, k, rand_lit(r))
        }
        39 => {
            let p = op(r);
            let k = key(r, &p);
            EntryOrInsert(reg, p, k, rand_lit(r))
        }
        40 => {
            let p = op(r);
            let k = key(r, &p);
            EntryOrInsertWith(reg, p, k, rand_lit(r))
        }
        41 => {
            let p = op(r);
            let k = key(r, &p);
            EntryOrDefault(reg, p, k)
        }
        42 => {
            let p = op(r);
            let k = key(r, &p);
            EntryAndModify(reg, p, k, rand_lit(r))
        }
        43 => {
            let p = op(r);
            let k = key(r, &p);
            EntryOccupiedInsert(reg, p, k, rand_lit(r))
        }
        44 => {
            let p = op(r);
            let k = key(r, &p);
            EntryOccupiedRemove(reg, p, k)
        }
        45 => ObjRetainKeyLt(reg, op(r), (*r.pick(KEYS)).to_string()),
        46 => ObjAppendFrom(reg, other),
        47 => ObjIterMutSet(reg, op(r), rand_lit(r)),
        48 => ObjClear(reg, op(r)),
        49 => ValueInsert(reg, (*r.pick(KEYS)).to_string(), rand_lit(r)),
        50 => ValueAppend(reg, rand_lit(r)),
        61 | 62 | 63 => {
            let p = ap(r);
            let n = alen(&p);
            let a = (r.below(3) as u8, idx(r, n));
            let b = (r.below(3) as u8, idx(r, n));
            // mostly ordered, sometimes not (Vec panics, so must the array)
            let (a, b) = if a.1 > b.1 && r.chance(3, 4) { ((a.0, b.1), (b.0, a.1)) } else { (a, b) };
            if r.chance(1, 2) {
                DrainBounds(reg, p, a, b)
            } else {
                ExtendFromWithinBounds(reg, p, a, b)
            }
        }
        _ => Read(reg, rand_path(r, m)),
    }
}
