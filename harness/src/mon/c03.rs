//! C03 — a parsed document equals the reference data model of its text.
use serde::Deserialize;
use sonic_rs::{Deserializer, Value};

use crate::core::{Case, Check, Ctx, GenParams, Tier};
use crate::gen::doc::{self, DocOpts};
use crate::mon::common::{parse_then_discard, cmp_doc, exact, NumMode};
use crate::refmodel::recog::{self, K, R};

pub struct C03;

#[derive(Deserialize)]
struct Emb {
    #[allow(dead_code)]
    a: u8,
    v: Value,
}

pub const CORPUS: &[&str] = &[
    "/repo/benchmarks/benches/testdata/book.json",
    "/repo/benchmarks/benches/testdata/github_events.json",
    "/repo/benchmarks/benches/testdata/twitter.json",
    "/repo/benchmarks/benches/testdata/citm_catalog.json",
    "/repo/benchmarks/benches/testdata/canada.json",
    "/repo/examples/testdata/person.json",
];

pub fn corpus(i: usize) -> Option<Vec<u8>> {
    std::fs::read(CORPUS[i % CORPUS.len()]).ok()
}

pub fn default_mode() -> NumMode {
    if cfg!(feature = "arbitrary_precision") {
        NumMode::Raw
    } else {
        NumMode::Default
    }
}

fn check_one(ctx: &mut Ctx, what: &str, got: Result<Value, sonic_rs::Error>, r: &R, input: &[u8], mode: NumMode) {
    ctx.ops(1);
    match got {
        Ok(v) => {
            if let Err(m) = cmp_doc(&v, r, input, mode) {
                ctx.fail(&format!("dom-differs:{}", what), format!("{}: {}", what, m));
            }
        }
        Err(e) => ctx.fail(&format!("reject-valid:{}", what), format!("{} rejected a well-formed text: {}", what, crate::mon::common::err_brief(&e))),
    }
}

pub fn check_doc(ctx: &mut Ctx, b: &[u8], heavy: bool) {
    let d = match recog::parse_document(b) {
        Ok(d) if d.full_ok() && d.flags.max_depth <= 64 => d,
        _ => {
            ctx.class("skipped:not-fully-valid");
            return;
        }
    };
    ctx.class("doc:valid");
    if d.flags.has_dup_keys {
        ctx.class("doc:duplicate-keys");
    }
    if d.flags.nodes >= 3 {
        ctx.nontrivial();
    }
    let mode = default_mode();
    let ex = exact(b);
    let s = std::str::from_utf8(&ex).unwrap();
    // whole input: in-place padded parse
    check_one(ctx, "whole:from_slice", sonic_rs::from_slice::<Value>(&ex), &d.root, b, mode);
    check_one(ctx, "whole:from_str", sonic_rs::from_str::<Value>(s), &d.root, b, mode);
    check_one(ctx, "whole:de.deserialize", Deserializer::from_slice(&ex).deserialize::<Value>(), &d.root, b, if cfg!(feature = "arbitrary_precision") { NumMode::Default } else { mode });
    check_one(ctx, "whole:use_rawnumber", Deserializer::from_slice(&ex).use_rawnumber().deserialize::<Value>(), &d.root, b, NumMode::Raw);
    // an owned value does not depend on the input buffer after the call
    check_one(ctx, "whole:from_slice:input-discarded", parse_then_discard(b, |c| sonic_rs::from_slice::<Value>(c)), &d.root, b, mode);
    check_one(ctx, "whole:use_rawnumber:input-discarded", parse_then_discard(b, |c| Deserializer::from_slice(c).use_rawnumber().deserialize::<Value>()), &d.root, b, NumMode::Raw);
    check_one(ctx, "whole:utf8_lossy", Deserializer::from_slice(&ex).utf8_lossy().deserialize::<Value>(), &d.root, b, NumMode::Default);
    // the options are independent of each other, whatever the order they are chosen in
    check_one(ctx, "whole:use_rawnumber+utf8_lossy", Deserializer::from_slice(&ex).use_rawnumber().utf8_lossy().deserialize::<Value>(), &d.root, b, NumMode::Raw);
    check_one(ctx, "whole:utf8_lossy+use_rawnumber", Deserializer::from_slice(&ex).utf8_lossy().use_rawnumber().deserialize::<Value>(), &d.root, b, NumMode::Raw);
    if !heavy {
        // embedded in a typed structure: copy parse into the deserializer's shared arena
        let mut w = Vec::with_capacity(b.len() + 16);
        w.extend_from_slice(b"{\"a\":7,\"v\":");
        w.extend_from_slice(b);
        w.extend_from_slice(b"}");
        let wd = recog::parse_document(&w).expect("wrapper of a valid doc is valid");
        let sub = match &wd.root.k {
            K::Obj(ms) => &ms[1].1,
            _ => unreachable!(),
        };
        let we = exact(&w);
        ctx.ops(1);
        let _ = &we;
        match parse_then_discard(&w, |c| sonic_rs::from_slice::<Emb>(c)) {
            Ok(e) => {
                if let Err(m) = cmp_doc(&e.v, sub, &w, mode) {
                    ctx.fail("dom-differs:embedded-struct", format!("struct field Value: {}", m));
                }
            }
            Err(e) => ctx.fail("reject-valid:embedded-struct", format!("struct{{a,v}} rejected: {}", crate::mon::common::err_brief(&e))),
        }
        ctx.ops(1);
        match parse_then_discard(&w, |c| Deserializer::from_slice(c).use_rawnumber().deserialize::<Emb>()) {
            Ok(e) => {
                if let Err(m) = cmp_doc(&e.v, sub, &w, NumMode::Raw) {
                    ctx.fail("dom-differs:embedded-struct-rawnumber", format!("struct field Value (rawnumber): {}", m));
                }
            }
            Err(e) => ctx.fail("reject-valid:embedded-struct-rawnumber", format!("rejected: {}", crate::mon::common::err_brief(&e))),
        }
        // Vec<Value>: several values sharing one arena
        let mut w = Vec::with_capacity(b.len() * 2 + 16);
        w.extend_from_slice(b"[");
        w.extend_from_slice(b);
        w.extend_from_slice(b", ");
        w.extend_from_slice(b);
        w.extend_from_slice(b",null]");
        let wd = recog::parse_document(&w).expect("array wrapper valid");
        let subs = match &wd.root.k {
            K::Arr(xs) => xs,
            _ => unreachable!(),
        };
        for (raw, m, name) in [(false, mode, "embedded-vec"), (true, NumMode::Raw, "embedded-vec-rawnumber")] {
            ctx.ops(1);
            // (`from_slice` is the entry point that honours the arbitrary_precision feature)
            let got = parse_then_discard(&w, |c| if raw { Deserializer::from_slice(c).use_rawnumber().deserialize::<Vec<Value>>() } else { sonic_rs::from_slice::<Vec<Value>>(c) });
            match got {
                Ok(vs) => {
                    if vs.len() != 3 {
                        ctx.fail("dom-differs:vec-len", format!("Vec<Value> has {} items", vs.len()));
                    } else {
                        for (i, (v, r)) in vs.iter().zip(subs.iter()).enumerate() {
                            if let Err(msg) = cmp_doc(v, r, &w, m) {
                                ctx.fail(&format!("dom-differs:{}", name), format!("Vec<Value>[{}]: {}", i, msg));
                            }
                        }
                    }
                }
                Err(e) => ctx.fail(&format!("reject-valid:{}", name), format!("Vec<Value> rejected: {}", crate::mon::common::err_brief(&e))),
            }
        }
        // later documents of a stream
        let mut w = Vec::with_capacity(b.len() * 3 + 16);
        let mut starts = vec![];
        w.extend_from_slice(b"[1] ");
        for _ in 0..2 {
            starts.push(w.len());
            w.extend_from_slice(b);
            w.extend_from_slice(b"\n");
        }
        let modes: [(bool, NumMode, &str); 2] = [(false, NumMode::Default, "stream"), (true, NumMode::Raw, "stream-rawnumber")];
        for (raw, m, name) in modes {
            // the documents are collected, then the stream is dropped and the input discarded
            let docs: Vec<Result<Value, sonic_rs::Error>> = parse_then_discard(&w, |c| {
                let de = Deserializer::from_slice(c);
                let de = if raw { de.use_rawnumber() } else { de };
                de.into_stream::<Value>().collect()
            });
            let mut st = docs.into_iter();
            let first = st.next();
            ctx.ops(1);
            if !matches!(first, Some(Ok(_))) {
                ctx.fail(&format!("reject-valid:{}-first", name), "stream rejected its first document".into());
                continue;
            }
            for (k, st0) in starts.iter().enumerate() {
                ctx.ops(1);
                let sd = recog::parse_prefix(&w, *st0).expect("stream doc valid");
                match st.next() {
                    Some(Ok(v)) => {
                        if let Err(msg) = cmp_doc(&v, &sd.root, &w, m) {
                            ctx.fail(&format!("dom-differs:{}", name), format!("document #{} of a stream: {}", k + 2, msg));
                        }
                    }
                    Some(Err(e)) => ctx.fail(&format!("reject-valid:{}", name), format!("stream rejected document #{}: {}", k + 2, crate::mon::common::err_brief(&e))),
                    None => ctx.fail(&format!("reject-valid:{}-ended", name), format!("stream ended before document #{}", k + 2)),
                }
            }
        }
    }
}

impl Check for C03 {
    fn id(&self) -> &'static str {
        "C03"
    }
    fn generate(&self, g: &GenParams, emit: &mut dyn FnMut(Case)) {
        let mut r = g.rng(3);
        let n = g.count(150_000, 8_000_000);
        for k in 0..n {
            let mut o = DocOpts::random(&mut r);
            o.dup_keys = k % 5 == 0;
            emit(Case::new("doc", doc::gen_doc(&mut r, &o)));
        }
        // nested documents of every depth 1..64 (pretty indentation, node-buffer parent links)
        for d in 1..=64usize {
            if g.mine(d as u64) {
                for _ in 0..(if g.tier == Tier::Quick { 2 } else { 40 }) {
                    emit(Case::new("nested", doc::nested(&mut r, d)));
                }
            }
        }
        // token-sequence documents that are valid (enumerated small docs)
        let total = crate::gen::tokens::count(4);
        let mut buf = Vec::new();
        let mut i = g.shard;
        while i < total {
            crate::gen::tokens::nth(i, &mut buf);
            if recog::parse_document(&buf).is_ok() {
                emit(Case::new("tok", buf.clone()));
            }
            i += g.nshards;
        }
        // corpus files under blank-prefix alignments
        let aligns: Vec<i64> = if g.tier == Tier::Quick { vec![0, 1, 31, 33, 63] } else { (0..65).collect() };
        let mut idx = 0u64;
        for f in 0..CORPUS.len() {
            for a in &aligns {
                if g.mine(idx) && (g.scale >= 0.5 || f < 2 || f == 5) {
                    emit(Case::with("corpus", vec![], &[f as i64, *a]));
                }
                idx += 1;
            }
        }
        // very wide containers: more direct children than the thread-local node buffer holds
        // (196 607 nodes), whole-input and embedded; in the thorough tier of the native build one
        // array with more than 2^24 elements (the width of the packed child index)
        let widths: &[(usize, bool)] = if g.tier == Tier::Quick { &[(200_000, false), (100_000, true)] } else { &[(196_606, false), (200_000, false), (420_000, false), (100_000, true), (250_000, true)] };
        for (k, (n, object)) in widths.iter().enumerate() {
            if g.mine(1000 + k as u64) && (g.scale >= 0.5 || k == 0) {
                emit(Case::with("wide", vec![], &[*n as i64, *object as i64]));
            }
        }
        if g.tier == Tier::Thorough && g.build == "native-rel" && g.shard == 3 % g.nshards {
            emit(Case::with("wide", vec![], &[(1 << 24) + 9, 0]));
        }
        // a few large generated documents (heap node buffer instead of the thread-local one)
        let nbig = if g.tier == Tier::Quick { 1 } else { 6 };
        for k in 0..nbig {
            if g.scale >= 0.5 || k == 0 {
                let b = doc::big(&mut r, 450_000 + 100_000 * k as usize);
                emit(Case::new("big", b));
            }
        }
    }
    fn exec(&self, ctx: &mut Ctx, c: &Case) {
        match c.entry.as_str() {
            "corpus" => {
                let Some(f) = corpus(c.p(0) as usize) else {
                    ctx.class("skipped:corpus-missing");
                    return;
                };
                let mut b = vec![b' '; c.p(1) as usize];
                b.extend_from_slice(&f);
                ctx.class("doc:corpus");
                check_doc(ctx, &b, b.len() > 200_000);
                ctx.sample("corpus");
            }
            "big" => {
                ctx.class("doc:big");
                check_doc(ctx, &c.input, false);
            }
            "wide" => {
                let (n, object) = (c.p(0) as usize, c.p(1) != 0);
                let mut b = Vec::with_capacity(n * 12);
                b.push(if object { b'{' } else { b'[' });
                for i in 0..n {
                    if i > 0 {
                        b.push(b',');
                    }
                    if object {
                        b.extend_from_slice(format!("\"{}\":", i).as_bytes());
                    }
                    // mostly tiny scalars; strings and containers among them (they carry indices)
                    match i % 97 {
                        0 => b.extend_from_slice(b"\"s\""),
                        1 => b.extend_from_slice(b"[7]"),
                        2 => b.extend_from_slice(b"{\"k\":null}"),
                        _ => b.push(b'0' + (i % 10) as u8),
                    }
                }
                b.extend_from_slice(if object { b",\"last\":\"end\"}" } else { b",\"end\"]" });
                ctx.class("doc:wide");
                ctx.nontrivial();
                // the very wide one: one whole-input parse (time and memory), the others through every route
                if n > 1_000_000 {
                    match recog::parse_document(&b) {
                        Ok(d) => check_one(ctx, "whole:from_slice:very-wide", sonic_rs::from_slice::<Value>(&b), &d.root, &b, default_mode()),
                        Err(_) => ctx.fail("harness:wide-doc", "reference parse failed".into()),
                    }
                } else {
                    check_doc(ctx, &b, false);
                }
                ctx.sample("wide");
            }
            e => {
                check_doc(ctx, &c.input, false);
                ctx.sample(e);
            }
        }
    }
    fn required_classes(&self, _b: &str, _t: Tier) -> Vec<&'static str> {
        vec!["doc:valid", "doc:duplicate-keys", "doc:corpus", "doc:big", "doc:wide"]
    }
}
