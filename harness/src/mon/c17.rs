//! C17 — results do not depend on the SIMD backend compiled in.
//!
//! (1) transcripts: for every case of the C02/C03/C05/C09/C10/C12 workloads the worker emits
//!     (case digest, digest of all observables); the supervisor joins the transcripts of the
//!     `native-rel` and `baseline-rel` builds case by case.
//! (2) primitives: every public `sonic_simd` vector primitive against scalar loops, inside each build.
//! (3) NEON leg (an extension beyond the two x86-64 builds the property names): small inputs aimed
//!     at the vector block structure (`nd:*` cases) go through the observer of everything that is
//!     not DOM code (`observe_nd`; Miri cannot run the DOM) in all builds, and the supervisor joins
//!     the transcript of the aarch64 build, run by the Miri interpreter with the NEON modules
//!     compiled in, with the native x86-64 one by case digest.
use bytes::Bytes;
use sonic_rs::{JsonValueTrait, LazyValue, OwnedLazyValue, PointerNode, Value};
use sonic_simd::{i8x32, u8x16, u8x32, u8x64, BitMask, Mask, Simd};

use crate::core::{Case, Check, Ctx, GenParams, Tier};
use crate::gen::doc::DocOpts;
use crate::gen::dynval::{gen_dyn, DynOpts};
use crate::mon::c01::derive_paths;
use crate::rng::{fnv1a, Rng};

pub struct C17;

struct H(u64, bool);
impl H {
    fn new() -> Self {
        H(0xcbf29ce484222325, false)
    }
    /// errors count as "rejected" only (no position, no message)
    fn reduced() -> Self {
        H(0xcbf29ce484222325, true)
    }
    fn b(&mut self, x: &[u8]) {
        self.0 = fnv1a(&[&self.0.to_le_bytes(), x]);
    }
    fn s(&mut self, x: &str) {
        self.b(x.as_bytes())
    }
    fn n(&mut self, x: u64) {
        self.b(&x.to_le_bytes())
    }
    fn err(&mut self, e: &sonic_rs::Error) {
        self.s("ERR");
        if self.1 {
            return;
        }
        self.n(e.offset() as u64);
        self.n(e.line() as u64);
        self.n(e.column() as u64);
        self.s(&e.to_string());
    }
}

/// every observable result of the library on a document-like input
pub fn observe_doc(b: &[u8]) -> u64 {
    let mut h = H::new();
    match sonic_rs::from_slice::<Value>(b) {
        Ok(v) => {
            h.s("OK");
            h.s(&sonic_rs::to_string(&v).unwrap_or_default());
            h.s(&sonic_rs::to_string_pretty(&v).unwrap_or_default());
        }
        Err(e) => h.err(&e),
    }
    match sonic_rs::from_slice::<LazyValue>(b) {
        Ok(v) => {
            h.s(v.as_raw_str());
            if let Some(s) = v.as_str() {
                h.s(s);
            }
        }
        Err(e) => h.err(&e),
    }
    match sonic_rs::from_slice::<OwnedLazyValue>(b) {
        Ok(v) => h.s(&sonic_rs::to_string(&v).unwrap_or_default()),
        Err(e) => h.err(&e),
    }
    match sonic_rs::from_slice::<serde_json::Value>(b) {
        Ok(v) => h.s(&v.to_string()),
        Err(e) => h.err(&e),
    }
    match sonic_rs::from_slice::<String>(b) {
        Ok(v) => h.s(&v),
        Err(e) => h.err(&e),
    }
    match sonic_rs::from_slice::<f64>(b) {
        Ok(v) => h.n(v.to_bits()),
        Err(e) => h.err(&e),
    }
    match sonic_rs::from_slice::<serde::de::IgnoredAny>(b) {
        Ok(_) => h.s("OK"),
        Err(e) => h.err(&e),
    }
    let paths: Vec<Vec<PointerNode>> = derive_paths(b);
    let by = Bytes::copy_from_slice(b);
    for p in paths.iter().take(10) {
        match sonic_rs::get(b, p) {
            Ok(v) => {
                h.s(v.as_raw_str());
                h.n((v.as_raw_str().as_ptr() as usize).wrapping_sub(b.as_ptr() as usize) as u64);
            }
            Err(e) => h.err(&e),
        }
        match unsafe { sonic_rs::get_from_bytes_unchecked(&by, p) } {
            Ok(v) if std::str::from_utf8(b).is_ok() && crate::refmodel::recog::parse_document(b).is_ok() => h.s(v.as_raw_str()),
            _ => {}
        }
    }
    for x in sonic_rs::to_array_iter(b).take(10_000) {
        match x {
            Ok(v) => h.s(v.as_raw_str()),
            Err(e) => h.err(&e),
        }
    }
    for x in sonic_rs::to_object_iter(b).take(10_000) {
        match x {
            Ok((k, v)) => {
                h.s(&k);
                h.s(v.as_raw_str());
            }
            Err(e) => h.err(&e),
        }
    }
    match sonic_rs::Deserializer::from_slice(b).utf8_lossy().deserialize::<Value>() {
        Ok(v) => h.s(&sonic_rs::to_string(&v).unwrap_or_default()),
        Err(e) => h.err(&e),
    }
    h.0
}

/// every observable result of the non-DOM entry points (typed and lazy parsing, get*, iterators,
/// lossy mode, string serialisation) on one small input
///
/// `reduced`: a rejection counts as a rejection only. The string scanners look at one vector
/// block at a time and test it for a raw control character before they look at its escapes, so
/// WHICH of two violations inside one block is reported depends on the block width (32 bytes on
/// every x86-64 build, 16 with NEON); accept/reject and every accepted result do not.
pub fn observe_nd(b: &[u8], reduced: bool) -> u64 {
    let mut h = if reduced { H::reduced() } else { H::new() };
    match sonic_rs::from_slice::<LazyValue>(b) {
        Ok(v) => {
            h.s(v.as_raw_str());
            if let Some(s) = v.as_str() {
                h.s(s);
            }
        }
        Err(e) => h.err(&e),
    }
    match sonic_rs::from_slice::<OwnedLazyValue>(b) {
        Ok(v) => h.s(&sonic_rs::to_string(&v).unwrap_or_default()),
        Err(e) => h.err(&e),
    }
    match sonic_rs::from_slice::<serde_json::Value>(b) {
        Ok(v) => h.s(&v.to_string()),
        Err(e) => h.err(&e),
    }
    match sonic_rs::from_slice::<String>(b) {
        Ok(v) => h.s(&v),
        Err(e) => h.err(&e),
    }
    match sonic_rs::from_slice::<f64>(b) {
        Ok(v) => h.n(v.to_bits()),
        Err(e) => h.err(&e),
    }
    match sonic_rs::from_slice::<u64>(b) {
        Ok(v) => h.n(v),
        Err(e) => h.err(&e),
    }
    match sonic_rs::from_slice::<serde::de::IgnoredAny>(b) {
        Ok(_) => h.s("OK"),
        Err(e) => h.err(&e),
    }
    if let Ok(s) = std::str::from_utf8(b) {
        match sonic_rs::from_str::<serde_json::Value>(s) {
            Ok(v) => h.s(&v.to_string()),
            Err(e) => h.err(&e),
        }
        match sonic_rs::from_str::<std::borrow::Cow<str>>(s) {
            Ok(v) => h.s(&v),
            Err(e) => h.err(&e),
        }
    }
    let well_formed = std::str::from_utf8(b).is_ok() && crate::refmodel::recog::parse_document(b).is_ok();
    let paths: Vec<Vec<PointerNode>> = derive_paths(b);
    let by = Bytes::copy_from_slice(b);
    for p in paths.iter().take(8) {
        match sonic_rs::get(b, p) {
            Ok(v) => {
                h.s(v.as_raw_str());
                h.n((v.as_raw_str().as_ptr() as usize).wrapping_sub(b.as_ptr() as usize) as u64);
            }
            Err(e) => h.err(&e),
        }
        if well_formed {
            if let Ok(v) = unsafe { sonic_rs::get_from_bytes_unchecked(&by, p) } {
                h.s(v.as_raw_str());
            }
        }
    }
    // (the five fixed paths of `derive_paths` are not shape-consistent with each other; the ones
    // read off the document are)
    if paths.len() > 5 {
        let mut tree = sonic_rs::PointerTree::new();
        for p in paths.iter().skip(5).take(6) {
            tree.add_path(p.iter());
        }
        match sonic_rs::get_many(b, &tree) {
            Ok(vs) => {
                for v in vs {
                    match v {
                        Some(v) => h.s(v.as_raw_str()),
                        None => h.s("-"),
                    }
                }
            }
            Err(e) => h.err(&e),
        }
    }
    for x in sonic_rs::to_array_iter(b).take(1000) {
        match x {
            Ok(v) => h.s(v.as_raw_str()),
            Err(e) => h.err(&e),
        }
    }
    for x in sonic_rs::to_object_iter(b).take(1000) {
        match x {
            Ok((k, v)) => {
                h.s(&k);
                h.s(v.as_raw_str());
            }
            Err(e) => h.err(&e),
        }
    }
    match sonic_rs::Deserializer::from_slice(b).utf8_lossy().deserialize::<serde_json::Value>() {
        Ok(v) => h.s(&v.to_string()),
        Err(e) => h.err(&e),
    }
    // the same bytes as a Rust string going out (escaper), when they are one
    if let Ok(s) = std::str::from_utf8(b) {
        h.s(&sonic_rs::to_string(s).unwrap_or_default());
        h.s(&sonic_rs::to_string_pretty(&[s, s]).unwrap_or_default());
    }
    h.0
}

/// inputs aimed at the 16/32/64-byte block structure of the vector code, the same in every build
fn nd_cases(g: &GenParams, emit: &mut dyn FnMut(Case)) {
    let mut r = Rng::new(g.seed.wrapping_mul(0x9E37_79B9).wrapping_add(g.shard * 1_000_003 + 0x6e64));
    let n = if g.tier == Tier::Quick { 14 } else { 160 };
    const WS: &[u8] = b" \t\r\n";
    let ws = |r: &mut Rng| -> Vec<u8> {
        let len = match r.below(6) {
            0 => 0,
            1 => r.below(4) as usize,
            2 => 60 + r.below(12) as usize,
            3 => 120 + r.below(20) as usize,
            _ => r.below(70) as usize,
        };
        let mono = r.chance(1, 3);
        let c = *r.pick(WS);
        (0..len).map(|_| if mono { c } else { *r.pick(WS) }).collect()
    };
    let tricky = |r: &mut Rng, max: u64| -> String {
        // string content made of what the skippers and escapers look for
        let len = r.below(max) as usize;
        let mut s = String::new();
        while s.len() < len {
            s.push_str(*r.pick(&["a", "b", "]", "}", "[", "{", ",", ":", "\\\"", "\\\\", "\\n", "\\u00e9", "\\ud83d\\ude00", "é", "中", "😀", " ", "0", "\\/", "\\t"]));
        }
        s
    };
    for k in 0..n {
        let mut d: Vec<u8> = vec![];
        match k % 7 {
            0 => {
                // blank runs between every pair of tokens
                let parts: &[&[u8]] = if r.chance(1, 2) { &[b"{", b"\"k\"", b":", b"[", b"1", b",", b"-2.5e3", b",", b"\"v\"", b"]", b",", b"\"n\"", b":", b"null", b"}"] } else { &[b"[", b"true", b",", b"{", b"\"a\"", b":", b"{", b"}", b"}", b",", b"[", b"]", b",", b"17", b"]"] };
                d.extend(ws(&mut r));
                for p in parts {
                    d.extend_from_slice(p);
                    d.extend(ws(&mut r));
                }
            }
            1 => {
                // one string literal: length, start offset and the place of the special sequence vary
                let off = r.below(66) as usize;
                d.extend(std::iter::repeat(b' ').take(off));
                d.push(b'"');
                d.extend_from_slice(tricky(&mut r, 110).as_bytes());
                match r.below(8) {
                    0 => d.push(0x1f),
                    1 => d.push(b'\n'),
                    2 => d.extend_from_slice(b"\\x"),
                    3 => d.extend_from_slice(b"\\ud800"),
                    4 => d.extend_from_slice(&[0xff]),
                    _ => {}
                }
                d.extend_from_slice(tricky(&mut r, 40).as_bytes());
                if !r.chance(1, 12) {
                    d.push(b'"');
                }
                d.extend(ws(&mut r));
            }
            2 => {
                // a member to skip over (strings full of brackets, quotes, backslashes), then the target
                let inner = format!("[\"{}\",{{\"{}\":[\"{}\"]}},\"{}\"]", tricky(&mut r, 90), tricky(&mut r, 30), tricky(&mut r, 70), tricky(&mut r, 20));
                d.extend_from_slice(format!("{{\"skip\":{},", inner).as_bytes());
                d.extend(ws(&mut r));
                d.extend_from_slice(b"\"a\":");
                d.extend(ws(&mut r));
                d.extend_from_slice(format!("[7,{}],\"t\":{}}}", r.below(1000), r.below(100000)).as_bytes());
            }
            3 => {
                // numbers: digit runs around the 16-digit vector conversion
                let digits = 1 + r.below(40) as usize;
                let mut t = String::new();
                if r.chance(1, 3) {
                    t.push('-');
                }
                for i in 0..digits {
                    t.push((b'0' + if i == 0 { 1 + r.below(9) as u8 } else { r.below(10) as u8 }) as char);
                }
                if r.chance(1, 2) {
                    t.push('.');
                    for _ in 0..1 + r.below(25) {
                        t.push((b'0' + r.below(10) as u8) as char);
                    }
                }
                if r.chance(1, 3) {
                    t.push_str(&format!("e{}", r.below(600) as i64 - 300));
                }
                if r.chance(1, 10) {
                    t.push_str(*r.pick(&["x", ".", "e", "-", "1e"]));
                }
                if r.chance(1, 2) {
                    d.extend_from_slice(t.as_bytes());
                } else {
                    d.extend_from_slice(format!("[{},{}]", t, t).as_bytes());
                }
            }
            4 => {
                // text for the escaper: a plain run with specials at chosen places
                let len = r.below(100) as usize;
                let mut s = String::new();
                for i in 0..len {
                    s.push((b'a' + (i % 26) as u8) as char);
                }
                for _ in 0..r.below(4) {
                    let at = if s.is_empty() { 0 } else { r.below(s.len() as u64 + 1) as usize };
                    let at = (0..=at).rev().find(|i| s.is_char_boundary(*i)).unwrap_or(0);
                    s.insert_str(at, *r.pick(&["\"", "\\", "\n", "\r", "\t", "\u{0}", "\u{1f}", "\u{7f}", "é", "中", "😀", "\u{8}", "\u{c}", "/"]));
                }
                d.extend_from_slice(s.as_bytes());
            }
            _ => {
                let mut o = DocOpts::random(&mut r);
                o.budget = o.budget.min(14);
                let doc = crate::gen::doc::gen_doc(&mut r, &o);
                let doc = if doc.len() > 260 { doc[..260].to_vec() } else { doc };
                d = if k % 7 == 5 { doc } else { crate::gen::mutate::mutate(&mut r, &doc).0 };
            }
        }
        if g.build != "miri-a64" {
            emit(Case::new("nd:x", d.clone()));
        }
        emit(Case::new("nd:r", d));
    }
}

pub fn observe_ser(s: &str) -> u64 {
    let mut h = H::new();
    h.s(&sonic_rs::to_string(s).unwrap_or_default());
    h.s(&sonic_rs::to_string_pretty(&vec![s, s]).unwrap_or_default());
    let v = Value::from(s);
    h.s(&sonic_rs::to_string(&v).unwrap_or_default());
    h.0
}

// ---- primitives against scalar loops

/// a backend's bitmask as one bit per lane
trait Lanes64 {
    fn lanes64(self) -> u64;
}
impl Lanes64 for u16 {
    fn lanes64(self) -> u64 {
        self as u64
    }
}
impl Lanes64 for u32 {
    fn lanes64(self) -> u64 {
        self as u64
    }
}
impl Lanes64 for u64 {
    fn lanes64(self) -> u64 {
        self
    }
}
/// the NEON mask keeps four bits per lane and has no accessor: its one field is read directly.
/// A lane whose four bits are neither all set nor all clear is reported as bit 63 (no backend
/// has a lane there), so that it never compares equal to a scalar result.
impl Lanes64 for sonic_simd::bits::NeonBits {
    fn lanes64(self) -> u64 {
        let raw: u64 = unsafe { std::mem::transmute(self) };
        let mut out = 0u64;
        for i in 0..16 {
            match (raw >> (4 * i)) & 0xf {
                0 => {}
                0xf => out |= 1 << i,
                _ => out |= 1 << 63,
            }
        }
        out
    }
}

fn fill(r: &mut Rng, buf: &mut [u8], special: u8) {
    for b in buf.iter_mut() {
        *b = match r.below(4) {
            0 => special,
            1 => special.wrapping_add(1),
            2 => special.wrapping_sub(1),
            _ => r.next() as u8,
        };
    }
}

macro_rules! check_unsigned {
    ($ctx:expr, $t:ty, $lanes:expr, $r:expr) => {{
        let lanes: usize = $lanes;
        for elem in (0..=255u8).step_by(if cfg!(miri) { 5 } else { 1 }) {
            // all 256 values in every lane (every 5th under the Miri interpreter): lane i holds (elem + i), compared with splat(elem)
            let mut a = [0u8; 64];
            for (i, x) in a.iter_mut().enumerate() {
                *x = elem.wrapping_add(i as u8);
            }
            for round in 0..(if cfg!(miri) { 1 } else { 3 }) {
                if round > 0 {
                    fill($r, &mut a, elem);
                }
                let va = unsafe { <$t>::loadu(a.as_ptr()) };
                let vs = <$t>::splat(elem);
                let mut back = [0u8; 64];
                unsafe { va.storeu(back.as_mut_ptr()) };
                if back[..lanes] != a[..lanes] {
                    $ctx.fail(&format!("simd-loadu-storeu:{}", stringify!($t)), format!("{:?} -> {:?}", &a[..lanes], &back[..lanes]));
                }
                let mut spl = [0u8; 64];
                unsafe { vs.storeu(spl.as_mut_ptr()) };
                if spl[..lanes].iter().any(|x| *x != elem) {
                    $ctx.fail(&format!("simd-splat:{}", stringify!($t)), format!("splat({}) = {:?}", elem, &spl[..lanes]));
                }
                let (mut eq, mut le, mut gt) = (0u64, 0u64, 0u64);
                for i in 0..lanes {
                    if a[i] == elem {
                        eq |= 1 << i;
                    }
                    if a[i] <= elem {
                        le |= 1 << i;
                    }
                    if a[i] > elem {
                        gt |= 1 << i;
                    }
                }
                let got_eq = va.eq(&vs).bitmask().lanes64();
                let got_le = va.le(&vs).bitmask().lanes64();
                let got_gt = va.gt(&vs).bitmask().lanes64();
                $ctx.ops(3);
                if got_eq != eq {
                    $ctx.fail(&format!("simd-eq:{}", stringify!($t)), format!("eq({:?}, splat {}) = {:#x}, scalar {:#x}", &a[..lanes], elem, got_eq, eq));
                }
                if got_le != le {
                    $ctx.fail(&format!("simd-le:{}", stringify!($t)), format!("le({:?}, splat {}) = {:#x}, scalar {:#x}", &a[..lanes], elem, got_le, le));
                }
                if got_gt != gt {
                    $ctx.fail(&format!("simd-gt:{}", stringify!($t)), format!("gt({:?}, splat {}) = {:#x}, scalar {:#x}", &a[..lanes], elem, got_gt, gt));
                }
                // mask | and &
                let m_or = (va.eq(&vs) | va.gt(&vs)).bitmask().lanes64();
                let m_and = (va.le(&vs) & va.eq(&vs)).bitmask().lanes64();
                if m_or != (eq | gt) || m_and != (le & eq) {
                    $ctx.fail(&format!("simd-mask-ops:{}", stringify!($t)), format!("| {:#x} vs {:#x}, & {:#x} vs {:#x}", m_or, eq | gt, m_and, le & eq));
                }
            }
        }
    }};
}

fn check_signed(ctx: &mut Ctx, r: &mut Rng) {
    for elem in (-128i16..=127).step_by(if cfg!(miri) { 5 } else { 1 }) {
        let elem = elem as i8;
        let mut a = [0u8; 32];
        for (i, x) in a.iter_mut().enumerate() {
            *x = (elem as u8).wrapping_add((i as u8).wrapping_mul(9));
        }
        for round in 0..(if cfg!(miri) { 1 } else { 2 }) {
            if round > 0 {
                fill(r, &mut a, elem as u8);
            }
            let va = unsafe { i8x32::loadu(a.as_ptr()) };
            let vs = i8x32::splat(elem);
            let (mut eq, mut le, mut gt) = (0u64, 0u64, 0u64);
            for i in 0..32 {
                let x = a[i] as i8;
                if x == elem {
                    eq |= 1 << i;
                }
                if x <= elem {
                    le |= 1 << i;
                }
                if x > elem {
                    gt |= 1 << i;
                }
            }
            ctx.ops(3);
            let (g_eq, g_le, g_gt) = (va.eq(&vs).bitmask().lanes64(), va.le(&vs).bitmask().lanes64(), va.gt(&vs).bitmask().lanes64());
            if g_eq != eq || g_le != le || g_gt != gt {
                ctx.fail("simd-signed:i8x32", format!("lanes {:?} vs splat {}: eq {:#x}/{:#x} le {:#x}/{:#x} gt {:#x}/{:#x}", a, elem, g_eq, eq, g_le, le, g_gt, gt));
            }
        }
    }
}

fn check_bitmask<T: BitMask + Copy + PartialEq + std::fmt::Debug + Into<u64>>(ctx: &mut Ctx, name: &str, make: impl Fn(u64) -> T, r: &mut Rng) {
    let len = T::LEN;
    let mask = if len == 64 { u64::MAX } else { (1u64 << len) - 1 };
    let mut vals: Vec<u64> = vec![0, 1, mask, mask >> 1, 1 << (len - 1)];
    for i in 0..len {
        vals.push(1 << i);
        vals.push((1u64 << i).wrapping_sub(1) & mask);
    }
    for _ in 0..(if cfg!(miri) { 8 } else { 2000 }) {
        vals.push(r.next() & mask);
    }
    for &v in &vals {
        let t = make(v);
        ctx.ops(3);
        if t.all_zero() != (v == 0) {
            ctx.fail(&format!("bitmask-all_zero:{}", name), format!("{:#x}", v));
        }
        if v != 0 && t.first_offset() != v.trailing_zeros() as usize {
            ctx.fail(&format!("bitmask-first_offset:{}", name), format!("{:#x}: {} vs {}", v, t.first_offset(), v.trailing_zeros()));
        }
        if t.as_little_endian().into() != v {
            ctx.fail(&format!("bitmask-as_little_endian:{}", name), format!("{:#x}", v));
        }
        for n in 0..=len {
            if cfg!(miri) && !(n < 2 || n + 2 > len) {
                continue;
            }
            let want = if n == len { 0 } else { v & (mask >> n) };
            let got: u64 = match crate::core::guarded(|| t.clear_high_bits(n).into()) {
                Ok(g) => g,
                Err(_) => {
                    ctx.fail(&format!("bitmask-clear_high_bits-panics:{}", name), format!("clear_high_bits({}) of {:#x} panicked", n, v));
                    continue;
                }
            };
            if got != want {
                ctx.fail(&format!("bitmask-clear_high_bits:{}", name), format!("clear_high_bits({}) of {:#x} = {:#x}, scalar {:#x}", n, v, got, want));
            }
        }
        // before(): some bit of self lies below the lowest bit of rhs
        for &w in vals.iter().take(40) {
            if w == 0 {
                continue;
            }
            let want = (v & (w & w.wrapping_neg()).wrapping_sub(1)) != 0;
            // the library's definition uses rhs-1, which for a multi-bit rhs also keeps rhs's
            // bits above its lowest one: compare on the documented meaning only when rhs has
            // a single bit
            if w.count_ones() == 1 && t.before(&make(w)) != want {
                ctx.fail(&format!("bitmask-before:{}", name), format!("{:#x}.before({:#x}) = {}, scalar {}", v, w, t.before(&make(w)), want));
            }
        }
    }
}

/// `sonic_simd::bits::NeonBits` (four bits per lane, 16 lanes) is plain integer code and public on
/// every target: its operators against a one-bit-per-lane model
fn check_neonbits(ctx: &mut Ctx, r: &mut Rng) {
    use sonic_simd::bits::NeonBits;
    let expand = |v: u64| -> u64 { (0..16).fold(0u64, |a, i| if v >> i & 1 == 1 { a | (0xf << (4 * i)) } else { a }) };
    let mut vals: Vec<u64> = vec![0, 1, 0xffff, 0x7fff, 0x8000];
    for i in 0..16 {
        vals.push(1 << i);
        vals.push((1u64 << i) - 1);
    }
    for _ in 0..(if cfg!(miri) { 8 } else { 2000 }) {
        vals.push(r.next() & 0xffff);
    }
    for &v in &vals {
        let t = NeonBits::new(expand(v));
        ctx.ops(3);
        if t.all_zero() != (v == 0) {
            ctx.fail("bitmask-all_zero:NeonBits", format!("{:#x}", v));
        }
        if v != 0 && t.first_offset() != v.trailing_zeros() as usize {
            ctx.fail("bitmask-first_offset:NeonBits", format!("{:#x}: {} vs {}", v, t.first_offset(), v.trailing_zeros()));
        }
        if t.as_little_endian().lanes64() != v {
            ctx.fail("bitmask-as_little_endian:NeonBits", format!("{:#x}", v));
        }
        // n = LEN (clear every lane) is what the integer masks accept too
        for n in 0..=16usize {
            let want = if n == 16 { 0 } else { v & (0xffff >> n) };
            let got = match crate::core::guarded(|| NeonBits::new(expand(v)).clear_high_bits(n).lanes64()) {
                Ok(g) => g,
                Err(_) => {
                    ctx.fail("bitmask-clear_high_bits-panics:NeonBits", format!("clear_high_bits({}) of lanes {:#x} panicked", n, v));
                    continue;
                }
            };
            if got != want {
                ctx.fail("bitmask-clear_high_bits:NeonBits", format!("clear_high_bits({}) of lanes {:#x} = lanes {:#x}, scalar {:#x}", n, v, got, want));
            }
        }
        for &w in vals.iter().take(40) {
            // (with four bits per lane `rhs - 1` keeps three bits of rhs's own lowest lane: the
            // operands are masks of disjoint byte classes wherever the library calls this, and
            // only that case has a defined answer)
            if w.count_ones() == 1 && v & w == 0 {
                let want = (v & (w - 1)) != 0;
                if t.before(&NeonBits::new(expand(w))) != want {
                    ctx.fail("bitmask-before:NeonBits", format!("lanes {:#x}.before(lanes {:#x}) = {}, scalar {}", v, w, !want, want));
                }
            }
        }
    }
}

fn check_primitives(ctx: &mut Ctx, seed: u64) {
    let mut r = Rng::new(seed);
    check_unsigned!(ctx, u8x16, 16, &mut r);
    check_unsigned!(ctx, u8x32, 32, &mut r);
    check_unsigned!(ctx, u8x64, 64, &mut r);
    check_signed(ctx, &mut r);
    check_bitmask::<u16>(ctx, "u16", |v| v as u16, &mut r);
    check_bitmask::<u32>(ctx, "u32", |v| v as u32, &mut r);
    check_bitmask::<u64>(ctx, "u64", |v| v, &mut r);
    check_neonbits(ctx, &mut r);
    // Mask::splat
    ctx.ops(2);
    if sonic_simd::m8x32::splat(true).bitmask() != u32::MAX || sonic_simd::m8x32::splat(false).bitmask() != 0 {
        ctx.fail("simd-mask-splat", "m8x32::splat".into());
    }
    ctx.class("primitives:checked");
}

/// the sub-workloads whose cases are transcribed
fn sub_generators() -> Vec<(&'static str, &'static dyn Check, f64)> {
    vec![
        ("C02", &crate::mon::c02::C02, 0.04),
        ("C03", &crate::mon::c03::C03, 0.15),
        ("C05", &crate::mon::c05::C05, 0.2),
        ("C09", &crate::mon::c09::C09, 0.2),
        ("C10", &crate::mon::c10::C10, 0.5),
        ("C12", &crate::mon::c12::C12, 0.5),
    ]
}

impl Check for C17 {
    fn id(&self) -> &'static str {
        "C17"
    }
    fn generate(&self, g: &GenParams, emit: &mut dyn FnMut(Case)) {
        if g.shard == 0 {
            emit(Case::with("primitives", vec![], &[g.seed as i64]));
        }
        if g.build == "miri-a64" {
            // aarch64 under the interpreter: primitives and the NEON cases
            nd_cases(g, emit);
            return;
        }
        if g.build.starts_with("miri") {
            // interpreter build (riscv64: the pure-Rust v128/v256/v512 types): primitives only
            return;
        }
        nd_cases(g, emit);
        for (name, chk, sc) in sub_generators() {
            // the sub-generators must yield the same cases in both builds: they get the same
            // parameters and a fixed build name
            let sub = GenParams { tier: g.tier, seed: g.seed, shard: g.shard, nshards: g.nshards, build: "native-rel".into(), scale: g.scale * sc };
            let mut fwd = |c: Case| {
                emit(Case { entry: format!("{}:{}", name, c.entry), input: c.input, params: c.params });
            };
            chk.generate(&sub, &mut fwd);
        }
    }
    fn exec(&self, ctx: &mut Ctx, c: &Case) {
        if c.entry == "primitives" {
            ctx.nontrivial();
            check_primitives(ctx, c.p(0) as u64);
            ctx.sample("primitives");
            return;
        }
        let (src, entry) = c.entry.split_once(':').unwrap_or(("?", "?"));
        ctx.ops(1);
        let obs = match (src, entry) {
            // the full observer (compared between the x86-64 builds only) and the reduced one (the
            // only one the aarch64 build runs)
            ("nd", "x") => observe_nd(&c.input, false),
            ("nd", _) => observe_nd(&c.input, true),
            ("C03", "corpus") => {
                let Some(f) = crate::mon::c03::corpus(c.p(0) as usize) else { return };
                let mut b = vec![b' '; c.p(1) as usize];
                b.extend_from_slice(&f);
                observe_doc(&b)
            }
            ("C05", "strgrid") => {
                let (len, pos, ci, chi) = (c.p(0) as usize, c.p(1) as usize, c.p(2) as usize, c.p(3) as usize);
                let (_, chars) = crate::mon::c05::CLASSES[ci % crate::mon::c05::CLASSES.len()];
                let ch = chars[chi % chars.len()];
                let mut s = String::new();
                for i in 0..len {
                    if i == pos {
                        s.push_str(ch);
                    } else {
                        s.push((b'a' + (i % 26) as u8) as char);
                    }
                }
                observe_ser(&s)
            }
            ("C05", "str") => observe_ser(&String::from_utf8_lossy(&c.input)),
            ("C05", "dyn") | ("C05", "fail") => {
                let mut r = Rng::new(c.p(0) as u64);
                let o = DynOpts::default();
                let x = gen_dyn(&mut r, &o, 0);
                let mut h = H::new();
                match sonic_rs::to_string(&x) {
                    Ok(s) => h.s(&s),
                    Err(e) => h.s(&e.to_string()),
                }
                match sonic_rs::to_string_pretty(&x) {
                    Ok(s) => h.s(&s),
                    Err(e) => h.s(&e.to_string()),
                }
                h.0
            }
            ("C09", "cps") => {
                let (start, n) = (c.p(0) as u32, c.p(1) as u32);
                let mut doc = b"[".to_vec();
                let mut first = true;
                for cp in start..start + n {
                    let Some(ch) = char::from_u32(cp) else { continue };
                    if !first {
                        doc.push(b',');
                    }
                    first = false;
                    doc.push(b'"');
                    let mut buf = [0u16; 2];
                    for u in ch.encode_utf16(&mut buf) {
                        doc.extend_from_slice(format!("\\u{:04x}", u).as_bytes());
                    }
                    doc.push(b'"');
                }
                doc.push(b']');
                observe_doc(&doc)
            }
            ("C09", "surrogates") => {
                let mut h = H::new();
                for s in c.p(0)..c.p(0) + c.p(1) {
                    h.n(observe_doc(format!("\"ab\\u{:04X}cd\"", s).as_bytes()));
                }
                h.0
            }
            ("C09", "grid") => {
                let (class, pos, len, off, post) = (c.p(0) as usize, c.p(1) as usize, c.p(2) as usize, c.p(3) as usize, c.p(4) as usize);
                let (_, seq) = crate::mon::c09::GRID_CLASSES[class % crate::mon::c09::GRID_CLASSES.len()];
                let mut d = vec![b' '; off];
                d.push(b'"');
                for i in 0..len {
                    if i == pos {
                        d.extend_from_slice(seq);
                    } else {
                        d.push(b'a' + (i % 26) as u8);
                    }
                }
                if pos >= len {
                    d.extend_from_slice(seq);
                }
                d.push(b'"');
                d.extend(std::iter::repeat(b' ').take(post));
                observe_doc(&d)
            }
            _ => observe_doc(&c.input),
        };
        ctx.transcript.push((c.digest(), obs));
        ctx.class(&format!("transcribed:{}", src));
        if c.input.len() > 8 || !c.params.is_empty() {
            ctx.nontrivial();
        }
        ctx.sample(src);
    }
    fn required_classes(&self, b: &str, _t: Tier) -> Vec<&'static str> {
        if b == "miri-a64" {
            return vec!["primitives:checked", "transcribed:nd"];
        }
        if b.starts_with("miri") {
            return vec!["primitives:checked"];
        }
        vec!["primitives:checked", "transcribed:nd", "transcribed:C02", "transcribed:C03", "transcribed:C05", "transcribed:C09", "transcribed:C10", "transcribed:C12"]
    }
}
