//! C06 — parse then serialise is lossless and reaches a fixpoint.
use sonic_rs::{Deserializer, Value};

use crate::core::{Case, Check, Ctx, GenParams, Tier};
use crate::gen::doc::{self, DocOpts};
use crate::mon::common::{exact, tree_eq};
use crate::refmodel::recog::{self, K, R};

pub struct C06;

/// stable sort of every object's members by key (byte order), duplicates keep their order
fn sort_stable(r: &mut R) {
    match &mut r.k {
        K::Arr(v) => v.iter_mut().for_each(sort_stable),
        K::Obj(v) => {
            v.iter_mut().for_each(|(_, x)| sort_stable(x));
            v.sort_by(|a, b| a.0.key_str().map(|s| s.as_bytes()).cmp(&b.0.key_str().map(|s| s.as_bytes())));
        }
        _ => {}
    }
}

fn number_tokens<'a>(r: &R, t: &'a [u8], out: &mut Vec<&'a [u8]>) {
    match &r.k {
        K::Num(_) => out.push(&t[r.start..r.end]),
        K::Arr(v) => v.iter().for_each(|x| number_tokens(x, t, out)),
        K::Obj(v) => v.iter().for_each(|(_, x)| number_tokens(x, t, out)),
        _ => {}
    }
}

fn check_roundtrip(ctx: &mut Ctx, mode: &str, t: &[u8], td: &recog::Doc, v: &Value, raw_numbers: bool) {
    ctx.ops(1);
    let s = match sonic_rs::to_string(v) {
        Ok(s) => s,
        Err(e) => {
            ctx.fail(&format!("ser-failed:{}", mode), e.to_string());
            return;
        }
    };
    // Display, to_string and to_vec agree
    let disp = format!("{}", v);
    let vec = sonic_rs::to_vec(v).unwrap_or_default();
    if disp != s || vec != s.as_bytes() {
        ctx.fail(&format!("display-differs:{}", mode), format!("Display {:?} / to_vec {:?} / to_string {:?}", crate::core::truncate(&disp, 150), crate::core::truncate(&String::from_utf8_lossy(&vec), 150), crate::core::truncate(&s, 150)));
    }
    // Display into a sink that fails part-way (a bounded log line) leaves nothing behind: the next
    // Display on this thread is again the whole text, and a pretty `{:#}` / padded `{:>8}` request
    // does not corrupt it either
    {
        use std::fmt::Write as _;
        struct Bounded(String, usize);
        impl std::fmt::Write for Bounded {
            fn write_str(&mut self, t: &str) -> std::fmt::Result {
                if self.0.len() + t.len() > self.1 {
                    return Err(std::fmt::Error);
                }
                self.0.push_str(t);
                Ok(())
            }
        }
        let mut sink = Bounded(String::new(), s.len() / 2);
        let r = write!(sink, "{}", v);
        let again = format!("{}", v);
        let mut ok_sink = Bounded(String::new(), usize::MAX);
        let _ = write!(ok_sink, "{}", v);
        if again != s || ok_sink.0 != s || (r.is_ok() && s.len() > 1) || !s.starts_with(&sink.0) {
            ctx.fail(&format!("display-after-failed-sink:{}", mode), format!("after a Display into a sink bounded to {} bytes the next Display gives {:?}, to_string {:?}", s.len() / 2, crate::core::truncate(&again, 150), crate::core::truncate(&s, 150)));
        }
    }
    // s parses to an equal DOM, and serialising that again gives s byte for byte
    let reparse = |text: &str| -> Result<Value, sonic_rs::Error> {
        if raw_numbers {
            Deserializer::from_str(text).use_rawnumber().deserialize::<Value>()
        } else {
            sonic_rs::from_str::<Value>(text)
        }
    };
    match reparse(&s) {
        Ok(v2) => {
            if &v2 != v {
                ctx.fail(&format!("reparse-not-equal:{}", mode), format!("from_str(to_string(v)) != v for {:?} -> {:?}", crate::core::truncate(&String::from_utf8_lossy(t), 200), crate::core::truncate(&s, 200)));
            }
            match sonic_rs::to_string(&v2) {
                Ok(s2) if s2 == s => {}
                Ok(s2) => ctx.fail(&format!("no-fixpoint:{}", mode), format!("{:?} then {:?}", crate::core::truncate(&s, 200), crate::core::truncate(&s2, 200))),
                Err(e) => ctx.fail(&format!("ser-failed:{}", mode), e.to_string()),
            }
        }
        Err(e) => ctx.fail(&format!("output-rejected:{}", mode), format!("{:?}: {}", crate::core::truncate(&s, 200), crate::mon::common::err_brief(&e))),
    }
    // the text denotes the same tree: order, duplicates, integer digits, f64 bits
    match recog::parse_document(s.as_bytes()) {
        Ok(sd) => {
            let mut want = td.root.clone();
            if cfg!(feature = "sort_keys") {
                sort_stable(&mut want);
            }
            if let Err(m) = tree_eq(&sd.root, s.as_bytes(), &want, t, &mut String::new()) {
                ctx.fail(&format!("tree-differs:{}{}", mode, if cfg!(feature = "sort_keys") { ":sort_keys" } else { "" }), format!("{} ; {:?} -> {:?}", m, crate::core::truncate(&String::from_utf8_lossy(t), 200), crate::core::truncate(&s, 200)));
            }
            if raw_numbers {
                let (mut a, mut b) = (vec![], vec![]);
                number_tokens(&sd.root, s.as_bytes(), &mut a);
                number_tokens(&want, t, &mut b);
                if a != b {
                    let i = a.iter().zip(b.iter()).position(|(x, y)| x != y).unwrap_or(0);
                    ctx.fail(&format!("number-not-verbatim:{}", mode), format!("number token #{}: {:?} vs source {:?}", i, a.get(i).map(|x| String::from_utf8_lossy(x).to_string()), b.get(i).map(|x| String::from_utf8_lossy(x).to_string())));
                }
            }
            // integers keep their exact digits
            if !raw_numbers {
                let (mut a, mut b) = (vec![], vec![]);
                number_tokens(&sd.root, s.as_bytes(), &mut a);
                number_tokens(&want, t, &mut b);
                for (x, y) in a.iter().zip(b.iter()) {
                    let plain = !y.iter().any(|c| matches!(c, b'.' | b'e' | b'E'));
                    let fits = matches!(crate::refmodel::num::classify(y), crate::refmodel::num::RefNum::U(_) | crate::refmodel::num::RefNum::I(_));
                    if plain && fits && x != y && y != b"-0" {
                        ctx.fail(&format!("integer-digits-changed:{}", mode), format!("{:?} -> {:?}", String::from_utf8_lossy(y), String::from_utf8_lossy(x)));
                        break;
                    }
                }
            }
        }
        Err(e) => ctx.fail(&format!("output-malformed:{}", mode), format!("byte {} of {:?}", e.at, crate::core::truncate(&s, 200))),
    }
    // pretty re-parses equal
    ctx.ops(1);
    match sonic_rs::to_string_pretty(v) {
        Ok(p) => match reparse(&p) {
            Ok(vp) => {
                if &vp != v {
                    ctx.fail(&format!("pretty-reparse-not-equal:{}", mode), format!("{:?}", crate::core::truncate(&p, 200)));
                }
                if p.as_bytes() != &crate::refmodel::esc::pretty(s.as_bytes())[..] {
                    ctx.fail(&format!("pretty-not-reindented-compact:{}", mode), format!("{:?}", crate::core::truncate(&p, 200)));
                }
            }
            Err(e) => ctx.fail(&format!("pretty-rejected:{}", mode), format!("{:?}: {}", crate::core::truncate(&p, 200), crate::mon::common::err_brief(&e))),
        },
        Err(e) => ctx.fail(&format!("ser-failed:{}", mode), e.to_string()),
    }
}

pub fn check_doc(ctx: &mut Ctx, t: &[u8]) {
    let td = match recog::parse_document(t) {
        Ok(d) if d.full_ok() && d.flags.max_depth <= 64 => d,
        _ => {
            ctx.class("skipped:not-valid");
            return;
        }
    };
    ctx.class("doc:valid");
    if td.flags.has_dup_keys {
        ctx.class("doc:duplicate-keys");
    }
    if td.flags.nodes >= 3 {
        ctx.nontrivial();
    }
    let ex = exact(t);
    let ap = cfg!(feature = "arbitrary_precision");
    match sonic_rs::from_slice::<Value>(&ex) {
        Ok(v) => check_roundtrip(ctx, "whole", t, &td, &v, ap),
        Err(e) => ctx.fail("reject-valid", e.to_string()),
    }
    match Deserializer::from_slice(&ex).use_rawnumber().deserialize::<Value>() {
        Ok(v) => {
            ctx.class("mode:rawnumber");
            check_roundtrip(ctx, "rawnumber", t, &td, &v, true)
        }
        Err(e) => ctx.fail("reject-valid:rawnumber", e.to_string()),
    }
    // a clone and a value extracted from a typed structure behave the same
    #[derive(serde::Deserialize)]
    struct W {
        v: Value,
    }
    let mut w = b"{\"v\":".to_vec();
    w.extend_from_slice(t);
    w.push(b'}');
    if let Ok(x) = sonic_rs::from_slice::<W>(&w) {
        check_roundtrip(ctx, "embedded", t, &td, &x.v, ap);
        let c = x.v.clone();
        drop(x);
        check_roundtrip(ctx, "embedded-clone", t, &td, &c, ap);
    }
}

impl Check for C06 {
    fn id(&self) -> &'static str {
        "C06"
    }
    fn generate(&self, g: &GenParams, emit: &mut dyn FnMut(Case)) {
        let mut r = g.rng(6);
        let n = g.count(150_000, 8_000_000);
        for k in 0..n {
            let mut o = DocOpts::random(&mut r);
            o.dup_keys = k % 4 == 0;
            emit(Case::new("doc", doc::gen_doc(&mut r, &o)));
        }
        // nested documents of every depth 1..64 (pretty indentation, node-buffer parent links)
        for d in 1..=64usize {
            if g.mine(d as u64) {
                for _ in 0..(if g.tier == Tier::Quick { 2 } else { 40 }) {
                    emit(Case::new("nested", doc::nested(&mut r, d)));
                }
            }
        }
        // documents around one string (value or member name) of hundreds of KiB to a few MiB
        if g.scale >= 0.5 {
            for i in 0..(if g.tier == Tier::Quick { 16u64 } else { 64 }) {
                if g.mine(9000 + i) {
                    emit(Case::with("huge-string", vec![], &[i as i64]));
                }
            }
        }
        let mut idx = 0;
        for f in 0..crate::mon::c03::CORPUS.len() {
            if g.mine(idx) && (g.scale >= 0.5 || f < 2) {
                emit(Case::with("corpus", vec![], &[f as i64]));
            }
            idx += 1;
        }
    }
    fn exec(&self, ctx: &mut Ctx, c: &Case) {
        if c.entry == "huge-string" {
            let i = c.p(0) as usize;
            const LENS: [usize; 8] = [262_144, 262_175, 300_001, (1 << 20) + 5, 2_097_150, (4 << 20) + 33, 5_242_883, 4_194_303];
            let filler: &[&str] = [&["QUJD", "0123"][..], &["中", "文", "字"][..], &["é", "ü"][..], &["a", "é", "中", "😀", "\\n", "\\u00e9", "bcdefgh"][..]][(i / 2) % 4];
            let len = LENS[i % 8] + i / 8;
            let mut body = String::with_capacity(len + 16);
            let mut k = 0usize;
            while body.len() < len {
                body.push_str(filler[k % filler.len()]);
                k += 1;
            }
            if i % 3 == 0 {
                body.push_str("\\n");
            }
            let d = if i % 4 == 3 { format!("{{\"{}\":[1,2],\"z\":\"x\"}}", body) } else { format!("[0.5,{{\"k\":\"{}\",\"n\":-7}},\"end\"]", body) };
            ctx.class("doc:huge-string");
            check_doc(ctx, d.as_bytes());
            ctx.sample("huge-string");
            if let Some(last) = ctx.samples.last_mut() {
                last["value"] = serde_json::json!(format!("{} bytes around one string of {:?}…", d.len(), filler));
            }
            return;
        }
        if c.entry == "corpus" {
            if let Some(f) = crate::mon::c03::corpus(c.p(0) as usize) {
                ctx.class("doc:corpus");
                check_doc(ctx, &f);
            }
        } else {
            check_doc(ctx, &c.input);
        }
        ctx.sample(&c.entry);
    }
    fn required_classes(&self, _b: &str, _t: Tier) -> Vec<&'static str> {
        if _b == "native-rel" {
            return vec!["doc:valid", "doc:duplicate-keys", "mode:rawnumber", "doc:corpus", "doc:huge-string"];
        }
        vec!["doc:valid", "doc:duplicate-keys", "mode:rawnumber", "doc:corpus"]
    }
}
