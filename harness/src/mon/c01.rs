//! C01 — safe entry points never panic, abort, touch invalid memory or leak, on any input.
//!
//! Oracle: process status (supervisor), panic hook, sanitizer runtime, allocation ledger,
//! UTF-8 validity of every str handed out. No behavioural expectation is checked here.
use std::borrow::Cow;
use std::collections::HashMap;

use bytes::Bytes;
use faststr::FastStr;
use serde::de::IgnoredAny;
use serde::{Deserialize, Serialize};
use sonic_rs::JsonValueMutTrait;
use sonic_rs::{
    Deserializer, JsonContainerTrait, JsonValueTrait, LazyValue, Number, OwnedLazyValue, PointerNode, PointerTree,
    RawNumber, Value,
};

use crate::core::{guarded, panic_sig, Case, Check, Ctx, GenParams, Tier};
use crate::gen::{doc, mutate, tokens};
use crate::ledger;
use crate::mon::common::{exact, GuardBuf};
use crate::refmodel::lookup::{all_paths, PathEl};
use crate::refmodel::recog;

pub struct C01;

#[derive(Deserialize, Serialize, Debug, Default)]
struct Unk {
    #[serde(default)]
    a: Option<i64>,
    #[serde(default)]
    b: Option<String>,
}

#[derive(Deserialize, Serialize, Debug)]
enum En {
    A,
    B(i32),
    C { x: u8 },
    D(i8, String),
}

#[derive(Deserialize, Serialize, Debug)]
struct Borrowed<'a> {
    #[serde(borrow)]
    a: Option<Cow<'a, str>>,
    #[serde(borrow)]
    b: Option<&'a str>,
}

/// observations collected while driving (kept outside the ledger window)
#[derive(Default)]
pub struct Obs {
    pub calls: u64,
    pub oks: u64,
    pub errs: u64,
    pub bad_utf8: Vec<String>,
    pub panics: Vec<(String, String, String)>,
    pub notes: Vec<String>,
}

impl Obs {
    #[inline]
    fn s(&mut self, what: &str, s: &str) {
        if std::str::from_utf8(s.as_bytes()).is_err() {
            self.bad_utf8.push(what.to_string());
        }
    }
    fn err(&mut self, what: &str, e: &sonic_rs::Error) {
        self.errs += 1;
        let d = e.to_string();
        self.s(what, &d);
        let _ = format!("{:?}", e);
        let _ = (e.offset(), e.line(), e.column(), e.classify(), e.is_eof(), e.is_syntax(), e.is_not_found(), e.is_io(), e.is_unmatched_type());
    }
}

macro_rules! ep {
    ($obs:expr, $name:expr, $body:block) => {{
        $obs.calls += 1;
        let name: &str = $name;
        let r = guarded(|| $body);
        if let Err((loc, msg)) = r {
            $obs.panics.push((name.to_string(), loc, msg));
        }
    }};
}

fn ser_all<T: Serialize + std::fmt::Debug>(o: &mut Obs, what: &str, v: &T) {
    match sonic_rs::to_string(v) {
        Ok(s) => o.s(what, &s),
        Err(e) => o.err(what, &e),
    }
    match sonic_rs::to_string_pretty(v) {
        Ok(s) => o.s(what, &s),
        Err(e) => o.err(what, &e),
    }
    let _ = sonic_rs::to_vec(v);
    let d = format!("{:?}", v);
    o.s(what, &d);
}

fn typed<'a, T: Deserialize<'a> + Serialize + std::fmt::Debug>(o: &mut Obs, what: &str, b: &'a [u8]) {
    match sonic_rs::from_slice::<T>(b) {
        Ok(v) => {
            o.oks += 1;
            ser_all(o, what, &v);
        }
        Err(e) => o.err(what, &e),
    }
}

fn walk_value(o: &mut Obs, v: &Value, depth: usize) {
    if depth > 70 {
        return;
    }
    if let Some(s) = v.as_str() {
        o.s("Value::as_str", s);
    }
    let _ = (v.get_type(), v.as_bool(), v.as_f64(), v.as_i64(), v.as_u64(), v.as_number(), v.is_null());
    if let Some(rn) = v.as_raw_number() {
        o.s("Value::as_raw_number", rn.as_str());
    }
    if let Some(a) = v.as_array() {
        for x in a.iter() {
            walk_value(o, x, depth + 1);
        }
    }
    if let Some(ob) = v.as_object() {
        for (k, x) in ob.iter() {
            o.s("Object key", k);
            walk_value(o, x, depth + 1);
        }
    }
}

fn use_lazy(o: &mut Obs, what: &str, lv: &LazyValue) {
    o.s(what, lv.as_raw_str());
    if let Some(s) = lv.as_str() {
        o.s(what, s);
    }
    let _ = (lv.get_type(), lv.as_bool(), lv.as_f64(), lv.as_i64(), lv.as_u64(), lv.as_number(), lv.is_null());
    if let Some(rn) = lv.as_raw_number() {
        o.s(what, rn.as_str());
    }
    let _ = lv.get(0).map(|x| x.as_raw_str().len());
    let _ = lv.get("a").map(|x| x.as_raw_str().len());
    let _ = lv.as_raw_cow();
    let _ = lv.as_raw_faststr();
    if let Ok(s) = sonic_rs::to_string(lv) {
        o.s(what, &s);
    }
    let _ = format!("{:?}", lv);
    let c = lv.clone();
    if let Some(it) = c.into_array_iter() {
        for x in it.take(10_000) {
            if let Ok(x) = x {
                o.s(what, x.as_raw_str());
            }
        }
    }
    let c = lv.clone();
    if let Some(it) = c.into_object_iter() {
        for x in it.take(10_000) {
            if let Ok((k, x)) = x {
                o.s(what, &k);
                o.s(what, x.as_raw_str());
            }
        }
    }
}

fn use_owned(o: &mut Obs, what: &str, lv: &OwnedLazyValue) {
    if let Some(s) = lv.as_str() {
        o.s(what, s);
    }
    let _ = (lv.get_type(), lv.as_bool(), lv.as_f64(), lv.as_i64(), lv.as_u64(), lv.as_number(), lv.is_null());
    if let Some(rn) = lv.as_raw_number() {
        o.s(what, rn.as_str());
    }
    let _ = lv.get(0).map(|x| x.get_type());
    let _ = lv.get("a").map(|x| x.get_type());
    if let Ok(s) = sonic_rs::to_string(lv) {
        o.s(what, &s);
    }
    let _ = format!("{:?}", lv);
    let c = lv.clone();
    if let Ok(s) = sonic_rs::to_string(&c) {
        o.s(what, &s);
    }
    // a value that was read (children cached) and is then reached through the mutable accessors
    let mut m = lv.clone();
    let _ = (m.get(0).map(|x| x.get_type()), m.get("a").map(|x| x.get_type()), m.as_array().map(|a| a.len()), m.as_object().map(|x| x.len()));
    if let Some(x) = m.get_mut(0) {
        let _ = x.take();
    }
    if let Some(x) = m.get_mut("a") {
        *x = OwnedLazyValue::from(LazyValue::default());
    }
    if let Some(a) = m.as_array_mut() {
        a.push(lv.clone());
        a.truncate(3);
    }
    if let Some(ob) = m.as_object_mut() {
        ob.append_pair(FastStr::new("k\"2"), lv.clone());
    }
    let _ = m.pointer_mut(&[PointerNode::Index(1), PointerNode::Key(FastStr::new("a"))]).map(|x| x.take());
    if let Ok(s) = sonic_rs::to_string(&m) {
        o.s(what, &s);
    }
    let t = m.take();
    drop(m);
    drop(t);
}

pub fn derive_paths(b: &[u8]) -> Vec<Vec<PointerNode>> {
    let mut out: Vec<Vec<PointerNode>> = vec![
        vec![],
        vec![PointerNode::Key(FastStr::new("a"))],
        vec![PointerNode::Index(0)],
        vec![PointerNode::Key(FastStr::new("a")), PointerNode::Index(1)],
        vec![PointerNode::Index(1), PointerNode::Key(FastStr::new(""))],
    ];
    if b.len() < 100_000 {
        if let Ok(d) = recog::parse_prefix(b, 0) {
            if d.flags.max_depth < 200 {
                for p in all_paths(&d.root, 8) {
                    out.push(to_pointer(&p));
                }
            }
        }
    }
    out
}

pub fn to_pointer(p: &[PathEl]) -> Vec<PointerNode> {
    p.iter()
        .map(|e| match e {
            PathEl::Key(k) => PointerNode::Key(FastStr::new(k)),
            PathEl::Idx(i) => PointerNode::Index(*i),
        })
        .collect()
}

fn poll_stream<'de, T: Deserialize<'de>, R: sonic_rs::reader::Reader<'de> + 'de>(o: &mut Obs, what: &str, de: Deserializer<R>) {
    let mut st = de.into_stream::<T>();
    let mut n = 0;
    loop {
        match st.next() {
            Some(Ok(_)) => o.oks += 1,
            Some(Err(e)) => o.err(what, &e),
            None => break,
        }
        n += 1;
        if n > 20_000 {
            o.notes.push(format!("{}: stream did not end within 20000 items", what));
            break;
        }
    }
    for _ in 0..3 {
        let _ = st.next().map(|r| r.map(|_| ()).map_err(|e| e.to_string()));
    }
}

/// Drive every safe entry point with `b`.
pub fn drive(o: &mut Obs, b: &[u8], light: bool) {
    let ex = exact(b);
    let sl: &[u8] = &ex;
    let st: Option<&str> = std::str::from_utf8(sl).ok();

    // ---- from_slice x targets
    ep!(o, "from_slice<Value>", {
        match sonic_rs::from_slice::<Value>(sl) {
            Ok(v) => {
                o.oks += 1;
                walk_value(o, &v, 0);
                ser_all(o, "Value", &v);
                let d = format!("{}", v);
                o.s("Value Display", &d);
                let c = v.clone();
                drop(v);
                walk_value(o, &c, 0);
            }
            Err(e) => o.err("from_slice<Value>", &e),
        }
    });
    ep!(o, "from_slice<LazyValue>", {
        match sonic_rs::from_slice::<LazyValue>(sl) {
            Ok(v) => {
                o.oks += 1;
                use_lazy(o, "LazyValue", &v);
                let ov: OwnedLazyValue = v.clone().into();
                use_owned(o, "OwnedLazyValue::from(LazyValue)", &ov);
            }
            Err(e) => o.err("from_slice<LazyValue>", &e),
        }
    });
    ep!(o, "from_slice<OwnedLazyValue>", {
        match sonic_rs::from_slice::<OwnedLazyValue>(sl) {
            Ok(v) => {
                o.oks += 1;
                use_owned(o, "OwnedLazyValue", &v);
            }
            Err(e) => o.err("from_slice<OwnedLazyValue>", &e),
        }
    });
    ep!(o, "from_slice<serde_json::Value>", { typed::<serde_json::Value>(o, "serde_json::Value", sl) });
    ep!(o, "from_slice<IgnoredAny>", {
        match sonic_rs::from_slice::<IgnoredAny>(sl) {
            Ok(_) => o.oks += 1,
            Err(e) => o.err("IgnoredAny", &e),
        }
    });
    ep!(o, "from_slice<String>", { typed::<String>(o, "String", sl) });
    ep!(o, "from_slice<Cow<str>>", { typed::<Cow<str>>(o, "Cow<str>", sl) });
    ep!(o, "from_slice<Borrowed>", { typed::<Borrowed>(o, "Borrowed", sl) });
    ep!(o, "from_slice<f64>", { typed::<f64>(o, "f64", sl) });
    ep!(o, "from_slice<f32>", { typed::<f32>(o, "f32", sl) });
    ep!(o, "from_slice<u64>", { typed::<u64>(o, "u64", sl) });
    ep!(o, "from_slice<i8>", { typed::<i8>(o, "i8", sl) });
    ep!(o, "from_slice<i128>", { typed::<i128>(o, "i128", sl) });
    ep!(o, "from_slice<u128>", { typed::<u128>(o, "u128", sl) });
    ep!(o, "from_slice<Number>", { typed::<Number>(o, "Number", sl) });
    ep!(o, "from_slice<RawNumber>", { typed::<RawNumber>(o, "RawNumber", sl) });
    ep!(o, "from_slice<Unk>", { typed::<Unk>(o, "Unk", sl) });
    ep!(o, "from_slice<En>", { typed::<En>(o, "En", sl) });
    ep!(o, "from_slice<HashMap<i32,Value>>", { typed::<HashMap<i32, Value>>(o, "HashMap<i32,Value>", sl) });
    ep!(o, "from_slice<HashMap<String,LazyValue>>", {
        match sonic_rs::from_slice::<HashMap<String, LazyValue>>(sl) {
            Ok(m) => {
                o.oks += 1;
                for (k, v) in &m {
                    o.s("map key", k);
                    o.s("map lazy", v.as_raw_str());
                }
            }
            Err(e) => o.err("HashMap<String,LazyValue>", &e),
        }
    });
    ep!(o, "from_slice<Vec<Value>>", { typed::<Vec<Value>>(o, "Vec<Value>", sl) });
    ep!(o, "from_slice<Vec<u8>>", { typed::<Vec<u8>>(o, "Vec<u8>", sl) });
    ep!(o, "from_slice<(bool,Option<char>,())>", { typed::<(bool, Option<char>, ())>(o, "tuple", sl) });
    ep!(o, "from_slice<ByteBuf>", { typed::<serde_bytes::ByteBuf>(o, "ByteBuf", sl) });
    ep!(o, "from_slice<sonic_rs::Array>", { typed::<sonic_rs::Array>(o, "Array", sl) });
    ep!(o, "from_slice<sonic_rs::Object>", { typed::<sonic_rs::Object>(o, "Object", sl) });

    // ---- from_str / from_reader
    if let Some(s) = st {
        ep!(o, "from_str<Value>", {
            match sonic_rs::from_str::<Value>(s) {
                Ok(v) => {
                    o.oks += 1;
                    walk_value(o, &v, 0);
                }
                Err(e) => o.err("from_str<Value>", &e),
            }
        });
        ep!(o, "from_str<LazyValue>", {
            match sonic_rs::from_str::<LazyValue>(s) {
                Ok(v) => {
                    o.oks += 1;
                    use_lazy(o, "LazyValue(str)", &v)
                }
                Err(e) => o.err("from_str<LazyValue>", &e),
            }
        });
        ep!(o, "from_str<Borrowed>", {
            match sonic_rs::from_str::<Borrowed>(s) {
                Ok(v) => {
                    o.oks += 1;
                    ser_all(o, "Borrowed", &v)
                }
                Err(e) => o.err("from_str<Borrowed>", &e),
            }
        });
    }
    ep!(o, "from_reader<Value>", {
        match sonic_rs::from_reader::<_, Value>(sl) {
            Ok(v) => {
                o.oks += 1;
                walk_value(o, &v, 0)
            }
            Err(e) => o.err("from_reader<Value>", &e),
        }
    });

    // ---- Deserializer over carriers, repeated deserialize calls
    let by = Bytes::copy_from_slice(b);
    ep!(o, "Deserializer::from_json(&Bytes) x3", {
        let mut de = Deserializer::from_json(&by);
        for _ in 0..3 {
            match de.deserialize::<Value>() {
                Ok(v) => {
                    o.oks += 1;
                    walk_value(o, &v, 0)
                }
                Err(e) => o.err("de<Value>", &e),
            }
        }
    });
    ep!(o, "Deserializer::from_slice lossy", {
        let mut de = Deserializer::from_slice(sl).utf8_lossy();
        match de.deserialize::<Value>() {
            Ok(v) => {
                o.oks += 1;
                walk_value(o, &v, 0);
                ser_all(o, "lossy Value", &v);
            }
            Err(e) => o.err("lossy<Value>", &e),
        }
        let mut de = Deserializer::from_slice(sl).utf8_lossy();
        match de.deserialize::<String>() {
            Ok(v) => {
                o.oks += 1;
                o.s("lossy String", &v);
            }
            Err(e) => o.err("lossy<String>", &e),
        }
        let mut de = Deserializer::from_slice(sl).utf8_lossy();
        match de.deserialize::<HashMap<String, String>>() {
            Ok(v) => {
                o.oks += 1;
                for (k, x) in &v {
                    o.s("lossy map key", k);
                    o.s("lossy map val", x);
                }
            }
            Err(e) => o.err("lossy<HashMap>", &e),
        }
    });
    ep!(o, "Deserializer::from_slice rawnumber", {
        let mut de = Deserializer::from_slice(sl).use_rawnumber();
        match de.deserialize::<Value>() {
            Ok(v) => {
                o.oks += 1;
                walk_value(o, &v, 0);
                ser_all(o, "rawnumber Value", &v);
            }
            Err(e) => o.err("rawnumber<Value>", &e),
        }
    });
    if let Some(s) = st {
        let fs = FastStr::new(s);
        ep!(o, "Deserializer::from_json(&FastStr) x2 typed", {
            let mut de = Deserializer::from_json(&fs);
            for _ in 0..2 {
                match de.deserialize::<Unk>() {
                    Ok(_) => o.oks += 1,
                    Err(e) => o.err("de<Unk>", &e),
                }
            }
            let mut de = Deserializer::from_json(&fs);
            for _ in 0..2 {
                match de.deserialize::<OwnedLazyValue>() {
                    Ok(v) => {
                        o.oks += 1;
                        use_owned(o, "de<OwnedLazyValue>", &v)
                    }
                    Err(e) => o.err("de<OwnedLazyValue>", &e),
                }
            }
        });
        let owned = s.to_string();
        ep!(o, "Deserializer::from_json(&String)", {
            let mut de = Deserializer::from_json(&owned);
            match de.deserialize::<LazyValue>() {
                Ok(v) => {
                    o.oks += 1;
                    use_lazy(o, "de<LazyValue>", &v)
                }
                Err(e) => o.err("de<LazyValue>", &e),
            }
        });
    }

    // ---- streams
    ep!(o, "stream<Value>", { poll_stream::<Value, _>(o, "stream<Value>", Deserializer::from_slice(sl)) });
    ep!(o, "stream<LazyValue>", { poll_stream::<LazyValue, _>(o, "stream<LazyValue>", Deserializer::from_json(&by)) });
    ep!(o, "stream<i32>", { poll_stream::<i32, _>(o, "stream<i32>", Deserializer::from_slice(sl)) });
    ep!(o, "stream<String>", { poll_stream::<String, _>(o, "stream<String>", Deserializer::from_slice(sl)) });

    // ---- get family
    let paths = derive_paths(b);
    let npaths = if light { 3 } else { paths.len() };
    for p in paths.iter().take(npaths) {
        ep!(o, "get(&[u8])", {
            match sonic_rs::get(sl, p) {
                Ok(v) => {
                    o.oks += 1;
                    use_lazy(o, "get", &v)
                }
                Err(e) => o.err("get", &e),
            }
        });
        ep!(o, "get_from_slice", {
            match sonic_rs::get_from_slice(sl, p) {
                Ok(v) => {
                    o.oks += 1;
                    o.s("get_from_slice", v.as_raw_str())
                }
                Err(e) => o.err("get_from_slice", &e),
            }
        });
        ep!(o, "get_from_bytes", {
            match sonic_rs::get_from_bytes(&by, p) {
                Ok(v) => {
                    o.oks += 1;
                    o.s("get_from_bytes", v.as_raw_str())
                }
                Err(e) => o.err("get_from_bytes", &e),
            }
        });
        if let Some(s) = st {
            ep!(o, "get_from_str", {
                match sonic_rs::get_from_str(s, p) {
                    Ok(v) => {
                        o.oks += 1;
                        use_lazy(o, "get_from_str", &v)
                    }
                    Err(e) => o.err("get_from_str", &e),
                }
            });
            ep!(o, "get_from_faststr", {
                let fs = FastStr::new(s);
                match sonic_rs::get_from_faststr(&fs, p) {
                    Ok(v) => {
                        o.oks += 1;
                        o.s("get_from_faststr", v.as_raw_str())
                    }
                    Err(e) => o.err("get_from_faststr", &e),
                };
            });
            ep!(o, "get(String)", {
                let owned = s.to_string();
                match sonic_rs::get(&owned, p) {
                    Ok(v) => {
                        o.oks += 1;
                        o.s("get(String)", v.as_raw_str())
                    }
                    Err(e) => o.err("get(String)", &e),
                }
            });
        }
    }
    ep!(o, "get_many", {
        // a shape-consistent path set: the paths derived from the document itself, or a fixed
        // all-keys set when there are none
        let mut t = PointerTree::new();
        if paths.len() > 5 {
            for p in paths.iter().skip(5).take(npaths) {
                t.add_path(p);
            }
        } else {
            t.add_path(&[PointerNode::Key(FastStr::new("a"))]);
            t.add_path(&[PointerNode::Key(FastStr::new("a")), PointerNode::Key(FastStr::new("b"))]);
            t.add_path(&[PointerNode::Key(FastStr::new("id"))]);
        }
        match sonic_rs::get_many(sl, &t) {
            Ok(vs) => {
                o.oks += 1;
                for v in vs.iter().flatten() {
                    o.s("get_many", v.as_raw_str());
                }
            }
            Err(e) => o.err("get_many", &e),
        }
        if let Some(s) = st {
            match sonic_rs::get_many(s, &t) {
                Ok(_) => o.oks += 1,
                Err(e) => o.err("get_many(str)", &e),
            }
        }
    });
    ep!(o, "get_by_schema", {
        let schema = sonic_rs::json!({"a": null, "b": {"c": 1, "": []}, "id": 0, "name": "", "x": {}, "k": {"k": {"k": 1}}});
        match sonic_rs::get_by_schema(sl, schema) {
            Ok(v) => {
                o.oks += 1;
                walk_value(o, &v, 0);
                ser_all(o, "get_by_schema", &v);
            }
            Err(e) => o.err("get_by_schema", &e),
        }
        if let Ok(doc_schema) = sonic_rs::from_slice::<Value>(sl) {
            if doc_schema.is_object() {
                match sonic_rs::get_by_schema(sl, doc_schema) {
                    Ok(v) => {
                        o.oks += 1;
                        walk_value(o, &v, 0)
                    }
                    Err(e) => o.err("get_by_schema(self)", &e),
                }
            }
        }
    });

    // ---- lazy iterators polled to exhaustion + 3
    ep!(o, "to_array_iter(&[u8])", {
        let mut it = sonic_rs::to_array_iter(sl);
        let mut n = 0;
        while let Some(x) = it.next() {
            match x {
                Ok(v) => {
                    o.oks += 1;
                    o.s("array item", v.as_raw_str())
                }
                Err(e) => o.err("to_array_iter", &e),
            }
            n += 1;
            if n > 1_000_000 {
                o.notes.push("to_array_iter did not end".into());
                break;
            }
        }
        for _ in 0..3 {
            let _ = it.next().is_some();
        }
    });
    ep!(o, "to_object_iter(&[u8])", {
        let mut it = sonic_rs::to_object_iter(sl);
        let mut n = 0;
        while let Some(x) = it.next() {
            match x {
                Ok((k, v)) => {
                    o.oks += 1;
                    o.s("object key", &k);
                    o.s("object item", v.as_raw_str())
                }
                Err(e) => o.err("to_object_iter", &e),
            }
            n += 1;
            if n > 1_000_000 {
                o.notes.push("to_object_iter did not end".into());
                break;
            }
        }
        for _ in 0..3 {
            let _ = it.next().is_some();
        }
    });
    if let Some(s) = st {
        ep!(o, "to_array_iter(&str)", {
            for x in sonic_rs::to_array_iter(s).take(1_000_000) {
                if let Ok(v) = x {
                    o.s("array item", v.as_raw_str());
                }
            }
        });
        ep!(o, "to_object_iter(&FastStr)", {
            let fs = FastStr::new(s);
            for x in sonic_rs::to_object_iter(&fs).take(1_000_000) {
                if let Ok((k, v)) = x {
                    o.s("object key", &k);
                    o.s("object item", v.as_raw_str());
                }
            }
        });
    }
    ep!(o, "to_array_iter(&Bytes)", {
        for x in sonic_rs::to_array_iter(&by).take(1_000_000) {
            if let Ok(v) = x {
                o.s("array item", v.as_raw_str());
            }
        }
        for x in sonic_rs::to_object_iter(&by).take(1_000_000) {
            if let Ok((k, v)) = x {
                o.s("object key", &k);
                o.s("object item", v.as_raw_str());
            }
        }
    });
}

/// the release over-read path of the parser: input ending exactly at a PROT_NONE page
fn drive_guard(o: &mut Obs, b: &[u8]) {
    let Some(g) = GuardBuf::new(b) else { return };
    let sl = g.as_slice();
    ep!(o, "guard:from_slice<Value>", {
        let _ = sonic_rs::from_slice::<Value>(sl).map(|v| walk_value(o, &v, 0));
    });
    ep!(o, "guard:from_slice<LazyValue>", {
        let _ = sonic_rs::from_slice::<LazyValue>(sl).map(|v| v.as_raw_str().len());
    });
    ep!(o, "guard:from_slice<String>", {
        let _ = sonic_rs::from_slice::<String>(sl);
        let _ = sonic_rs::from_slice::<f64>(sl);
        let _ = sonic_rs::from_slice::<Unk>(sl);
    });
    for p in derive_paths(b).iter().take(6) {
        ep!(o, "guard:get", {
            let _ = sonic_rs::get_from_slice(sl, p).map(|v| v.as_raw_str().len());
        });
    }
    ep!(o, "guard:iters", {
        for x in sonic_rs::to_array_iter(sl).take(100_000) {
            let _ = x.map(|v| v.as_raw_str().len());
        }
        for x in sonic_rs::to_object_iter(sl).take(100_000) {
            let _ = x.map(|(_, v)| v.as_raw_str().len());
        }
    });
    if let Some(s) = g.as_str() {
        ep!(o, "guard:from_str<Value>", {
            let _ = sonic_rs::from_str::<Value>(s).map(|v| sonic_rs::to_string(&v).map(|s| s.len()));
        });
    }
}

/// The entry points that do not touch the DOM (`Value`): the only ones the Miri interpreter can
/// execute on this tree (DESIGN.md, observation O1). No behavioural oracle here: Miri itself is
/// the monitor (undefined behaviour, data races, leaks), plus the UTF-8 check of handed-out strs.
pub fn drive_nodom(o: &mut Obs, b: &[u8]) {
    let ex = exact(b);
    let sl: &[u8] = &ex;
    ep!(o, "from_slice<LazyValue>", {
        match sonic_rs::from_slice::<LazyValue>(sl) {
            Ok(v) => {
                o.oks += 1;
                use_lazy(o, "LazyValue", &v);
                let ov: OwnedLazyValue = v.clone().into();
                use_owned(o, "OwnedLazyValue::from(LazyValue)", &ov);
            }
            Err(e) => o.err("from_slice<LazyValue>", &e),
        }
    });
    ep!(o, "from_slice<OwnedLazyValue>", {
        match sonic_rs::from_slice::<OwnedLazyValue>(sl) {
            Ok(v) => {
                o.oks += 1;
                use_owned(o, "OwnedLazyValue", &v);
            }
            Err(e) => o.err("from_slice<OwnedLazyValue>", &e),
        }
    });
    ep!(o, "typed", {
        typed::<serde_json::Value>(o, "serde_json::Value", sl);
        typed::<String>(o, "String", sl);
        typed::<Cow<str>>(o, "Cow<str>", sl);
        typed::<Borrowed>(o, "Borrowed", sl);
        typed::<f64>(o, "f64", sl);
        typed::<u64>(o, "u64", sl);
        typed::<i128>(o, "i128", sl);
        typed::<Number>(o, "Number", sl);
        typed::<RawNumber>(o, "RawNumber", sl);
        typed::<Unk>(o, "Unk", sl);
        typed::<En>(o, "En", sl);
        typed::<Vec<u8>>(o, "Vec<u8>", sl);
        typed::<HashMap<String, String>>(o, "HashMap", sl);
        let _ = sonic_rs::from_slice::<IgnoredAny>(sl);
        let mut de = Deserializer::from_slice(sl).utf8_lossy();
        if let Ok(s) = de.deserialize::<String>() {
            o.s("lossy String", &s);
        }
    });
    ep!(o, "stream<LazyValue>", { poll_stream::<LazyValue, _>(o, "stream<LazyValue>", Deserializer::from_slice(sl)) });
    let paths = derive_paths(b);
    for p in paths.iter().take(6) {
        ep!(o, "get", {
            match sonic_rs::get(sl, p) {
                Ok(v) => {
                    o.oks += 1;
                    use_lazy(o, "get", &v)
                }
                Err(e) => o.err("get", &e),
            }
        });
    }
    ep!(o, "get_many", {
        let mut t = PointerTree::new();
        if paths.len() > 5 {
            for p in paths.iter().skip(5).take(4) {
                t.add_path(p);
            }
        } else {
            t.add_path(&[PointerNode::Key(FastStr::new("a"))]);
        }
        match sonic_rs::get_many(sl, &t) {
            Ok(vs) => {
                for v in vs.iter().flatten() {
                    o.s("get_many", v.as_raw_str());
                }
            }
            Err(e) => o.err("get_many", &e),
        }
    });
    ep!(o, "iterators", {
        for x in sonic_rs::to_array_iter(sl).take(1000) {
            if let Ok(v) = x {
                o.s("array item", v.as_raw_str());
            }
        }
        for x in sonic_rs::to_object_iter(sl).take(1000) {
            if let Ok((k, v)) = x {
                o.s("object key", &k);
                o.s("object item", v.as_raw_str());
            }
        }
    });
    // serialisation of strings (format_string with the `sanitize` feature)
    if let Ok(s) = std::str::from_utf8(sl) {
        ep!(o, "to_string(&str)", {
            if let Ok(out) = sonic_rs::to_string(s) {
                o.s("to_string(&str)", &out);
            }
            let _ = sonic_rs::to_string_pretty(&vec![s, s]);
            let mut v = Vec::new();
            let _ = sonic_rs::to_writer(&mut v, s);
        });
    }
}

pub fn run_input(ctx: &mut Ctx, b: &[u8], light: bool) {
    if ctx.build.starts_with("miri") {
        let mut o = Obs::default();
        drive_nodom(&mut o, b);
        ctx.ops(o.calls);
        ctx.class_n("outcome:ok", o.oks);
        ctx.class_n("outcome:err", o.errs);
        ctx.class("miri:nodom-driver");
        ctx.nontrivial();
        for (name, loc, msg) in &o.panics {
            ctx.fail(&format!("{}:{}", name, panic_sig(loc, msg)), format!("panic in safe entry point {}: {} at {}", name, msg, loc));
        }
        for w in &o.bad_utf8 {
            ctx.fail(&format!("invalid-utf8-str:{}", w), format!("a str handed out by the library is not valid UTF-8 ({})", w));
        }
        return;
    }
    let mut o1 = Obs::default();
    drive(&mut o1, b, light);
    if !ctx.is_instrumented() {
        drive_guard(&mut o1, b);
    }
    ctx.ops(o1.calls);
    ctx.class_n("outcome:ok", o1.oks);
    ctx.class_n("outcome:err", o1.errs);
    if o1.oks > 0 && o1.errs > 0 {
        ctx.nontrivial();
    } else if b.len() > 8 {
        ctx.nontrivial();
    }
    for (name, loc, msg) in &o1.panics {
        ctx.fail(&format!("{}:{}", name, panic_sig(loc, msg)), format!("panic in safe entry point {}: {} at {}", name, msg, loc));
    }
    for w in &o1.bad_utf8 {
        ctx.fail(&format!("invalid-utf8-str:{}", w), format!("a str handed out by the library is not valid UTF-8 ({})", w));
    }
    for n in &o1.notes {
        ctx.fail(&format!("no-termination:{}", n), n.clone());
    }
    // ledger: a second identical execution must not change the live allocation count
    if ledger::enabled() && o1.panics.is_empty() && !light {
        let s0 = ledger::snap();
        {
            let mut o2 = Obs::default();
            drive(&mut o2, b, light);
            drop(o2);
        }
        let s1 = ledger::snap();
        ctx.class("ledger:checked");
        if s1.blocks != s0.blocks {
            ctx.fail(
                "leak:ledger",
                format!("live heap blocks changed across a repeated execution: {} -> {} ({} bytes)", s0.blocks, s1.blocks, s1.bytes - s0.bytes),
            );
        }
    }
}

impl Check for C01 {
    fn id(&self) -> &'static str {
        "C01"
    }
    fn generate(&self, g: &GenParams, emit: &mut dyn FnMut(Case)) {
        let mut r = g.rng(1);
        if g.build.starts_with("miri") {
            // the interpreter is ~4 orders of magnitude slower: a handful of small hostile inputs
            let n = if g.tier == Tier::Quick { 5 } else { 120 };
            for k in 0..n {
                let mut o = doc::DocOpts::random(&mut r);
                o.budget = o.budget.min(12);
                let d = doc::gen_doc(&mut r, &o);
                let d = if d.len() > 300 { d[..300].to_vec() } else { d };
                if k % 2 == 0 {
                    emit(Case::new("doc", d));
                } else {
                    emit(Case::new("mut", mutate::mutate(&mut r, &d).0));
                }
            }
            // strings of chosen lengths around the vector widths for format_string
            for len in [0usize, 1, 15, 16, 17, 31, 32, 33, 63, 64, 65, 80] {
                if g.mine(len as u64) {
                    let mut s = String::new();
                    for i in 0..len {
                        s.push(if i % 11 == 3 { '"' } else if i % 13 == 5 { '\\' } else if i % 17 == 7 { '\n' } else { (b'a' + (i % 26) as u8) as char });
                    }
                    emit(Case::new("str", s.into_bytes()));
                }
            }
            return;
        }
        // deep nesting, closed and unclosed (generated from params; input left empty)
        let depths: &[i64] = if g.tier == Tier::Quick { &[32, 48, 100, 129, 254, 255, 256, 300, 2_000, 20_000, 100_000] } else { &[32, 48, 100, 127, 128, 129, 255, 256, 257, 1_000, 10_000, 100_000, 1_000_000] };
        let mut idx = 0;
        for kind in 0..6 {
            for d in depths {
                if g.mine(idx) && (g.scale >= 0.5 || *d <= 100_000) {
                    emit(Case::with("deep", vec![], &[kind, *d]));
                }
                idx += 1;
            }
        }
        // strings of thousands of adjacent escapes / multi-byte characters, as value, skipped
        // member, member name, nested
        {
            let counts: &[i64] = if g.tier == Tier::Quick { &[3_000, 40_000, 400_000] } else { &[1_000, 3_000, 10_000, 40_000, 150_000, 400_000, 1_500_000] };
            let mut idx = 0u64;
            for kind in 0..10i64 {
                for (ci, cnt) in counts.iter().enumerate() {
                    idx += 1;
                    if g.mine(6000 + idx) && (g.scale >= 0.5 || *cnt <= 40_000) {
                        emit(Case::with("long-run", vec![], &[kind, *cnt, kind + ci as i64]));
                    }
                }
            }
        }
        // ONE deserializer / stream polled again and again after errors (a skip-the-bad-record
        // loop): state that leaks per error (depth budgets, marks, scratch) shows only there
        for kind in 0..8i64 {
            // (the deeply nested records are left out of the unoptimised build: finding F30)
            if g.mine(5000 + kind as u64) && !(g.build == "native-dbg0" && kind % 4 < 2) {
                emit(Case::with("reuse", vec![], &[kind, 300 + 40 * kind]));
            }
        }
        // generated + mutated documents
        let n = g.count(20_000, 1_500_000);
        for k in 0..n {
            let d = doc::gen_any(&mut r);
            match k % 4 {
                0 => emit(Case::new("doc", d)),
                _ => {
                    let (m, _) = mutate::mutate(&mut r, &d);
                    let m = if r.chance(1, 4) { mutate::mutate(&mut r, &m).0 } else { m };
                    emit(Case::new("mut", m));
                }
            }
        }
        // hostile number literals (long digit runs, exact halfway expansions up to ~1100 digits,
        // huge exponents), bare and inside containers
        let n = g.count(3_000, 200_000);
        for _ in 0..n {
            emit(Case::with("num", vec![], &[r.next() as i64]));
        }
        // token sequences
        let total = tokens::count(if g.scale >= 0.5 { 3 } else { 2 });
        let mut buf = Vec::new();
        let mut i = g.shard;
        while i < total {
            tokens::nth(i, &mut buf);
            emit(Case::new("tok", buf.clone()));
            i += g.nshards;
        }
        // every length 0..200 of padded variants: a document truncated at every length
        if g.scale >= 0.5 {
            for _ in 0..(if g.tier == Tier::Quick { 2 } else { 40 }) {
                let mut o = doc::DocOpts::default();
                o.budget = 60;
                o.ws = 2;
                let d = doc::gen_doc(&mut r, &o);
                for l in 0..d.len().min(260) {
                    emit(Case::new("prefix", d[..l].to_vec()));
                }
            }
        }
        // large documents (>= 390 KB: heap node buffer) and their truncations
        let nbig = if g.tier == Tier::Quick { 1 } else { 4 };
        for k in 0..nbig {
            if g.scale >= 0.5 && (g.tier == Tier::Thorough || g.shard < 4) {
                let b = doc::big(&mut r, 400_000 + 50_000 * k);
                let cut = r.range(b.len() / 2, b.len() - 1);
                emit(Case::new("big", b.clone()));
                emit(Case::new("big-cut", b[..cut].to_vec()));
            }
        }
        // corpus
        let mut idx = 0;
        for f in 0..crate::mon::c03::CORPUS.len() {
            if g.mine(idx) && g.scale >= 0.5 {
                emit(Case::with("corpus", vec![], &[f as i64, 0]));
                emit(Case::with("corpus", vec![], &[f as i64, 1 + r.below(1000) as i64]));
            }
            idx += 1;
        }
    }
    fn exec(&self, ctx: &mut Ctx, c: &Case) {
        match c.entry.as_str() {
            "deep" => {
                let b = doc::deep(c.p(0), c.p(1) as usize);
                ctx.class(if c.p(1) > 128 { "input:deep>128" } else { "input:deep<=128" });
                run_input(ctx, &b, true);
                ctx.sample("deep");
            }
            "long-run" => {
                // a string made of thousands of ADJACENT tokens of one kind (escapes of every
                // sort, multi-byte characters, backslash pairs): anything that handles "the next
                // one" by calling itself needs stack in proportion to the input
                let (kind, count, place) = (c.p(0) as usize, c.p(1) as usize, c.p(2));
                let unit = ["\\n", "\\\"", "\\\\", "\\u0000", "\\ud83d\\ude00", "\\/", "é", "😀", "\\u00e9x", "\\t\\r"][kind % 10];
                let run = unit.repeat(count);
                let text = match place % 4 {
                    0 => format!("\"{}\"", run),
                    1 => format!("{{\"skip\":[\"{}\",1],\"a\":[7,8]}}", run),
                    2 => format!("{{\"{}\":1,\"a\":2}}", run),
                    _ => format!("[[\"{}\"],{{\"a\":\"{}\"}}]", run, &run[..run.len().min(unit.len() * 100)]),
                };
                ctx.class("input:long-run-of-escapes");
                run_input(ctx, text.as_bytes(), true);
                ctx.sample("long-run");
            }
            "reuse" => {
                let (kind, calls) = (c.p(0), c.p(1) as usize);
                // the input: records that fail in different ways, the deserializer is asked for
                // the next record `calls` times whatever happened
                let bad: String = match kind % 4 {
                    // enough nesting for every call to run into the limit again
                    0 => "[".repeat(256 * (calls + 20)),
                    1 => "{\"a\":".repeat(256 * (calls + 20)),
                    2 => "\"\\q\" \"\\ud800 \" [\"x\\u12\"] ".repeat(120),
                    _ => "[1,] {\"a\" 1} tru 01 \"\u{1}\" ".repeat(100),
                };
                let text = format!("{} [1,{{\"k\":\"v\"}}] ", bad);
                let exb = exact(text.as_bytes());
                ctx.class("input:reused-deserializer");
                ctx.nontrivial();
                macro_rules! poll {
                    ($name:expr, $t:ty, $de:expr) => {{
                        let mut de = $de;
                        let r = guarded(|| {
                            let mut n_err = 0usize;
                            for _ in 0..calls {
                                match de.deserialize::<$t>() {
                                    Ok(_) => {}
                                    Err(e) => {
                                        n_err += 1;
                                        let _ = e.to_string();
                                        let _ = format!("{:?} {} {} {}", e.classify(), e.offset(), e.line(), e.column());
                                    }
                                }
                            }
                            n_err
                        });
                        if let Err((sig, msg)) = r {
                            ctx.fail(&format!("{}:{}", $name, sig), format!("panic in a loop over one reused deserializer ({} calls): {}", calls, msg));
                        }
                    }};
                }
                if kind < 4 {
                    poll!("reuse:Deserializer<Value>", Value, Deserializer::from_slice(&exb));
                    poll!("reuse:Deserializer<serde_json::Value>", serde_json::Value, Deserializer::from_slice(&exb));
                    poll!("reuse:Deserializer<Vec<Vec<String>>>", Vec<Vec<String>>, Deserializer::from_slice(&exb));
                } else {
                    poll!("reuse:Deserializer(rawnumber,lossy)<Value>", Value, Deserializer::from_slice(&exb).use_rawnumber().utf8_lossy());
                    poll!("reuse:Deserializer<OwnedLazyValue>", OwnedLazyValue, Deserializer::from_slice(&exb));
                    poll!("reuse:Deserializer<IgnoredAny>", serde::de::IgnoredAny, Deserializer::from_slice(&exb));
                }
                ctx.sample("reuse");
            }
            "num" => {
                let mut r = crate::rng::Rng::new(c.p(0) as u64);
                let lit = match r.below(3) {
                    0 => crate::gen::numlit::hostile(&mut r),
                    1 => crate::gen::numlit::number_shape(r.range(1, 140), r.below(64) as usize, r.chance(1, 4), r.range(0, 40)),
                    _ => {
                        let x = crate::gen::numlit::random_f64_bits(&mut r);
                        match crate::gen::numlit::halfway(x) {
                            Some(l) => {
                                let k = r.below(3) as usize;
                                if r.chance(1, 3) {
                                    crate::gen::numlit::respell(&mut r, &l[k])
                                } else {
                                    l[k].clone()
                                }
                            }
                            None => "1".into(),
                        }
                    }
                };
                let doc = match r.below(4) {
                    0 => lit.clone(),
                    1 => format!("[{}]", lit),
                    2 => format!("{{\"a\":{},\"b\":[-{}]}}", lit, lit),
                    _ => format!(" {} ", lit),
                };
                ctx.class("input:number-literal");
                if lit.len() > 700 {
                    ctx.class("input:number>700-digits");
                }
                run_input(ctx, doc.as_bytes(), false);
                ctx.sample("num");
            }
            "corpus" => {
                let Some(mut f) = crate::mon::c03::corpus(c.p(0) as usize) else { return };
                if c.p(1) > 0 {
                    let cut = f.len() * (c.p(1) as usize) / 1001;
                    f.truncate(cut);
                }
                ctx.class("input:corpus");
                run_input(ctx, &f, true);
            }
            e => {
                if c.input.len() >= 390_000 {
                    ctx.class("input:>=390KB");
                }
                if std::str::from_utf8(&c.input).is_err() {
                    ctx.class("input:non-utf8");
                }
                ctx.class("input:generated");
                run_input(ctx, &c.input, c.input.len() > 100_000);
                ctx.sample(e);
            }
        }
    }
    fn required_classes(&self, b: &str, _t: Tier) -> Vec<&'static str> {
        if b.starts_with("miri") {
            vec!["miri:nodom-driver"]
        } else if b == "native-rel" {
            vec!["input:deep>128", "input:generated", "input:non-utf8", "outcome:ok", "outcome:err", "ledger:checked", "input:>=390KB", "input:number-literal", "input:number>700-digits", "input:long-run-of-escapes"]
        } else {
            vec!["input:generated", "outcome:ok", "outcome:err"]
        }
    }
}
