//! C19 — converting through the DOM commutes with converting through text; equality laws.
use serde::{Deserialize, Serialize};
use std::borrow::Cow;
use std::collections::{BTreeMap, HashMap};

use sonic_rs::{JsonContainerTrait, JsonValueMutTrait, JsonValueTrait, Value};

use crate::core::{Case, Check, Ctx, GenParams, Tier};
use crate::gen::doc::{self, DocOpts};
use crate::gen::dynval::{gen_dyn, Dyn, DynOpts, Key};
use crate::mon::c04::*;
use crate::mon::common::{cmp_doc, NumMode};
use crate::refmodel::recog::{self, K, R};
use crate::rng::Rng;

pub struct C19;

// ---- (1) Dyn values: to_value vs parse(to_string) and the documented failure table

fn widen_f32(d: &Dyn) -> Dyn {
    match d {
        Dyn::F32(x) => Dyn::F64(*x as f64),
        Dyn::Some(x) => Dyn::Some(Box::new(widen_f32(x))),
        Dyn::NewtypeStruct(x) => Dyn::NewtypeStruct(Box::new(widen_f32(x))),
        Dyn::NewtypeVariant(n, x) => Dyn::NewtypeVariant(n, Box::new(widen_f32(x))),
        Dyn::Seq(v) => Dyn::Seq(v.iter().map(widen_f32).collect()),
        Dyn::Tuple(v) => Dyn::Tuple(v.iter().map(widen_f32).collect()),
        Dyn::TupleStruct(v) => Dyn::TupleStruct(v.iter().map(widen_f32).collect()),
        Dyn::TupleVariant(n, v) => Dyn::TupleVariant(n, v.iter().map(widen_f32).collect()),
        Dyn::Map(v) => Dyn::Map(v.iter().map(|(k, x)| (k.clone(), widen_f32(x))).collect()),
        Dyn::Struct(v) => Dyn::Struct(v.iter().map(|(k, x)| (*k, widen_f32(x))).collect()),
        Dyn::StructVariant(n, v) => Dyn::StructVariant(n, v.iter().map(|(k, x)| (*k, widen_f32(x))).collect()),
        other => other.clone(),
    }
}

fn check_dyn(ctx: &mut Ctx, x: &Dyn) {
    ctx.ops(1);
    let nonfinite = x.any(&|d| matches!(d, Dyn::F64(f) if !f.is_finite()) || matches!(d, Dyn::F32(f) if !f.is_finite()));
    let wide = x.any(&|d| match d {
        Dyn::I128(i) => *i < i64::MIN as i128 || *i > u64::MAX as i128,
        Dyn::U128(u) => *u > u64::MAX as u128,
        Dyn::Map(v) => v.iter().any(|(k, _)| matches!(k, Key::U128(u) if *u > u64::MAX as u128)),
        _ => false,
    });
    let bad_key = x.has_bad_key();
    let text = sonic_rs::to_string(x);
    let dom = sonic_rs::to_value(x);
    if bad_key {
        ctx.class("table:non-string-key");
        if text.is_ok() || dom.is_ok() {
            ctx.fail("failure-table:bad-key", format!("non-stringifiable key kind: text route {:?}, DOM route {:?}", text.is_ok(), dom.is_ok()));
        }
        return;
    }
    let Ok(text) = text else {
        ctx.fail("text-route-failed", format!("to_string failed: {:?}", text.err().map(|e| e.to_string())));
        return;
    };
    // wide 128-bit *keys* are stringified on both routes; only values are in the failure table
    let wide_value = x.any(&|d| match d {
        Dyn::I128(i) => *i < i64::MIN as i128 || *i > u64::MAX as i128,
        Dyn::U128(u) => *u > u64::MAX as u128,
        _ => false,
    });
    let _ = wide;
    if nonfinite || wide_value {
        ctx.class(if nonfinite { "table:non-finite" } else { "table:wide-128" });
        if let Ok(d) = &dom {
            ctx.fail(
                if nonfinite { "failure-table:non-finite" } else { "failure-table:wide-128" },
                format!("to_value succeeded ({}) where the documented counterpart of text {:?} is an error", crate::core::truncate(&sonic_rs::to_string(d).unwrap_or_default(), 150), crate::core::truncate(&text, 150)),
            );
        }
        return;
    }
    let dom = match dom {
        Ok(d) => d,
        Err(e) => {
            ctx.fail("dom-route-failed", format!("to_value failed ({}) but to_string gives {:?}", e, crate::core::truncate(&text, 200)));
            return;
        }
    };
    ctx.class("dyn:both-routes-ok");
    let parsed: Value = match sonic_rs::from_str(&text) {
        Ok(v) => v,
        Err(e) => {
            ctx.fail("text-not-reparsable", format!("{:?}: {}", crate::core::truncate(&text, 200), e));
            return;
        }
    };
    if dom == parsed && parsed == dom {
        return;
    }
    // F15 classification: the two DOMs may differ only where an f32 was widened by to_value
    let has_f32 = x.any(&|d| matches!(d, Dyn::F32(_)));
    if has_f32 {
        let wtext = sonic_rs::to_string(&widen_f32(x)).unwrap_or_default();
        if let Ok(wparsed) = sonic_rs::from_str::<Value>(&wtext) {
            if wparsed == dom {
                ctx.fail(
                    "to_value-vs-text differs-only-at-f32-leaf-equal-after-narrowing",
                    format!("to_value keeps the f32 widened to f64, the text route prints the shortest f32: {:?} vs {:?}", crate::core::truncate(&sonic_rs::to_string(&dom).unwrap_or_default(), 120), crate::core::truncate(&text, 120)),
                );
                return;
            }
        }
    }
    ctx.fail(
        "routes-differ",
        format!("to_value(x) = {:?} but from_str(to_string(x)) = {:?}", crate::core::truncate(&sonic_rs::to_string(&dom).unwrap_or_default(), 200), crate::core::truncate(&text, 200)),
    );
}

// ---- (2) typed family: from_value(dom) == x == from_str(text)

macro_rules! rt {
    ($name:expr, $t:ty) => {
        (
            $name,
            (|ctx: &mut Ctx, s: &[u8]| {
                let Ok(st) = std::str::from_utf8(s) else { return };
                let Ok(x) = sonic_rs::from_str::<$t>(st) else {
                    ctx.class("typed:text-not-matching");
                    return;
                };
                // an instance with a non-finite float (an f32 target overflowed by its text, the
                // documented narrowing) prints as null and is not a round-trip subject
                let dbg = format!("{:?}", x);
                if dbg.contains("inf") || dbg.contains("NaN") {
                    return;
                }
                ctx.ops(1);
                ctx.class("typed:instance");
                // from_value on DOMs of other shapes fails cleanly (the mismatch reporting of the DOM
                // deserializer is code of its own): no panic, and an error that can be displayed
                {
                    let mut rr = Rng::new(s.len() as u64 ^ 0x6d69736d);
                    for _ in 0..2 {
                        let other = crate::mon::c04::generic(&mut rr);
                        if let Ok(v) = sonic_rs::from_str::<Value>(&other) {
                            match crate::core::guarded(|| sonic_rs::from_value::<$t>(&v).map(|_| ()).map_err(|e| e.to_string())) {
                                Ok(Err(m)) if m.is_empty() => ctx.fail(&format!("from_value-empty-error:{}", $name), other.clone()),
                                Ok(_) => {}
                                Err(_) => ctx.fail(&format!("from_value-panicked:{}", $name), format!("from_value::<{}> panicked on the DOM of {:?}", $name, crate::core::truncate(&other, 120))),
                            }
                        }
                    }
                    ctx.class("typed:mismatching-doms");
                }
                let text = match sonic_rs::to_string(&x) {
                    Ok(t) => t,
                    Err(e) => {
                        ctx.fail(&format!("typed-text-route-failed:{}", $name), e.to_string());
                        return;
                    }
                };
                match sonic_rs::from_str::<$t>(&text) {
                    Ok(y) if y == x => {}
                    other => ctx.fail(&format!("typed-text-roundtrip:{}", $name), format!("{:?} -> {:?} -> {:?}", x, text, other.map_err(|e| e.to_string()))),
                }
                let dom = match sonic_rs::to_value(&x) {
                    Ok(d) => d,
                    Err(e) => {
                        // documented: 128-bit beyond 64 bit, non-finite floats
                        let excused = text.split(|c: char| !c.is_ascii_digit() && c != '-').any(|tok| tok.len() > 19 && (tok.parse::<u64>().is_err() && tok.parse::<i64>().is_err())) || text.contains("null");
                        if !excused {
                            ctx.fail(&format!("typed-dom-route-failed:{}", $name), format!("to_value({:?}) failed: {}", x, e));
                        } else {
                            ctx.class("typed:dom-route-documented-error");
                        }
                        return;
                    }
                };
                match sonic_rs::from_value::<$t>(&dom) {
                    Ok(y) if y == x => {}
                    other => ctx.fail(&format!("typed-dom-roundtrip:{}", $name), format!("from_value(to_value({:?})) = {:?}", x, other.map_err(|e| e.to_string()))),
                }
                if let Ok(parsed) = sonic_rs::from_str::<Value>(&text) {
                    if parsed != dom && $name != "f32" {
                        ctx.fail(&format!("typed-routes-differ:{}", $name), format!("to_value({:?}) = {:?} vs text {:?}", x, sonic_rs::to_string(&dom).unwrap_or_default(), text));
                    }
                    // and the DOM parsed from text deserialises to the same value
                    match sonic_rs::from_value::<$t>(&parsed) {
                        Ok(y) if y == x => {}
                        other => ctx.fail(&format!("typed-parsed-dom-roundtrip:{}", $name), format!("from_value(parse({:?})) = {:?}", text, other.map_err(|e| e.to_string()))),
                    }
                }
            }) as fn(&mut Ctx, &[u8]),
        )
    };
}

fn typed_table() -> Vec<(&'static str, fn(&mut Ctx, &[u8]))> {
    vec![
        rt!("u8", u8),
        rt!("u16", u16),
        rt!("u32", u32),
        rt!("u64", u64),
        rt!("u128", u128),
        rt!("usize", usize),
        rt!("i8", i8),
        rt!("i16", i16),
        rt!("i32", i32),
        rt!("i64", i64),
        rt!("i128", i128),
        rt!("f64", F64),
        rt!("f32", F32),
        rt!("bool", bool),
        rt!("char", char),
        rt!("String", String),
        rt!("&str", &str),
        rt!("Cow<str>", Cow<'_, str>),
        rt!("Option<i32>", Option<i32>),
        rt!("()", ()),
        rt!("(u8,String,bool)", (u8, String, bool)),
        rt!("[u16;3]", [u16; 3]),
        rt!("Vec<i64>", Vec<i64>),
        rt!("Vec<Vec<String>>", Vec<Vec<String>>),
        rt!("HashMap<String,i32>", HashMap<String, i32>),
        rt!("BTreeMap<i32,String>", BTreeMap<i32, String>),
        rt!("BTreeMap<u64,bool>", BTreeMap<u64, bool>),
        rt!("BTreeMap<i128,u8>", BTreeMap<i128, u8>),
        rt!("BTreeMap<u128,i8>", BTreeMap<u128, i8>),
        rt!("BTreeMap<String,F64>", BTreeMap<String, F64>),
        rt!("ByteBuf", serde_bytes::ByteBuf),
        rt!("serde_json::Value", serde_json::Value),
        // structs, all enum shapes and representations, wrapper kinds, key kinds
        rt!("Option<Option<String>>", Option<Option<String>>),
        rt!("Option<()>", Option<()>),
        rt!("Unit", Unit),
        rt!("Newtype", Newtype),
        rt!("Pair", Pair),
        rt!("Fieldless", Fieldless),
        rt!("Shapes", Shapes),
        rt!("Payloads", Payloads),
        rt!("Vec<Payloads>", Vec<Payloads>),
        rt!("Wrappers", Wrappers),
        rt!("Plain", Plain),
        rt!("Defaults", Defaults),
        rt!("Strict", Strict),
        rt!("Borrowing", Borrowing),
        rt!("Nested", Nested),
        rt!("Untagged", Untagged),
        rt!("Flat", Flat),
        rt!("Internally", Internally),
        rt!("Adjacent", Adjacent),
        rt!("BTreeMap<bool,u8>", BTreeMap<bool, u8>),
        rt!("BTreeMap<Fieldless,u8>", BTreeMap<Fieldless, u8>),
        rt!("BTreeMap<Option<String>,u8>", BTreeMap<Option<String>, u8>),
        rt!("BTreeMap<char,u8>", BTreeMap<char, u8>),
        rt!("Box<[i8]>", Box<[i8]>),
        rt!("BTreeMap<Id,String>", BTreeMap<Id, String>),
        rt!("BTreeMap<Flag,u8>", BTreeMap<Flag, u8>),
        rt!("BTreeMap<Name,Wide>", BTreeMap<Name, Wide>),
        rt!("BTreeMap<Wide,Id>", BTreeMap<Wide, Id>),
        rt!("(String,u128)", (String, u128)),
        rt!("Version", Version),
        rt!("TailEnum", TailEnum),
        rt!("Vec<(String,i128)>", Vec<(String, i128)>),
    ]
}

// ---- (2b) the data model's `is_human_readable` flag: JSON is a human-readable format on both routes

/// serialises as what the serializer says about itself; deserialises to what the deserializer says
#[derive(Debug, PartialEq, Clone, Copy, PartialOrd, Eq, Ord)]
struct Hr(bool);
impl Serialize for Hr {
    fn serialize<S: serde::Serializer>(&self, s: S) -> Result<S::Ok, S::Error> {
        let hr = s.is_human_readable();
        s.serialize_bool(hr)
    }
}
impl<'de> Deserialize<'de> for Hr {
    fn deserialize<D: serde::Deserializer<'de>>(d: D) -> Result<Self, D::Error> {
        let hr = d.is_human_readable();
        let _ = bool::deserialize(d)?;
        Ok(Hr(hr))
    }
}
/// the same in key position (as a string)
#[derive(Debug, PartialEq, Clone, Copy, PartialOrd, Eq, Ord)]
struct HrKey(bool);
impl Serialize for HrKey {
    fn serialize<S: serde::Serializer>(&self, s: S) -> Result<S::Ok, S::Error> {
        let hr = s.is_human_readable();
        s.serialize_str(if hr { "readable" } else { "compact" })
    }
}
impl<'de> Deserialize<'de> for HrKey {
    fn deserialize<D: serde::Deserializer<'de>>(d: D) -> Result<Self, D::Error> {
        let hr = d.is_human_readable();
        let _ = String::deserialize(d)?;
        Ok(HrKey(hr))
    }
}
#[derive(Debug, PartialEq, Serialize, Deserialize)]
enum HrEnum {
    N(Hr),
    T(Hr, u8),
    S { a: Hr },
}
#[derive(Debug, PartialEq, Serialize, Deserialize)]
struct HrAll {
    plain: Hr,
    opt: Option<Hr>,
    seq: Vec<Hr>,
    tup: (Hr, u8),
    map: BTreeMap<HrKey, Hr>,
    en: Vec<HrEnum>,
    nested: BTreeMap<String, Vec<Option<Hr>>>,
    addrs: Vec<std::net::IpAddr>,
    sock: std::net::SocketAddr,
    v4: std::net::Ipv4Addr,
    v6: std::net::Ipv6Addr,
}

fn check_readable(ctx: &mut Ctx, seed: u64) {
    let mut r = Rng::new(seed);
    let v4 = std::net::Ipv4Addr::new(r.next() as u8, r.next() as u8, r.next() as u8, r.next() as u8);
    let v6 = std::net::Ipv6Addr::from((r.next() as u128) << 64 | r.next() as u128);
    let x = HrAll {
        plain: Hr(true),
        opt: Some(Hr(true)),
        seq: vec![Hr(true); 1 + r.below(3) as usize],
        tup: (Hr(true), r.next() as u8),
        map: [(HrKey(true), Hr(true))].into_iter().collect(),
        en: vec![HrEnum::N(Hr(true)), HrEnum::T(Hr(true), 1), HrEnum::S { a: Hr(true) }],
        nested: [("k".to_string(), vec![Some(Hr(true)), None])].into_iter().collect(),
        addrs: vec![std::net::IpAddr::V4(v4), std::net::IpAddr::V6(v6)],
        sock: std::net::SocketAddr::new(std::net::IpAddr::V4(v4), r.next() as u16),
        v4,
        v6,
    };
    ctx.ops(4);
    let text = match sonic_rs::to_string(&x) {
        Ok(t) => t,
        Err(e) => return ctx.fail("readable-text-route-failed", e.to_string()),
    };
    let dom = match sonic_rs::to_value(&x) {
        Ok(d) => d,
        Err(e) => return ctx.fail("readable-dom-route-failed", e.to_string()),
    };
    let parsed: Value = match sonic_rs::from_str(&text) {
        Ok(v) => v,
        Err(e) => return ctx.fail("readable-text-unreadable", e.to_string()),
    };
    if parsed != dom {
        ctx.fail("readable-routes-differ", format!("to_value = {:?} but the text route wrote {:?}", crate::core::truncate(&sonic_rs::to_string(&dom).unwrap_or_default(), 300), crate::core::truncate(&text, 300)));
        return;
    }
    let a = sonic_rs::from_str::<HrAll>(&text).map_err(|e| e.to_string());
    let b = sonic_rs::from_value::<HrAll>(&parsed).map_err(|e| e.to_string());
    let c = sonic_rs::from_value::<HrAll>(&dom).map_err(|e| e.to_string());
    if a.as_ref().ok() != Some(&x) {
        ctx.fail("readable-text-roundtrip", format!("from_str(to_string(x)) = {:?}", a.as_ref().map(|_| "a different value").map_err(|e| e.clone())));
    }
    if a != b || a != c {
        ctx.fail("readable-from_value-differs", format!("from_str: {:?}; from_value(parsed): {:?}; from_value(to_value): {:?}", a.as_ref().map(|v| format!("{:?}", v.plain)), b.as_ref().map(|v| format!("{:?}", v.plain)), c.as_ref().map(|v| format!("{:?}", v.plain))));
    }
    // std's dual-representation types on their own, against serde_json's reading of the text
    let want: serde_json::Value = serde_json::to_value(&x.addrs).unwrap();
    let got = sonic_rs::to_value(&x.addrs).map(|v| sonic_rs::to_string(&v).unwrap_or_default()).unwrap_or_default();
    if got != want.to_string() {
        ctx.fail("readable-routes-differ", format!("to_value(Vec<IpAddr>) = {} , serde_json writes {}", got, want));
    }
    ctx.class("typed:human-readable-probe");
}

// ---- (2c) recursive types: what counts as a nesting level is the same on both routes

#[derive(Debug, PartialEq, Serialize, Deserialize)]
struct ListNode {
    id: u32,
    next: Option<Box<ListNode>>,
}
#[derive(Debug, PartialEq, Serialize, Deserialize)]
struct NewTree(Vec<NewTree>);
#[derive(Debug, PartialEq, Serialize, Deserialize)]
struct PlainTree {
    kids: Vec<PlainTree>,
}
#[derive(Debug, PartialEq, Serialize, Deserialize)]
enum EnumTree {
    Leaf,
    Node(Vec<EnumTree>),
    Wrap(Box<EnumTree>),
}
#[derive(Debug, PartialEq, Serialize, Deserialize)]
struct Wrapped(Option<Box<Wrapped>>);

fn check_recursive(ctx: &mut Ctx, kind: u64, depth: usize) {
    fn routes<T: Serialize + for<'a> Deserialize<'a> + PartialEq + std::fmt::Debug>(ctx: &mut Ctx, name: &str, depth: usize, text: &str) {
        ctx.ops(3);
        let a = sonic_rs::from_str::<T>(text).map_err(|e| e.to_string());
        let parsed = sonic_rs::from_str::<Value>(text).map_err(|e| e.to_string());
        let b = match &parsed {
            Ok(v) => sonic_rs::from_value::<T>(v).map_err(|e| e.to_string()),
            Err(e) => Err(format!("text does not parse: {}", e)),
        };
        match (&a, &b) {
            (Ok(x), Ok(y)) if x == y => {
                // and back: to_value(x) is the DOM of the text, and reads back
                match sonic_rs::to_value(x) {
                    Ok(d) => {
                        if Some(&d) != parsed.as_ref().ok() {
                            ctx.fail(&format!("recursive-routes-differ:{}", name), format!("depth {}: to_value(x) is not the DOM of to_string(x)", depth));
                        }
                        if sonic_rs::from_value::<T>(&d).ok().as_ref() != Some(x) {
                            ctx.fail(&format!("recursive-dom-roundtrip:{}", name), format!("depth {}: from_value(to_value(x)) is not x", depth));
                        }
                    }
                    Err(e) => ctx.fail(&format!("recursive-to_value-failed:{}", name), format!("depth {}: {}", depth, e)),
                }
                ctx.class("typed:recursive-both-ok");
            }
            (Ok(_), Ok(_)) => ctx.fail(&format!("recursive-values-differ:{}", name), format!("depth {}: from_str and from_value read different values", depth)),
            (Ok(_), Err(e)) => ctx.fail(&format!("recursive-from_value-fails:{}", name), format!("depth {}: from_str reads the text, from_value of its DOM fails: {}", depth, crate::core::truncate(e, 160))),
            // (the text route has a nesting limit of its own, one level below the DOM parser's, and
            // the DOM route has none: only "the text route reads it => the DOM route reads the
            // same" is claimed)
            (Err(_), Ok(_)) if parsed.is_ok() => ctx.class("typed:recursive-text-route-refuses-depth"),
            _ => ctx.class("typed:recursive-both-refuse"),
        }
    }
    let n = depth;
    let run = move |ctx: &mut Ctx| match kind % 5 {
        0 => {
            let mut t = String::new();
            for i in 0..n {
                t.push_str(&format!("{{\"id\":{},\"next\":", i));
            }
            t.push_str("null");
            t.push_str(&"}".repeat(n));
            routes::<ListNode>(ctx, "ListNode", n, &t);
        }
        1 => routes::<NewTree>(ctx, "NewTree", n, &format!("{}{}", "[".repeat(n), "]".repeat(n))),
        2 => {
            let mut t = String::new();
            for _ in 0..n {
                t.push_str("{\"kids\":[");
            }
            for _ in 0..n {
                t.push_str("]}");
            }
            routes::<PlainTree>(ctx, "PlainTree", n, &t);
        }
        3 => {
            let mut t = String::new();
            for i in 0..n {
                t.push_str(if i % 2 == 0 { "{\"Node\":[" } else { "{\"Wrap\":" });
            }
            t.push_str("\"Leaf\"");
            for i in (0..n).rev() {
                t.push_str(if i % 2 == 0 { "]}" } else { "}" });
            }
            routes::<EnumTree>(ctx, "EnumTree", n, &t);
        }
        _ => routes::<Wrapped>(ctx, "Wrapped", n, "null"),
    };
    // deep recursion of derived code: a roomy stack of its own
    let mut sub = Ctx::new(&ctx.check, &ctx.build, ctx.tier);
    let sub = std::thread::Builder::new().stack_size(256 << 20).spawn(move || {
        run(&mut sub);
        sub
    });
    match sub.map(|h| h.join()) {
        Ok(Ok(sub)) => {
            for v in sub.viols {
                ctx.fail(&v.sig, v.msg);
            }
            for (k, n) in sub.classes {
                ctx.class_n(&k, n);
            }
        }
        _ => ctx.fail("recursive-thread-died", format!("kind {} depth {}: the worker thread panicked or overflowed", kind % 5, depth)),
    }
}

// ---- (3) equality laws on DOM values

/// reference equality: same tree, member order ignored (duplicate-free)
fn ref_eq(a: &R, ta: &[u8], b: &R, tb: &[u8]) -> bool {
    let mut x = a.clone();
    let mut y = b.clone();
    crate::mon::common::sort_members(&mut x);
    crate::mon::common::sort_members(&mut y);
    // (the comparison of primitives: -0.0 == 0.0)
    crate::mon::common::ZERO_SIGN_INSENSITIVE.with(|z| z.set(true));
    let r = crate::mon::common::tree_eq(&x, ta, &y, tb, &mut String::new()).is_ok();
    crate::mon::common::ZERO_SIGN_INSENSITIVE.with(|z| z.set(false));
    r
}

/// rebuild the text of a tree with every object's members rotated/reversed
fn permuted(r: &R, t: &[u8], out: &mut Vec<u8>, rng: &mut Rng) {
    match &r.k {
        K::Arr(v) => {
            out.push(b'[');
            for (i, x) in v.iter().enumerate() {
                if i > 0 {
                    out.push(b',');
                }
                permuted(x, t, out, rng);
            }
            out.push(b']');
        }
        K::Obj(v) => {
            out.push(b'{');
            let mut idx: Vec<usize> = (0..v.len()).collect();
            if rng.chance(1, 2) {
                idx.reverse();
            } else if !idx.is_empty() {
                let k = rng.below(idx.len() as u64) as usize;
                idx.rotate_left(k);
            }
            for (n, i) in idx.iter().enumerate() {
                if n > 0 {
                    out.push(b',');
                }
                out.extend_from_slice(&t[v[*i].0.start..v[*i].0.end]);
                out.push(b':');
                permuted(&v[*i].1, t, out, rng);
            }
            out.push(b'}');
        }
        _ => out.extend_from_slice(&t[r.start..r.end]),
    }
}

/// build the same value through the mutation API (owned containers)
fn rebuild(v: &Value) -> Value {
    if let Some(a) = v.as_array() {
        let mut out = sonic_rs::Array::new();
        for x in a.iter() {
            out.push(rebuild(x));
        }
        out.into_value()
    } else if let Some(o) = v.as_object() {
        let mut out = sonic_rs::Object::new();
        for (k, x) in o.iter() {
            out.insert(k, rebuild(x));
        }
        out.into_value()
    } else {
        v.clone()
    }
}

fn check_laws(ctx: &mut Ctx, ta: &[u8], tb: &[u8], seed: u64) {
    let (Ok(da), Ok(db)) = (recog::parse_document(ta), recog::parse_document(tb)) else { return };
    if !da.full_ok() || !db.full_ok() || da.flags.has_dup_keys || db.flags.has_dup_keys || da.flags.max_depth > 64 || db.flags.max_depth > 64 {
        ctx.class("skipped:laws-precondition");
        return;
    }
    let (Ok(a), Ok(b)) = (sonic_rs::from_slice::<Value>(ta), sonic_rs::from_slice::<Value>(tb)) else { return };
    let mut rng = Rng::new(seed);
    ctx.ops(6);
    ctx.class("laws:pair");
    #[allow(clippy::eq_op)]
    if !(a == a) || !(b == b) {
        ctx.fail("eq-not-reflexive", format!("{:?}", crate::core::truncate(&String::from_utf8_lossy(ta), 200)));
    }
    let want = ref_eq(&da.root, ta, &db.root, tb);
    let (ab, ba) = (a == b, b == a);
    if ab != ba {
        ctx.fail("eq-asymmetry", format!("a==b {} but b==a {} for {:?} / {:?}", ab, ba, crate::core::truncate(&String::from_utf8_lossy(ta), 150), crate::core::truncate(&String::from_utf8_lossy(tb), 150)));
    }
    if ab != want {
        ctx.fail(if want { "eq-misses-equal" } else { "eq-claims-unequal-equal" }, format!("a==b is {} but the reference says {} for {:?} / {:?}", ab, want, crate::core::truncate(&String::from_utf8_lossy(ta), 150), crate::core::truncate(&String::from_utf8_lossy(tb), 150)));
    }
    if want {
        ctx.class("laws:equal-pair");
    }
    // member-order permutation
    let mut pt = vec![];
    permuted(&da.root, ta, &mut pt, &mut rng);
    match sonic_rs::from_slice::<Value>(&pt) {
        Ok(p) => {
            if !(p == a && a == p) {
                ctx.fail("eq-order-sensitive", format!("{:?} vs permuted {:?}", crate::core::truncate(&String::from_utf8_lossy(ta), 150), crate::core::truncate(&String::from_utf8_lossy(&pt), 150)));
            }
        }
        Err(e) => ctx.fail("permuted-rejected", e.to_string()),
    }
    // construction routes: clone, rebuilt through the mutation API, to_value of serde_json's value,
    // taken from a wrapper
    let routes: Vec<(&str, Value)> = vec![
        ("clone", a.clone()),
        ("rebuilt-owned", rebuild(&a)),
        ("to_value(self)", sonic_rs::to_value(&a).unwrap_or_default()),
        ("extracted", {
            let mut w = b"{\"w\":[0,".to_vec();
            w.extend_from_slice(ta);
            w.extend_from_slice(b"]}");
            sonic_rs::from_slice::<Value>(&w).ok().and_then(|mut v| v.pointer_mut(&sonic_rs::pointer!["w", 1]).map(|x| x.take())).unwrap_or_default()
        }),
    ];
    for (name, v) in &routes {
        ctx.ops(1);
        if !(v == &a && &a == v) {
            ctx.fail(&format!("eq-route-sensitive:{}", name), format!("value built by {} is not equal to the parsed one: {:?} vs {:?}", name, crate::core::truncate(&sonic_rs::to_string(v).unwrap_or_default(), 150), crate::core::truncate(&String::from_utf8_lossy(ta), 150)));
        }
        if (v == &b) != want || (&b == v) != want {
            ctx.fail(&format!("eq-route-sensitive-vs-b:{}", name), format!("built by {}: ==b is {} / {} but reference {}", name, v == &b, &b == v, want));
        }
    }
    // primitives
    fn prim(ctx: &mut Ctx, v: &Value) {
        ctx.ops(1);
        if let Some(s) = v.as_str() {
            if !(v == s) || !(v == &s.to_string()) || v == "\u{1}definitely-other" {
                ctx.fail("eq-primitive:str", format!("{:?}", s));
            }
        }
        if let Some(bv) = v.as_bool() {
            if !(*v == bv) || *v == !bv {
                ctx.fail("eq-primitive:bool", format!("{}", bv));
            }
        }
        if v.is_u64() {
            let u = v.as_u64().unwrap();
            if !(*v == u) || (u < u64::MAX && *v == u + 1) {
                ctx.fail("eq-primitive:u64", format!("{}", u));
            }
        } else if v.is_i64() {
            let i = v.as_i64().unwrap();
            if !(*v == i) || (i > i64::MIN && *v == i - 1) {
                ctx.fail("eq-primitive:i64", format!("{}", i));
            }
        } else if v.is_f64() {
            let f = v.as_f64().unwrap();
            if !(*v == f) {
                ctx.fail("eq-primitive:f64", format!("{:e}", f));
            }
        }
        if let Some(a) = v.as_array() {
            for x in a.iter().take(8) {
                prim(ctx, x);
            }
        }
        if let Some(o) = v.as_object() {
            for (_, x) in o.iter().take(8) {
                prim(ctx, x);
            }
        }
    }
    prim(ctx, &a);
    let _ = cmp_doc(&a, &da.root, ta, NumMode::Default);
}


// ---- (4) values built by conversions / macros vs parsed values; comparison with primitives

fn parsed_of<T: serde::Serialize>(x: &T) -> Option<Value> {
    sonic_rs::from_str(&sonic_rs::to_string(x).ok()?).ok()
}

fn check_built(ctx: &mut Ctx, seed: u64) {
    use faststr::FastStr;
    let mut r = Rng::new(seed);
    macro_rules! forms {
        ($name:expr, $v:expr, $q:expr, $want:expr) => {{
            let v: &Value = $v;
            let mut vm = v.clone();
            let got = [*v == $q, $q == *v, v == $q, (&mut vm) == $q];
            ctx.ops(1);
            if got.iter().any(|g| *g != $want) {
                ctx.fail(&format!("eq-primitive-forms:{}", $name), format!("{} compared with {:?}: forms [V==p, p==V, &V==p, &mut V==p] = {:?}, expected {}", crate::core::truncate(&sonic_rs::to_string(v).unwrap_or_default(), 100), $q, got, $want));
            }
        }};
    }
    macro_rules! ints {
        ($($t:ident)*) => {$({
            let p: $t = match r.below(6) { 0 => $t::MAX, 1 => $t::MIN, 2 => 0, 3 => ($t::MAX / 2).wrapping_add(1), _ => (r.next() >> r.below(64)) as $t };
            let q: $t = match r.below(4) { 0 => p, 1 => p.wrapping_add(1), 2 => p.wrapping_neg(), _ => r.next() as $t };
            let v = Value::from(p);
            ctx.class("built:integer");
            match parsed_of(&p) {
                Some(w) => {
                    if !(v == w && w == v) {
                        ctx.fail(&format!("eq-built-vs-parsed:{}", stringify!($t)), format!("Value::from({}{}) is not equal to the value parsed from its text", p, stringify!($t)));
                    }
                    forms!(stringify!($t), &w, q, p == q);
                }
                None => ctx.fail("built:text-route", format!("{}", p)),
            }
            forms!(stringify!($t), &v, q, p == q);
            // the same number through the widest type of the other signedness
            let as_i = p as i128;
            let qu = r.next() >> r.below(64);
            forms!(concat!(stringify!($t), "-vs-u64"), &v, qu, as_i == qu as i128);
            let qi = (r.next() as i64) >> r.below(64);
            forms!(concat!(stringify!($t), "-vs-i64"), &v, qi, as_i == qi as i128);
            if as_i >= 0 && as_i <= u64::MAX as i128 { forms!(concat!(stringify!($t), "-as-u64"), &v, as_i as u64, true); }
            if as_i >= i64::MIN as i128 && as_i <= i64::MAX as i128 { forms!(concat!(stringify!($t), "-as-i64"), &v, as_i as i64, true); }
            // Option / unit conversions
            let o = Value::from(Some(p));
            if o != v { ctx.fail("eq-built:option", format!("Value::from(Some({})) != Value::from({})", p, p)); }
        })*};
    }
    ints!(u8 u16 u32 u64 usize i8 i16 i32 i64 isize);
    // Value == Value on integers agrees with comparison of the integers, across signedness: in
    // particular a negative i64 is never equal to the u64 with the same bit pattern
    {
        let p: i64 = match r.below(5) { 0 => -1, 1 => i64::MIN, 2 => i64::MIN + 1, 3 => -((r.next() >> r.below(63)) as i64), _ => (r.next() >> 1) as i64 };
        let q: u64 = match r.below(3) { 0 => p as u64, 1 => (p as u64).wrapping_add(1), _ => r.next() };
        let want = p as i128 == q as i128;
        let (vp, vq) = (Value::from(p), Value::from(q));
        let (wp, wq) = (parsed_of(&p).unwrap_or_default(), parsed_of(&q).unwrap_or_default());
        // the same pair at matching positions of nested containers (member order differs)
        let na = sonic_rs::json!({"id": vp.clone(), "t": [1, vp.clone()]});
        let nb = sonic_rs::json!({"t": [1, vq.clone()], "id": vq.clone()});
        let nc = sonic_rs::json!({"id": vp.clone(), "t": [1, vq.clone()]});
        let nd = sonic_rs::json!({"t": [1, vp.clone()], "id": vq.clone()});
        let got = [vp == vq, vq == vp, wp == wq, wq == wp, vp == wq, wq == vp, na == nb, nb == na, nc == nd, nd == nc];
        ctx.ops(1);
        ctx.class("built:cross-sign-pair");
        if got.iter().any(|g| *g != want) {
            ctx.fail("eq-integers-cross-sign", format!("{}i64 vs {}u64: Value==Value forms {:?}, the integers compare {}", p, q, got, want));
        }
    }
    if !(Value::from(()).is_null() && Value::from(None::<i32>).is_null() && Value::from(()) == Value::default() && parsed_of(&()).map(|w| w == Value::from(())).unwrap_or(false)) {
        ctx.fail("eq-built:unit", "Value::from(()) / None / default / parsed null disagree".into());
    }
    // Number: equal numbers hash alike; default containers are the empty ones; slices of arrays
    {
        use std::hash::{Hash, Hasher};
        let h = |n: &sonic_rs::Number| {
            let mut st = std::collections::hash_map::DefaultHasher::new();
            n.hash(&mut st);
            st.finish()
        };
        let u = r.next() >> r.below(64);
        let a = sonic_rs::Number::from(u);
        let b: sonic_rs::Number = sonic_rs::from_str(&u.to_string()).unwrap();
        let c = sonic_rs::Number::from((u >> 1) as i64);
        let d: sonic_rs::Number = sonic_rs::from_str(&(u >> 1).to_string()).unwrap();
        if !(a == b && h(&a) == h(&b) && c == d && h(&c) == h(&d)) {
            ctx.fail("number-eq-hash", format!("Number {} built / parsed: eq {} hash {} ; {}: eq {} hash {}", u, a == b, h(&a) == h(&b), u >> 1, c == d, h(&c) == h(&d)));
        }
        let mut arr = sonic_rs::Array::default();
        let obj = sonic_rs::Object::default();
        if !arr.is_empty() || !obj.is_empty() || Value::from(arr.clone()) != sonic_rs::json!([]) || Value::from(obj) != sonic_rs::json!({}) {
            ctx.fail("built:defaults", "Array::default / Object::default are not the empty containers".into());
        }
        arr.push(u);
        arr.push("x");
        {
            let sl: &mut [Value] = arr.as_mut();
            sl.swap(0, 1);
        }
        let sl: &[Value] = arr.as_ref();
        let mut n = 0;
        for x in &mut arr.clone() {
            if x.is_str() {
                *x = Value::from(1u8);
            }
            n += 1;
        }
        if sl.len() != 2 || sl[0] != "x" || sl[1] != u || n != 2 {
            ctx.fail("built:array-slices", format!("AsRef/AsMut view of [{}, \"x\"] after a swap: {:?}", u, sonic_rs::to_string(&arr)));
        }
    }
    // bool
    {
        let p = r.chance(1, 2);
        let q = r.chance(1, 2);
        let v = Value::from(p);
        forms!("bool", &v, q, p == q);
        if let Some(w) = parsed_of(&p) {
            forms!("bool", &w, q, p == q);
            if v != w { ctx.fail("eq-built-vs-parsed:bool", format!("{}", p)); }
        }
    }
    // floats (finite: TryFrom)
    {
        let p = loop { let f = crate::gen::dynval::rand_f64(&mut r); if f.is_finite() { break f } };
        let q = match r.below(3) { 0 => p, 1 => f64::from_bits(p.to_bits() ^ 1), _ => -p };
        ctx.class("built:float");
        match Value::try_from(p) {
            Ok(v) => {
                forms!("f64", &v, q, p == q);
                if let Some(w) = parsed_of(&p) {
                    forms!("f64", &w, q, p == q);
                    // a float that prints as an integer literal cannot occur: to_string keeps ".0" / exponent
                    if !(v == w && w == v) { ctx.fail("eq-built-vs-parsed:f64", format!("Value::try_from({:e}) vs parsed {:?}", p, sonic_rs::to_string(&p))); }
                }
            }
            Err(e) => ctx.fail("built:try_from-f64-finite", format!("{:e}: {}", p, e)),
        }
        for bad in [f64::NAN, f64::INFINITY, f64::NEG_INFINITY] {
            if Value::try_from(bad).is_ok() { ctx.fail("built:try_from-f64-nonfinite-accepted", format!("{}", bad)); }
        }
        let pf = loop { let f = crate::gen::dynval::rand_f32(&mut r); if f.is_finite() { break f } };
        let qf = match r.below(3) { 0 => pf, 1 => f32::from_bits(pf.to_bits() ^ 1), _ => -pf };
        match Value::try_from(pf) {
            Ok(v) => forms!("f32", &v, qf, pf == qf),
            Err(e) => ctx.fail("built:try_from-f32-finite", format!("{:e}: {}", pf, e)),
        }
        if Value::try_from(f32::NAN).is_ok() || Value::try_from(f32::INFINITY).is_ok() { ctx.fail("built:try_from-f32-nonfinite-accepted", String::new()); }
    }
    // strings: every conversion gives the same value as parsing the serialised text
    {
        let p: String = crate::gen::dynval::rand_text(&mut r);
        let q: String = match r.below(3) { 0 => p.clone(), 1 => format!("{}x", p), _ => crate::gen::dynval::rand_text(&mut r) };
        ctx.class("built:string");
        let fs = FastStr::new(&p);
        let built: Vec<(&str, Value)> = vec![
            ("&str", Value::from(p.as_str())),
            ("&String", Value::from(&p)),
            ("FastStr", Value::from(fs.clone())),
            ("&FastStr", Value::from(&fs)),
            ("Cow::Borrowed", Value::from(Cow::Borrowed(p.as_str()))),
            ("Cow::Owned", Value::from(Cow::<str>::Owned(p.clone()))),
            ("FromStr", p.parse::<Value>().unwrap_or_default()),
            ("copy_str", Value::copy_str(&p)),
            ("Some(&str)", Value::from(Some(p.as_str()))),
            ("json!", sonic_rs::json!(p.as_str())),
        ];
        let w = parsed_of(&p);
        for (name, v) in &built {
            ctx.ops(1);
            if v.as_str() != Some(p.as_str()) {
                ctx.fail(&format!("built:string-content:{}", name), format!("{:?} -> {:?}", p, v.as_str()));
            }
            if let Some(w) = &w {
                if !(v == w && w == v) { ctx.fail(&format!("eq-built-vs-parsed:str:{}", name), format!("{:?}", p)); }
            }
            let want = p == q;
            let mut vm = v.clone();
            let qs: &str = q.as_str();
            let qf = FastStr::new(&q);
            let got = [*v == q, q == *v, v == q, (&mut vm) == q, *v == qs, qs == *v, *v == *qs, *qs == *v, v == *qs, *v == qf, qf == *v, v == qf];
            if got.iter().any(|g| *g != want) {
                ctx.fail(&format!("eq-primitive-forms:str:{}", name), format!("{:?} vs {:?}: {:?} expected {}", p, q, got, want));
            }
        }
        if let Some(c) = p.chars().next() {
            let v = Value::from(c);
            if v.as_str() != Some(c.to_string().as_str()) || parsed_of(&c).map(|w| w != v).unwrap_or(true) {
                ctx.fail("built:char", format!("{:?}", c));
            }
        }
    }
    // arrays: Vec / slice / array conversions, FromIterator, Extend, macros, slice comparisons
    {
        let p: Vec<i64> = (0..r.range(0, 6)).map(|_| (r.next() as i64) >> r.below(64)).collect();
        let mut q = p.clone();
        match r.below(4) {
            0 => {}
            1 => q.push(7),
            2 => { if let Some(x) = q.first_mut() { *x = x.wrapping_add(1); } else { q.push(0); } }
            _ => { q.pop(); if q.len() == p.len() { q.push(1); } }
        }
        ctx.class("built:array");
        let mut ext = sonic_rs::Array::new();
        ext.extend(p.iter());
        let arr3: [i64; 3] = [r.next() as i64, 0, -1];
        let built: Vec<(&str, Value)> = vec![
            ("Vec", Value::from(p.clone())),
            ("&[T]", Value::from(p.as_slice())),
            ("FromIterator", p.iter().copied().collect::<Value>()),
            ("Array::from(Vec)", sonic_rs::Array::from(p.clone()).into()),
            ("Array::from(&[T])", sonic_rs::Array::from(p.as_slice()).into()),
            ("Array::from_iter", p.iter().copied().collect::<sonic_rs::Array>().into_value()),
            ("Extend<&T>", ext.into_value()),
            ("Vec<Value>", Value::from(p.iter().map(|x| Value::from(*x)).collect::<Vec<Value>>())),
            ("Vec<Option>", Value::from(p.iter().map(|x| Some(*x)).collect::<Vec<_>>())),
        ];
        let w = parsed_of(&p);
        for (name, v) in &built {
            ctx.ops(1);
            if let Some(w) = &w {
                if !(v == w && w == v) { ctx.fail(&format!("eq-built-vs-parsed:array:{}", name), format!("{:?} -> {}", p, sonic_rs::to_string(v).unwrap_or_default())); }
            }
            let want = p == q;
            let qs: &[i64] = q.as_slice();
            let mut qm = q.clone();
            let got = [*v == q, q == *v, *v == qs, qs == *v, *v == *qs, *qs == *v, *v == qm.as_mut_slice()];
            if got.iter().any(|g| *g != want) {
                ctx.fail(&format!("eq-slice-forms:{}", name), format!("{:?} vs {:?}: {:?} expected {}", p, q, got, want));
            }
            if let Some(a) = v.as_array() {
                let got = [*a == q, q == *a, *a == qs, qs == *a, *a == *qs, *a == *v, *v == *a, v == *a, a == *v];
                let wants = [want, want, want, want, want, true, true, true, true];
                if got != wants {
                    ctx.fail(&format!("eq-array-wrapper-forms:{}", name), format!("{:?} vs {:?}: {:?} expected {:?}", p, q, got, wants));
                }
            } else {
                ctx.fail(&format!("built:array-kind:{}", name), format!("{:?}", p));
            }
        }
        let va = Value::from(&arr3);
        let aa: Value = sonic_rs::Array::from(&arr3).into();
        let ma = sonic_rs::json!([arr3[0], arr3[1], arr3[2]]);
        let mb: Value = sonic_rs::array![arr3[0], arr3[1], arr3[2]].into();
        let wa = parsed_of(&arr3).unwrap_or_default();
        let other = [arr3[0], 1, -1];
        if !(va == wa && aa == wa && ma == wa && mb == wa && va == arr3 && arr3 == va && va == &arr3 && &arr3 == va && !(va == other) && !(other == va) && !(va == [arr3[0], 0]) ) {
            ctx.fail("eq-built:fixed-array", format!("{:?}", arr3));
        }
    }
    // objects: FromIterator of pairs, Extend, macros, wrapper comparisons
    {
        let n = r.range(0, 5);
        let mut keys: Vec<String> = vec![];
        while keys.len() < n as usize {
            let k = crate::gen::dynval::rand_text(&mut r);
            if !keys.contains(&k) { keys.push(k); }
        }
        let vals: Vec<i32> = keys.iter().map(|_| r.next() as i32).collect();
        let map: BTreeMap<String, i32> = keys.iter().cloned().zip(vals.iter().copied()).collect();
        ctx.class("built:object");
        let mut ext = sonic_rs::Object::new();
        ext.extend(map.iter());
        let mut ins = sonic_rs::Object::new();
        for (k, x) in keys.iter().zip(&vals).rev() { ins.insert(k, *x); }
        let built: Vec<(&str, Value)> = vec![
            ("Value::from_iter", map.iter().collect::<Value>()),
            ("Object::from_iter", map.iter().collect::<sonic_rs::Object>().into_value()),
            ("Extend", ext.into_value()),
            ("insert-reversed", ins.into_value()),
            ("to_value", sonic_rs::to_value(&map).unwrap_or_default()),
        ];
        let w = parsed_of(&map);
        let mut other = map.clone();
        match r.below(3) { 0 => { other.insert("\u{1}extra".into(), 0); } 1 => { if let Some(x) = other.values_mut().next() { *x = x.wrapping_add(1); } else { other.insert("k".into(), 1); } } _ => { if other.pop_first().is_none() { other.insert("k".into(), 1); } } }
        let wo = parsed_of(&other).unwrap_or_default();
        for (name, v) in &built {
            ctx.ops(1);
            if let Some(w) = &w {
                if !(v == w && w == v) { ctx.fail(&format!("eq-built-vs-parsed:object:{}", name), format!("{:?} -> {}", map, sonic_rs::to_string(v).unwrap_or_default())); }
                if v == &wo || &wo == v { ctx.fail(&format!("eq-built-object-claims-equal:{}", name), format!("{:?} vs {:?}", map, other)); }
                match (v.as_object(), w.as_object(), wo.as_object()) {
                    (Some(o), Some(ow), Some(oo)) => {
                        let got = [o == ow, ow == o, *o == *v, *v == *o, v == *o, o == *v, *o == *w, *w == *o, o == oo, *o == wo, wo == *o];
                        let wants = [true, true, true, true, true, true, true, true, false, false, false];
                        if got != wants { ctx.fail(&format!("eq-object-wrapper-forms:{}", name), format!("{:?}: {:?} expected {:?}", map, got, wants)); }
                    }
                    _ => ctx.fail(&format!("built:object-kind:{}", name), format!("{:?}", map)),
                }
            }
        }
        if map.len() >= 2 {
            let (k0, k1) = (&keys[0], &keys[1]);
            let j = sonic_rs::json!({k0.as_str(): vals[0], k1.as_str(): [vals[1], null, true], "\u{2}n": {"x": 1.5}});
            let o: Value = sonic_rs::object! {k0.as_str(): vals[0], k1.as_str(): sonic_rs::array![vals[1], (), true], "\u{2}n": sonic_rs::object!{"x": 1.5}}.into();
            let text = format!("{{{}:{},{}:[{},null,true],\"\\u0002n\":{{\"x\":1.5}}}}", sonic_rs::to_string(k0).unwrap(), vals[0], sonic_rs::to_string(k1).unwrap(), vals[1]);
            match sonic_rs::from_str::<Value>(&text) {
                Ok(w) => if !(j == w && w == j && o == w && w == o && j == o) { ctx.fail("eq-built:macros", format!("json!/object! vs parsed {:?}", text)); },
                Err(e) => ctx.fail("built:macro-text", format!("{}: {}", text, e)),
            }
        }
    }
}

impl Check for C19 {
    fn id(&self) -> &'static str {
        "C19"
    }
    fn generate(&self, g: &GenParams, emit: &mut dyn FnMut(Case)) {
        let mut r = g.rng(19);
        let n = g.count(200_000, 10_000_000);
        for k in 0..n {
            emit(Case::with("dyn", vec![], &[r.next() as i64, (k % 9 == 0) as i64]));
        }
        let nt = typed_table().len() as u64;
        let n = g.count(16 * 600, 16 * 30_000) / 16;
        for _ in 0..n.max(1) {
            for t in 0..nt {
                emit(Case::with("typed", vec![], &[t as i64, r.next() as i64, 16]));
            }
        }
        let n = g.count(150_000, 8_000_000);
        for k in 0..n {
            let mut o = DocOpts::random(&mut r);
            o.dup_keys = false;
            o.budget = o.budget.min(40);
            let a = doc::gen_doc(&mut r, &o);
            // b: another document, a near-copy, or the same text
            let b = match k % 4 {
                0 => doc::gen_doc(&mut r, &o),
                1 => a.clone(),
                _ => {
                    // one leaf changed
                    let mut m = a.clone();
                    if let Some(i) = m.iter().position(|c| c.is_ascii_digit()) {
                        m[i] = if m[i] == b'7' { b'8' } else { b'7' };
                        if i > 0 && m[i - 1] == b'0' {
                            m = a.clone();
                        }
                    }
                    m
                }
            };
            let n0 = a.len() as i64;
            let mut both = a;
            both.extend_from_slice(&b);
            emit(Case::with("laws", both, &[n0, r.next() as i64]));
        }
        // documents WITH duplicate member names: reflexivity, clone and re-parse equality
        let n = g.count(20_000, 1_000_000);
        for _ in 0..n {
            let mut o = DocOpts::random(&mut r);
            o.dup_keys = true;
            o.budget = o.budget.min(40);
            emit(Case::new("reflexive-dup", doc::gen_doc(&mut r, &o)));
        }
        let n = g.count(30_000, 2_000_000);
        for _ in 0..n {
            emit(Case::with("built", vec![], &[r.next() as i64]));
        }
        for _ in 0..g.count(160, 16_000) {
            emit(Case::with("readable", vec![], &[r.next() as i64]));
        }
        {
            let mut idx = 0u64;
            for kind in 0..4i64 {
                for depth in [1i64, 2, 30, 63, 64, 65, 100, 120, 126, 127, 128, 129, 130, 200, 253, 254, 255, 256, 300] {
                    idx += 1;
                    if g.mine(8000 + idx) {
                        emit(Case::with("recursive", vec![], &[kind, depth]));
                    }
                }
            }
        }
        let n = g.count(4_000, 300_000);
        for _ in 0..n {
            emit(Case::with("laws-wide", vec![], &[r.next() as i64]));
        }
        if g.shard == 0 {
            // explicit duplicate-key probes (finding F8)
            emit(Case::with("dup-probe", vec![], &[0]));
        }
    }
    fn exec(&self, ctx: &mut Ctx, c: &Case) {
        match c.entry.as_str() {
            "dyn" => {
                let mut r = Rng::new(c.p(0) as u64);
                let mut o = DynOpts::default();
                o.bad_keys = c.p(1) != 0;
                o.float_keys = true;
                o.max_depth = 1 + (c.p(0) as u64 % 4) as usize;
                let x = gen_dyn(&mut r, &o, 0);
                ctx.nontrivial();
                check_dyn(ctx, &x);
                ctx.sample("dyn");
            }
            "typed" => {
                let tbl = typed_table();
                let (name, f) = tbl[(c.p(0) as usize) % tbl.len()];
                let gens = crate::mon::c04::types();
                let Some(tc) = gens.iter().find(|t| t.name == name || (name == "Cow<str>" && t.name == "Cow<str>") || (name == "BTreeMap<String,F64>" && t.name == "BTreeMap<F64key,u8>")) else {
                    ctx.class("skipped:no-generator");
                    return;
                };
                let mut r = Rng::new(c.p(1) as u64);
                ctx.nontrivial();
                ctx.class(&format!("type:{}", name));
                for _ in 0..c.p(2) {
                    let text = (tc.gen)(&mut r);
                    if let Ok(d) = recog::parse_document(text.as_bytes()) {
                        if d.flags.max_depth > 64 {
                            continue;
                        }
                    }
                    f(ctx, text.as_bytes());
                }
                ctx.sample(name);
            }
            "reflexive-dup" => {
                ctx.nontrivial();
                let Ok(d) = recog::parse_document(&c.input) else { return };
                if !d.full_ok() || d.flags.max_depth > 64 {
                    return;
                }
                let Ok(v) = sonic_rs::from_slice::<Value>(&c.input) else { return };
                let w: Value = sonic_rs::from_slice(&c.input).unwrap();
                ctx.ops(3);
                ctx.class(if d.flags.has_dup_keys { "laws:reflexive-with-duplicates" } else { "laws:reflexive" });
                #[allow(clippy::eq_op)]
                if !(v == v) {
                    ctx.fail("eq-not-reflexive", format!("v == v is false for {:?}", crate::core::truncate(&String::from_utf8_lossy(&c.input), 200)));
                } else if !(v == v.clone() && v.clone() == v) {
                    ctx.fail("eq-clone-differs", format!("v == v.clone() is false for {:?}", crate::core::truncate(&String::from_utf8_lossy(&c.input), 200)));
                } else if !(v == w && w == v) {
                    ctx.fail("eq-reparse-differs", format!("two parses of the same text are not equal: {:?}", crate::core::truncate(&String::from_utf8_lossy(&c.input), 200)));
                }
                ctx.sample("reflexive-dup");
            }
            "laws-wide" => {
                // objects of 30..80 members (parsed, cloned, rebuilt): equal iff same keys and values
                let mut rr = Rng::new(c.p(0) as u64);
                let n = rr.range(30, 80);
                let keys: Vec<String> = (0..n).map(|i| format!("k{}_{}", i, rr.below(1000))).collect();
                let vals: Vec<u32> = (0..n).map(|_| rr.below(5) as u32).collect();
                let text = |ks: &[String], vs: &[u32], rev: bool| -> String {
                    let mut items: Vec<String> = ks.iter().zip(vs).map(|(k, v)| format!("\"{}\":{}", k, v)).collect();
                    if rev {
                        items.reverse();
                    }
                    format!("{{{}}}", items.join(","))
                };
                let a: Value = sonic_rs::from_str(&text(&keys, &vals, false)).unwrap();
                let same: Value = sonic_rs::from_str(&text(&keys, &vals, true)).unwrap();
                let i = rr.below(n as u64) as usize;
                let mut k2 = keys.clone();
                k2[i] = format!("{}x", k2[i]);
                let renamed: Value = sonic_rs::from_str(&text(&k2, &vals, rr.chance(1, 2))).unwrap();
                let mut v2 = vals.clone();
                v2[i] += 1;
                let changed: Value = sonic_rs::from_str(&text(&keys, &v2, rr.chance(1, 2))).unwrap();
                let mut renamed_owned = a.clone();
                if let Some(o) = renamed_owned.as_object_mut() {
                    let old = o.remove(&keys[i].as_str());
                    o.insert(&k2[i], old.unwrap_or_default());
                }
                ctx.ops(1);
                ctx.nontrivial();
                ctx.class("laws:wide-objects");
                let eqs = [a == same, same == a, a == a.clone(), rebuild(&a) == a, a == rebuild(&same)];
                let nes = [a == renamed, renamed == a, a == changed, changed == a, a == renamed_owned, renamed_owned == a, rebuild(&a) == renamed, sonic_rs::json!([a.clone()]) == sonic_rs::json!([renamed.clone()])];
                if eqs.iter().any(|x| !*x) || nes.iter().any(|x| *x) {
                    ctx.fail("eq-wide-objects", format!("{} members, member #{} renamed / changed: equal-forms {:?} (all should be true), unequal-forms {:?} (all should be false)", n, i, eqs, nes));
                }
                ctx.sample("laws-wide");
            }
            "recursive" => {
                ctx.nontrivial();
                check_recursive(ctx, c.p(0) as u64, c.p(1) as usize);
                ctx.sample("recursive");
            }
            "readable" => {
                ctx.nontrivial();
                check_readable(ctx, c.p(0) as u64);
                ctx.sample("readable");
            }
            "built" => {
                ctx.nontrivial();
                check_built(ctx, c.p(0) as u64);
                ctx.sample("built");
            }
            "laws" => {
                let n0 = (c.p(0) as usize).min(c.input.len());
                ctx.nontrivial();
                check_laws(ctx, &c.input[..n0], &c.input[n0..], c.p(1) as u64);
                ctx.sample("laws");
            }
            _ => {
                // duplicate member names: equality is asymmetric (finding F8)
                ctx.nontrivial();
                let a: Value = sonic_rs::from_str(r#"{"a":1,"a":2}"#).unwrap();
                let b: Value = sonic_rs::from_str(r#"{"a":1,"b":5}"#).unwrap();
                ctx.ops(1);
                ctx.class("laws:duplicate-key-probe");
                if (a == b) != (b == a) {
                    ctx.fail("eq-asymmetry operand-has-duplicate-member-name", format!("{{\"a\":1,\"a\":2}} == {{\"a\":1,\"b\":5}} is {} but the reverse is {}", a == b, b == a));
                }
            }
        }
    }
    fn required_classes(&self, b: &str, _t: Tier) -> Vec<&'static str> {
        if b != "native-rel" {
            return vec!["dyn:both-routes-ok", "typed:instance", "typed:human-readable-probe", "laws:pair"];
        }
        vec!["dyn:both-routes-ok", "table:non-finite", "table:wide-128", "table:non-string-key", "typed:instance", "typed:human-readable-probe", "typed:recursive-both-ok", "laws:pair", "laws:equal-pair", "laws:duplicate-key-probe", "laws:reflexive-with-duplicates", "laws:wide-objects", "built:integer", "built:float", "built:string", "built:array", "built:object", "type:Payloads", "type:Wrappers", "type:Adjacent"]
    }
}
