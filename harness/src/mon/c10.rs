//! C10 — lazy get returns exactly what a full parse followed by lookup finds.
use bytes::Bytes;
use faststr::FastStr;
use sonic_rs::{JsonValueTrait, LazyValue, OwnedLazyValue, PointerNode, Value};

use crate::core::{Case, Check, Ctx, GenParams, Tier};
use crate::gen::doc::{self, DocOpts};
use crate::mon::c01::to_pointer;
use crate::mon::common::{cmp_value, exact, GuardBuf, NumMode};
use crate::refmodel::lookup::{all_paths, lookup, LookErr, PathEl};
use crate::refmodel::recog::{self, K, R};
use crate::rng::Rng;

pub struct C10;

fn fmt_path(p: &[PathEl]) -> String {
    let mut s = String::from("[");
    for e in p {
        match e {
            PathEl::Key(k) => s.push_str(&format!("{:?},", k)),
            PathEl::Idx(i) => s.push_str(&format!("{},", i)),
        }
    }
    s.push(']');
    s
}

/// perturbations of valid paths
fn perturbed(r: &mut Rng, root: &R, valid: &[Vec<PathEl>], text: &[u8]) -> Vec<Vec<PathEl>> {
    let mut out = vec![];
    // keys that are confusable with the *spelling* of a member name: the raw bytes between the
    // quotes of a name written with escapes, a prefix of them, a name cut before an escape
    for p in valid.iter().take(30) {
        let Ok(node) = lookup(root, p) else { continue };
        if let K::Obj(ms) = &node.k {
            for (k, _) in ms.iter().take(6) {
                let raw = &text[k.start + 1..k.end.saturating_sub(1).max(k.start + 1)];
                if !raw.contains(&b'\\') {
                    continue;
                }
                let Ok(rs) = std::str::from_utf8(raw) else { continue };
                let mut cands = vec![rs.to_string()];
                if let Some(i) = rs.find('\\') {
                    cands.push(rs[..i + 1].to_string());
                    cands.push(rs[..i].to_string());
                    if i + 2 <= rs.len() && rs.is_char_boundary(i + 2) {
                        cands.push(rs[..i + 2].to_string());
                    }
                }
                for c in cands {
                    let mut q = p.clone();
                    q.push(PathEl::Key(c));
                    out.push(q);
                }
            }
        }
    }
    for p in valid.iter().take(30) {
        let Ok(node) = lookup(root, p) else { continue };
        let mut q = p.clone();
        match &node.k {
            K::Arr(xs) => {
                q.push(PathEl::Idx(xs.len()));
                out.push(q.clone());
                q.pop();
                q.push(PathEl::Idx(xs.len() + 1 + r.below(1000) as usize));
                out.push(q.clone());
                q.pop();
                q.push(PathEl::Key("a".into()));
                out.push(q.clone());
                // a key that looks like an index (a path split from a dotted string only has
                // strings): still a key, an array has no members
                q.pop();
                q.push(PathEl::Key(format!("{}", r.below(xs.len() as u64 + 2))));
                out.push(q.clone());
                q.pop();
                q.push(PathEl::Key("0".into()));
                out.push(q.clone());
                // and a valid step through it continued behind
                if !xs.is_empty() {
                    q.pop();
                    q.push(PathEl::Key("0".into()));
                    q.push(PathEl::Idx(0));
                    out.push(q);
                }
            }
            K::Obj(ms) => {
                // an index that looks like a member name ("0", "1" are legal names)
                if let Some((k, _)) = ms.iter().find(|(k, _)| k.key_str().map(|t| t.parse::<usize>().is_ok()).unwrap_or(false)) {
                    if let Some(n) = k.key_str().and_then(|t| t.parse::<usize>().ok()) {
                        let mut q2 = p.clone();
                        q2.push(PathEl::Idx(n));
                        out.push(q2);
                    }
                }
                q.push(PathEl::Key("__missing__".into()));
                out.push(q.clone());
                q.pop();
                q.push(PathEl::Key("".into()));
                out.push(q.clone());
                q.pop();
                q.push(PathEl::Key("quote\"\\n".into()));
                out.push(q.clone());
                q.pop();
                q.push(PathEl::Idx(0));
                out.push(q);
            }
            _ => {
                q.push(if r.chance(1, 2) { PathEl::Idx(0) } else { PathEl::Key("a".into()) });
                out.push(q);
            }
        }
    }
    out
}

struct Want<'a> {
    res: Result<&'a R, LookErr>,
}

fn check_lazy(ctx: &mut Ctx, api: &str, got: Result<LazyValue, sonic_rs::Error>, w: &Want, input: &[u8], base: Option<*const u8>, path: &[PathEl]) {
    ctx.ops(1);
    match (got, &w.res) {
        (Ok(lv), Ok(node)) => {
            let raw = lv.as_raw_str();
            let span = &input[node.start..node.end];
            if raw.as_bytes() != span {
                ctx.fail(
                    &format!("span-differs:{}", api),
                    format!("{} path {}: raw {:?} but the source span is {:?}", api, fmt_path(path), crate::core::truncate(raw, 200), crate::core::truncate(&String::from_utf8_lossy(span), 200)),
                );
                return;
            }
            if let Some(b) = base {
                let off = (raw.as_ptr() as usize).wrapping_sub(b as usize);
                if off != node.start {
                    ctx.fail(&format!("offset-differs:{}", api), format!("{} path {}: raw text at offset {} but the value is at {}", api, fmt_path(path), off as isize, node.start));
                }
            }
        }
        (Ok(lv), Err(_)) => ctx.fail(
            &format!("found-unresolvable:{}", api),
            format!("{} path {} returned {:?} but the path does not resolve", api, fmt_path(path), crate::core::truncate(lv.as_raw_str(), 100)),
        ),
        (Err(e), Ok(_)) => ctx.fail(&format!("missed:{}", api), format!("{} path {} failed ({}) but the path resolves", api, fmt_path(path), crate::mon::common::err_brief(&e))),
        (Err(e), Err(le)) => {
            let ok = match le {
                LookErr::NotFound => e.is_not_found(),
                LookErr::WrongType => e.is_unmatched_type(),
            };
            // the unchecked variants only promise the same answer (found / not found); their
            // error category on `[]` is a syntax error by construction and is not judged
            if !ok && !api.contains("unchecked") {
                ctx.fail(
                    &format!("error-category:{}:{:?}", api, le),
                    format!("{} path {}: reference says {:?} but the error is {:?}: {}", api, fmt_path(path), le, e.classify(), crate::mon::common::err_brief(&e)),
                );
            }
        }
    }
}

/// A member to skip that holds tens of thousands of containers of ONE kind (whatever a skipper
/// counts — brackets, depth, members — is counted far beyond 2^16), with the target behind it.
fn check_many_inner(ctx: &mut Ctx, kind: usize, n: usize) {
    let inner = match kind % 4 {
        0 => vec!["{}"; n].join(","),
        1 => vec!["[]"; n].join(","),
        2 => (0..n).map(|i| if i % 2 == 0 { "{\"q\":{}}" } else { "{}" }).collect::<Vec<_>>().join(","),
        _ => vec!["[[]]"; n / 2 + 1].join(","),
    };
    let doc = match kind % 4 {
        0 | 2 => format!("{{\"a\":{{\"x\":{{\"l\":[{}]}}}},\"b\":[1,2,3],\"c\":{{\"d\":\"e\"}}}}", inner),
        _ => format!("[[[{}],\"s\"],[1,2,3],{{\"d\":\"e\"}}]", inner),
    };
    let b = doc.as_bytes();
    let Ok(d) = recog::parse_document(b) else { return };
    let paths: Vec<Vec<PathEl>> = match kind % 4 {
        0 | 2 => vec![
            vec![PathEl::Key("b".into())],
            vec![PathEl::Key("b".into()), PathEl::Idx(2)],
            vec![PathEl::Key("c".into()), PathEl::Key("d".into())],
            vec![PathEl::Key("a".into()), PathEl::Key("x".into()), PathEl::Key("l".into()), PathEl::Idx(n - 1)],
            vec![PathEl::Key("zz".into())],
        ],
        _ => vec![vec![PathEl::Idx(1)], vec![PathEl::Idx(1), PathEl::Idx(2)], vec![PathEl::Idx(2), PathEl::Key("d".into())], vec![PathEl::Idx(0), PathEl::Idx(1)], vec![PathEl::Idx(0), PathEl::Idx(0), PathEl::Idx(n / 2)], vec![PathEl::Idx(3)]],
    };
    let ex = exact(b);
    let st = std::str::from_utf8(&ex).unwrap();
    let fs = FastStr::new(st);
    let lazy_root: Option<LazyValue> = sonic_rs::from_slice(&ex).ok();
    let owned_root: Option<OwnedLazyValue> = sonic_rs::from_slice(&ex).ok();
    let base = Some(ex.as_ptr());
    for p in &paths {
        let w = Want { res: lookup(&d.root, p) };
        let pn: Vec<PointerNode> = to_pointer(p);
        check_lazy(ctx, "get(&[u8])", sonic_rs::get(&ex[..], &pn), &w, b, base, p);
        check_lazy(ctx, "get(&FastStr)", sonic_rs::get(&fs, &pn), &w, b, None, p);
        unsafe {
            check_lazy(ctx, "get_unchecked", sonic_rs::get_unchecked(&ex[..], &pn), &w, b, base, p);
            check_lazy(ctx, "get_from_faststr_unchecked", sonic_rs::get_from_faststr_unchecked(&fs, &pn), &w, b, None, p);
        }
        ctx.ops(2);
        if let Some(l) = &lazy_root {
            let got = l.pointer(&pn).map(|v| v.as_raw_str().to_string());
            let want = w.res.as_ref().ok().map(|n| String::from_utf8_lossy(&b[n.start..n.end]).into_owned());
            if got != want {
                ctx.fail("many-inner:LazyValue::pointer", format!("{} containers of one kind in a skipped member, path {:?}: {:?}, the document has {:?}", n, p, got.map(|s| crate::core::truncate(&s, 60)), want.map(|s| crate::core::truncate(&s, 60))));
            }
        }
        if let Some(o) = &owned_root {
            let got = o.pointer(&pn).map(|v| sonic_rs::to_string(v).unwrap_or_default());
            let want = w.res.as_ref().ok().map(|n| String::from_utf8_lossy(&b[n.start..n.end]).into_owned());
            if got != want {
                ctx.fail("many-inner:OwnedLazyValue::pointer", format!("{} containers of one kind in a skipped member, path {:?}: {:?}, the document has {:?}", n, p, got.map(|s| crate::core::truncate(&s, 60)), want.map(|s| crate::core::truncate(&s, 60))));
            }
        }
    }
    ctx.class("doc:many-inner-containers");
}

pub fn check_doc(ctx: &mut Ctx, b: &[u8], seed: u64) {
    let d = match recog::parse_document(b) {
        Ok(d) if d.full_ok() && d.flags.max_depth <= 64 => d,
        _ => {
            ctx.class("skipped:not-valid");
            return;
        }
    };
    let mut r = Rng::new(seed);
    let mut paths = all_paths(&d.root, 40);
    let pert = perturbed(&mut r, &d.root, &paths, b);
    let nvalid = paths.len();
    paths.extend(pert);
    if nvalid > 1 {
        ctx.nontrivial();
    }
    if d.flags.has_dup_keys {
        ctx.class("doc:duplicate-keys");
    }
    ctx.class("doc:valid");
    let ex = exact(b);
    let st = std::str::from_utf8(&ex).unwrap();
    let owned = st.to_string();
    let by = Bytes::copy_from_slice(b);
    let fs = FastStr::new(st);
    let guard = if ctx.is_instrumented() { None } else { GuardBuf::new(b) };
    let dom: Option<Value> = sonic_rs::from_slice(&ex).ok();
    let lazy_root: Option<LazyValue> = sonic_rs::from_slice(&ex).ok();
    let owned_root: Option<OwnedLazyValue> = sonic_rs::from_slice(&ex).ok();
    for (pi, p) in paths.iter().enumerate() {
        let w = Want { res: lookup(&d.root, p) };
        ctx.class(match &w.res {
            Ok(_) => "path:resolves",
            Err(LookErr::NotFound) => "path:not-found",
            Err(LookErr::WrongType) => "path:wrong-type",
        });
        let pn: Vec<PointerNode> = to_pointer(p);
        let base = Some(ex.as_ptr());
        check_lazy(ctx, "get(&[u8])", sonic_rs::get(&ex[..], &pn), &w, b, base, p);
        check_lazy(ctx, "get(&str)", sonic_rs::get(st, &pn), &w, b, base, p);
        check_lazy(ctx, "get_from_slice", sonic_rs::get_from_slice(&ex, &pn), &w, b, base, p);
        check_lazy(ctx, "get_from_str", sonic_rs::get_from_str(st, &pn), &w, b, base, p);
        check_lazy(ctx, "get(&String)", sonic_rs::get(&owned, &pn), &w, b, Some(owned.as_ptr()), p);
        check_lazy(ctx, "get(&Bytes)", sonic_rs::get(&by, &pn), &w, b, None, p);
        check_lazy(ctx, "get_from_bytes", sonic_rs::get_from_bytes(&by, &pn), &w, b, None, p);
        check_lazy(ctx, "get(&FastStr)", sonic_rs::get(&fs, &pn), &w, b, None, p);
        check_lazy(ctx, "get_from_faststr", sonic_rs::get_from_faststr(&fs, &pn), &w, b, None, p);
        if let Some(g) = &guard {
            check_lazy(ctx, "get(guard-page slice)", sonic_rs::get(g.as_slice(), &pn), &w, b, Some(g.as_slice().as_ptr()), p);
        }
        // a path is anything iterable: iterators whose size hint says nothing (filter: (0, Some(n));
        // from_fn: (0, None); chain of both) must be walked to the same place as the slice
        {
            let it = pn.iter().filter(|_| true);
            check_lazy(ctx, "get(filter iterator)", sonic_rs::get(st, it), &w, b, base, p);
            let mut k = 0usize;
            let it = std::iter::from_fn(|| {
                k += 1;
                pn.get(k - 1)
            });
            check_lazy(ctx, "get(from_fn iterator)", sonic_rs::get(&ex[..], it), &w, b, base, p);
            let half = pn.len() / 2;
            let it = pn[..half].iter().chain(pn[half..].iter().skip_while(|_| false));
            check_lazy(ctx, "get(&Bytes, chained iterator)", sonic_rs::get(&by, it), &w, b, None, p);
            if pi % 4 == 0 {
                let it = pn.iter().filter(|_| true);
                check_lazy(ctx, "get_unchecked(filter iterator)", unsafe { sonic_rs::get_unchecked(st, it) }, &w, b, base, p);
                if let Some(l) = &lazy_root {
                    let got = l.pointer(pn.iter().filter(|_| true));
                    let want = l.pointer(&pn);
                    ctx.ops(1);
                    if got.as_ref().map(|v| v.as_raw_str()) != want.as_ref().map(|v| v.as_raw_str()) {
                        ctx.fail("pointer-carrier:LazyValue", format!("LazyValue::pointer with a filter iterator gives {:?}, with the slice {:?} (path {:?})", got.map(|v| crate::core::truncate(v.as_raw_str(), 60)), want.map(|v| crate::core::truncate(v.as_raw_str(), 60)), p));
                    }
                }
            }
        }
        // a path given as an iterator of &str / usize when homogeneous
        if p.iter().all(|e| matches!(e, PathEl::Key(_))) {
            let keys: Vec<&str> = p.iter().map(|e| if let PathEl::Key(k) = e { k.as_str() } else { "" }).collect();
            check_lazy(ctx, "get(&str keys)", sonic_rs::get(st, &keys), &w, b, base, p);
            // the way a dotted path usually arrives (keys without a NUL, joined and split again)
            if !keys.is_empty() && keys.iter().all(|k| !k.contains('\u{0}') && !k.is_empty()) {
                let dotted = keys.join("\u{0}");
                check_lazy(ctx, "get(split iterator)", sonic_rs::get(st, dotted.split('\u{0}')), &w, b, base, p);
            }
        }
        if p.iter().all(|e| matches!(e, PathEl::Idx(_))) && !p.is_empty() {
            let idx: Vec<usize> = p.iter().map(|e| if let PathEl::Idx(i) = e { *i } else { 0 }).collect();
            check_lazy(ctx, "get(usize idx)", sonic_rs::get(st, &idx), &w, b, base, p);
        }
        // unchecked variants: well-formed input only (it is)
        unsafe {
            check_lazy(ctx, "get_unchecked", sonic_rs::get_unchecked(&ex[..], &pn), &w, b, base, p);
            check_lazy(ctx, "get_from_slice_unchecked", sonic_rs::get_from_slice_unchecked(&ex, &pn), &w, b, base, p);
            check_lazy(ctx, "get_from_str_unchecked", sonic_rs::get_from_str_unchecked(st, &pn), &w, b, base, p);
            check_lazy(ctx, "get_from_bytes_unchecked", sonic_rs::get_from_bytes_unchecked(&by, &pn), &w, b, None, p);
            check_lazy(ctx, "get_from_faststr_unchecked", sonic_rs::get_from_faststr_unchecked(&fs, &pn), &w, b, None, p);
        }
        // DOM
        if let Some(v) = &dom {
            ctx.ops(1);
            let got = v.pointer(&pn);
            match (got, &w.res) {
                (Some(x), Ok(node)) => {
                    if let Err(m) = cmp_value(x, node, b, crate::mon::c03::default_mode(), &mut String::new()) {
                        ctx.fail("dom-pointer-differs", format!("Value::pointer {}: {}", fmt_path(p), m));
                    }
                }
                (None, Err(_)) => {}
                (Some(_), Err(_)) => ctx.fail("found-unresolvable:Value::pointer", format!("Value::pointer {} found something", fmt_path(p))),
                (None, Ok(_)) => ctx.fail("missed:Value::pointer", format!("Value::pointer {} found nothing", fmt_path(p))),
            }
            // step-wise get and Index
            let mut cur: Option<&Value> = Some(v);
            let mut curi: &Value = v;
            for e in p {
                cur = match (cur, e) {
                    (Some(c), PathEl::Key(k)) => c.get(k.as_str()),
                    (Some(c), PathEl::Idx(i)) => c.get(*i),
                    (None, _) => None,
                };
                curi = match e {
                    PathEl::Key(k) => &curi[k.as_str()],
                    PathEl::Idx(i) => &curi[*i],
                };
            }
            ctx.ops(2);
            if cur.is_some() != w.res.is_ok() {
                ctx.fail("dom-get-differs", format!("step-wise Value::get {}: {:?} vs reference {}", fmt_path(p), cur.is_some(), w.res.is_ok()));
            }
            match &w.res {
                Ok(node) => {
                    if let Err(m) = cmp_value(curi, node, b, crate::mon::c03::default_mode(), &mut String::new()) {
                        ctx.fail("dom-index-differs", format!("Value[..] {}: {}", fmt_path(p), m));
                    }
                }
                Err(_) => {
                    if !curi.is_null() {
                        ctx.fail("dom-index-differs", format!("Value[..] {} is not null for an unresolvable path", fmt_path(p)));
                    }
                }
            }
        }
        // LazyValue / OwnedLazyValue pointer
        if let Some(l) = &lazy_root {
            ctx.ops(1);
            let got = l.pointer(&pn);
            match (got, &w.res) {
                (Some(x), Ok(node)) => {
                    if x.as_raw_str().as_bytes() != &b[node.start..node.end] {
                        ctx.fail("span-differs:LazyValue::pointer", format!("LazyValue::pointer {}: {:?}", fmt_path(p), crate::core::truncate(x.as_raw_str(), 100)));
                    }
                }
                (None, Err(_)) => {}
                (Some(_), Err(_)) => ctx.fail("found-unresolvable:LazyValue::pointer", format!("LazyValue::pointer {}", fmt_path(p))),
                (None, Ok(_)) => ctx.fail("missed:LazyValue::pointer", format!("LazyValue::pointer {} found nothing", fmt_path(p))),
            }
            if pi % 4 == 0 {
                // step-wise get
                fn walk(l: &LazyValue, p: &[PathEl]) -> Option<String> {
                    match p.first() {
                        None => Some(l.as_raw_str().to_string()),
                        Some(PathEl::Key(k)) => walk(&l.get(k.as_str())?, &p[1..]),
                        Some(PathEl::Idx(i)) => walk(&l.get(*i)?, &p[1..]),
                    }
                }
                let cur = walk(l, p);
                ctx.ops(1);
                match (cur, &w.res) {
                    (Some(x), Ok(node)) if x.as_bytes() == &b[node.start..node.end] => {}
                    (None, Err(_)) => {}
                    (c, _) => ctx.fail("lazy-get-differs", format!("step-wise LazyValue::get {}: got {:?}", fmt_path(p), c)),
                }
            }
        }
        if let Some(o) = &owned_root {
            ctx.ops(1);
            let got = o.pointer(&pn);
            match (got, &w.res) {
                (Some(x), Ok(node)) => {
                    // compare through serialisation: untouched owned-lazy values print their source
                    let s = sonic_rs::to_string(x).unwrap_or_default();
                    let want = recog::parse_prefix(b, node.start).ok();
                    let gotd = recog::parse_document(s.as_bytes()).ok();
                    let same = match (&want, &gotd) {
                        (Some(wd), Some(gd)) => crate::mon::common::tree_eq(&gd.root, s.as_bytes(), &wd.root, b, &mut String::new()).is_ok(),
                        _ => false,
                    };
                    if !same {
                        ctx.fail("owned-pointer-differs", format!("OwnedLazyValue::pointer {}: {:?} vs span {:?}", fmt_path(p), crate::core::truncate(&s, 100), crate::core::truncate(&String::from_utf8_lossy(&b[node.start..node.end]), 100)));
                    }
                }
                (None, Err(_)) => {}
                (Some(_), Err(_)) => ctx.fail("found-unresolvable:OwnedLazyValue::pointer", format!("OwnedLazyValue::pointer {}", fmt_path(p))),
                (None, Ok(_)) => ctx.fail("missed:OwnedLazyValue::pointer", format!("OwnedLazyValue::pointer {} found nothing", fmt_path(p))),
            }
        }
    }
}

impl Check for C10 {
    fn id(&self) -> &'static str {
        "C10"
    }
    fn generate(&self, g: &GenParams, emit: &mut dyn FnMut(Case)) {
        let mut r = g.rng(10);
        let n = g.count(100_000, 5_000_000);
        for k in 0..n {
            let mut o = DocOpts::random(&mut r);
            o.dup_keys = k % 6 == 0;
            if k % 3 == 0 {
                // built for the block-based skipper: long strings with brackets/quotes/backslashes
                o.long_strings = true;
                o.escapes = true;
                o.ws = 2;
                o.budget = 30;
            }
            emit(Case::with("doc", doc::gen_doc(&mut r, &o), &[r.next() as i64]));
        }
        // members to skip with 2^15..2^17 (and more) containers of one kind inside
        {
            let ns: &[i64] = if g.tier == Tier::Quick { &[32_767, 65_534, 65_535, 65_536, 70_000, 131_072] } else { &[255, 256, 32_767, 32_768, 65_534, 65_535, 65_536, 65_537, 70_000, 131_071, 131_072, 200_000, 1_048_577] };
            let mut idx = 0u64;
            for kind in 0..4i64 {
                for n in ns {
                    idx += 1;
                    if g.mine(4000 + idx) && (g.scale >= 0.5 || *n <= 70_000) {
                        emit(Case::with("many-inner", vec![], &[kind, *n]));
                    }
                }
            }
        }
        // hand-built skipper traps
        if g.shard == 0 {
            for pad in 0..70usize {
                for trap in [
                    r#"{"a":"]}\"","b":1}"#,
                    r#"{"a":["\\","\\\\","]"],"b":[1,2]}"#,
                    r#"[["[",{"k":"}"}],{"b":"\\\"]"},3]"#,
                    r#"{"a":{"b":{"c":"\\"}},"d":"e"}"#,
                    r#"[1.5e3,"x\"",[[]],{},{"":[{}]},null]"#,
                ] {
                    let mut d = vec![b' '; pad];
                    d.extend_from_slice(trap.as_bytes());
                    emit(Case::with("trap", d, &[pad as i64]));
                }
            }
        }
    }
    fn exec(&self, ctx: &mut Ctx, c: &Case) {
        if c.entry == "many-inner" {
            ctx.nontrivial();
            check_many_inner(ctx, c.p(0) as usize, c.p(1) as usize);
            ctx.sample("many-inner");
            return;
        }
        check_doc(ctx, &c.input, c.p(0) as u64);
        ctx.sample(&c.entry);
    }
    fn required_classes(&self, _b: &str, _t: Tier) -> Vec<&'static str> {
        vec!["doc:valid", "doc:duplicate-keys", "path:resolves", "path:not-found", "path:wrong-type", "doc:many-inner-containers"]
    }
}
