//! C08 — numbers are written so that they read back bit-identically; raw numbers are verbatim.
use sonic_rs::JsonValueMutTrait;
use sonic_rs::{JsonNumberTrait, JsonValueTrait, RawNumber, Value};

use crate::core::{Case, Check, Ctx, GenParams, Tier};
use crate::gen::numlit;
use crate::refmodel::num::{classify, is_json_number, RefNum};
use crate::rng::Rng;

pub struct C08;

fn check_f64(ctx: &mut Ctx, x: f64) {
    ctx.ops(1);
    let s = match sonic_rs::to_string(&x) {
        Ok(s) => s,
        Err(e) => {
            ctx.fail("f64-ser-error", e.to_string());
            return;
        }
    };
    if !x.is_finite() {
        if s != "null" {
            ctx.fail("nonfinite-not-null", format!("to_string({:?}) = {:?}", x, s));
        }
        return;
    }
    if !is_json_number(s.as_bytes()) {
        ctx.fail("f64-not-a-json-number", format!("to_string({:e}) = {:?}", x, s));
        return;
    }
    match sonic_rs::from_str::<f64>(&s) {
        Ok(y) if y.to_bits() == x.to_bits() => {}
        Ok(y) => ctx.fail(if x == 0.0 { "f64-roundtrip:zero-sign" } else { "f64-roundtrip" }, format!("{:e} ({:#x}) -> {:?} -> {:e} ({:#x})", x, x.to_bits(), s, y, y.to_bits())),
        Err(e) => ctx.fail("f64-roundtrip-rejects", format!("{:e} -> {:?} -> {}", x, s, e)),
    }
    // through the DOM
    ctx.ops(1);
    let Some(v) = Value::new_f64(x) else {
        ctx.fail("new_f64-none", format!("Value::new_f64({:e}) is None for a finite float", x));
        return;
    };
    match sonic_rs::to_value(&x) {
        Ok(tv) if tv.as_f64().map(f64::to_bits) == Some(x.to_bits()) => {}
        other => ctx.fail("to_value-f64", format!("to_value({:e}) = {:?}", x, other.map(|v| v.as_f64()).map_err(|e| e.to_string()))),
    }
    let sv = sonic_rs::to_string(&v).unwrap_or_default();
    match sonic_rs::from_str::<Value>(&sv) {
        Ok(back) => {
            let got = back.as_f64();
            let same = match got {
                Some(y) => y.to_bits() == x.to_bits() || (cfg!(feature = "arbitrary_precision") && y == x),
                None => false,
            };
            // integers-valued floats print as `1.0`, the DOM reads them back as f64
            if !same {
                ctx.fail("f64-dom-roundtrip", format!("Value::from({:e}) -> {:?} -> {:?}", x, sv, got));
            }
        }
        Err(e) => ctx.fail("f64-dom-roundtrip-rejects", format!("{:e} -> {:?} -> {}", x, sv, e)),
    }
}

fn check_f32(ctx: &mut Ctx, x: f32) {
    ctx.ops(1);
    let s = match sonic_rs::to_string(&x) {
        Ok(s) => s,
        Err(e) => {
            ctx.fail("f32-ser-error", e.to_string());
            return;
        }
    };
    if !x.is_finite() {
        if s != "null" {
            ctx.fail("nonfinite-not-null", format!("to_string({:?}f32) = {:?}", x, s));
        }
        return;
    }
    if !is_json_number(s.as_bytes()) {
        ctx.fail("f32-not-a-json-number", format!("to_string({:e}f32) = {:?}", x, s));
        return;
    }
    match sonic_rs::from_str::<f32>(&s) {
        Ok(y) if y.to_bits() == x.to_bits() => {}
        Ok(y) => {
            // F36: the text is the correct shortest f32 spelling and the reader did exactly what C07
            // prescribes for f32 targets (nearest f64, narrowed once) - the two roundings together
            // land on the neighbouring f32. Anything else is a different defect.
            let text_is_right = s.parse::<f32>().map(|z| z.to_bits()) == Ok(x.to_bits());
            let narrowed_once = s.parse::<f64>().map(|d| (d as f32).to_bits()) == Ok(y.to_bits());
            let one_ulp = (y.to_bits() as i64 - x.to_bits() as i64).abs() == 1;
            if text_is_right && narrowed_once && one_ulp {
                ctx.class("f32:double-rounding-case");
                ctx.fail("f32-roundtrip one-ulp-by-documented-f64-narrowing-of-a-correct-shortest-text", format!("{:e} ({:#x}) -> {:?} -> {:e} ({:#x})", x, x.to_bits(), s, y, y.to_bits()));
            } else {
                ctx.fail("f32-roundtrip", format!("{:e} ({:#x}) -> {:?} -> {:e} ({:#x})", x, x.to_bits(), s, y, y.to_bits()));
            }
        }
        Err(e) => ctx.fail("f32-roundtrip-rejects", format!("{:e} -> {:?} -> {}", x, s, e)),
    }
}

macro_rules! check_int {
    ($ctx:expr, $x:expr, $t:ty) => {{
        let x: $t = $x;
        $ctx.ops(1);
        match sonic_rs::to_string(&x) {
            Ok(s) => {
                if s != x.to_string() || !is_json_number(s.as_bytes()) {
                    $ctx.fail(&format!("int-text:{}", stringify!($t)), format!("to_string({}{}) = {:?}", x, stringify!($t), s));
                }
                match sonic_rs::from_str::<$t>(&s) {
                    Ok(y) if y == x => {}
                    other => $ctx.fail(&format!("int-roundtrip:{}", stringify!($t)), format!("{} -> {:?} -> {:?}", x, s, other.map_err(|e| e.to_string()))),
                }
                // the same through one deserializer that has just decoded escaped strings (digits
                // among them) and that reads another number afterwards
                let pair = ("\u{31}\"2\n".to_string(), x, "9\t".to_string(), x);
                match sonic_rs::to_string(&pair).and_then(|t| sonic_rs::from_str::<(String, $t, String, $t)>(&t.replace("\"1", "\"\\u0031").replace("\"9", "\"\\u0039"))) {
                    Ok(y) if y == pair => {}
                    other => $ctx.fail(&format!("int-roundtrip-after-strings:{}", stringify!($t)), format!("{} in (String, {}, String, {}) -> {:?}", x, stringify!($t), stringify!($t), other.map_err(|e| e.to_string()))),
                }
            }
            Err(e) => $ctx.fail(&format!("int-ser-error:{}", stringify!($t)), e.to_string()),
        }
    }};
}

fn check_dom_int(ctx: &mut Ctx, u: u64, i: i64) {
    ctx.ops(2);
    let v = Value::from(u);
    let s = sonic_rs::to_string(&v).unwrap_or_default();
    match sonic_rs::from_str::<Value>(&s) {
        Ok(b) if b.as_u64() == Some(u) && s == u.to_string() => {}
        other => ctx.fail("u64-dom-roundtrip", format!("{} -> {:?} -> {:?}", u, s, other.map(|b| b.as_u64()).map_err(|e| e.to_string()))),
    }
    let v = Value::from(i);
    let s = sonic_rs::to_string(&v).unwrap_or_default();
    match sonic_rs::from_str::<Value>(&s) {
        Ok(b) if b.as_i64() == Some(i) && s == i.to_string() => {}
        other => ctx.fail("i64-dom-roundtrip", format!("{} -> {:?} -> {:?}", i, s, other.map(|b| b.as_i64()).map_err(|e| e.to_string()))),
    }
}

fn check_raw(ctx: &mut Ctx, lit: &str) {
    let valid = is_json_number(lit.as_bytes());
    for quoted in [false, true] {
        ctx.ops(1);
        let text = if quoted { format!("\"{}\"", lit) } else { lit.to_string() };
        if quoted && lit.bytes().any(|c| c == b'"' || c == b'\\' || c < 0x20) {
            continue;
        }
        match sonic_rs::from_str::<RawNumber>(&text) {
            Ok(rn) => {
                if !valid {
                    ctx.fail(
                        if quoted { "rawnumber-accepts-invalid:quoted" } else { "rawnumber-accepts-invalid" },
                        format!("from_str::<RawNumber>({:?}) holds {:?}, not a JSON number", text, rn.as_str()),
                    );
                    continue;
                }
                if rn.as_str() != lit {
                    ctx.fail("rawnumber-not-verbatim", format!("RawNumber from {:?} holds {:?}", text, rn.as_str()));
                }
                match sonic_rs::to_string(&rn) {
                    Ok(s) if s == lit => {}
                    other => ctx.fail("rawnumber-ser-not-verbatim", format!("to_string(RawNumber {:?}) = {:?}", lit, other.map_err(|e| e.to_string()))),
                }
                // numeric accessors agree with parsing the literal
                let w = classify(lit.as_bytes());
                let (wu, wi, wf): (Option<u64>, Option<i64>, Option<f64>) = match w {
                    RefNum::U(u) => (Some(u), i64::try_from(u).ok(), Some(u as f64)),
                    RefNum::I(i) => (None, Some(i), Some(i as f64)),
                    RefNum::F(f) => (None, None, Some(f)),
                    RefNum::Inf => (None, None, None),
                };
                let negzero = crate::refmodel::num::is_neg_zero_int_literal(lit.as_bytes());
                let exactf: Option<f64> = lit.parse::<f64>().ok().filter(|f| f.is_finite());
                if !negzero {
                    if rn.as_u64() != wu || rn.as_i64() != wi {
                        ctx.fail("rawnumber-int-accessors", format!("RawNumber {:?}: as_u64 {:?} as_i64 {:?}, parsing the literal gives {:?} {:?}", lit, rn.as_u64(), rn.as_i64(), wu, wi));
                    }
                    if rn.as_f64().map(f64::to_bits) != exactf.map(f64::to_bits) && rn.as_f64().map(f64::to_bits) != wf.map(f64::to_bits) {
                        ctx.fail("rawnumber-f64-accessor", format!("RawNumber {:?}: as_f64 {:?}, parsing the literal gives {:?}", lit, rn.as_f64(), exactf));
                    }
                    if rn.is_u64() != wu.is_some() || rn.is_i64() != wi.is_some() {
                        ctx.fail("rawnumber-is-accessors", format!("RawNumber {:?}: is_u64 {} is_i64 {} vs {:?} {:?}", lit, rn.is_u64(), rn.is_i64(), wu, wi));
                    }
                }
                if negzero {
                    // `-0` denotes the float -0.0 (C07): the f64 accessor keeps the sign; the integer
                    // accessors are not judged for this one literal
                    if rn.as_f64().map(f64::to_bits) != Some((-0.0f64).to_bits()) {
                        ctx.fail("rawnumber-f64-accessor:negative-zero", format!("RawNumber {:?}: as_f64 {:?} (sign of zero lost)", lit, rn.as_f64()));
                    }
                }
                if rn.is_f64() != rn.as_f64().is_some() || rn.is_f64() != exactf.is_some() {
                    ctx.fail("rawnumber-is-f64", format!("RawNumber {:?}: is_f64 {} but as_f64 {:?}, the literal is finite: {}", lit, rn.is_f64(), rn.as_f64(), exactf.is_some()));
                }
                // conversion to a parsed Number: the C07 class of the literal, or an error when it is not finite
                match (sonic_rs::Number::try_from(rn.clone()), w) {
                    (Err(_), RefNum::Inf) => {}
                    (Ok(n), RefNum::U(u)) if n.as_u64() == Some(u) && n.is_u64() => {}
                    (Ok(n), RefNum::I(i)) if n.as_i64() == Some(i) && n.is_i64() && !n.is_u64() => {}
                    (Ok(n), _) if negzero && n.is_f64() && n.as_f64().map(f64::to_bits) == Some((-0.0f64).to_bits()) => {}
                    (Ok(n), RefNum::F(f)) if n.is_f64() && n.as_f64().map(f64::to_bits) == Some(f.to_bits()) => {}
                    (got, _) => ctx.fail("rawnumber-to-number", format!("Number::try_from(RawNumber {:?}) = {:?}, the literal denotes {:?}", lit, got.map_err(|e| e.to_string()), w)),
                }
            }
            Err(e) => {
                if valid {
                    ctx.fail(if quoted { "rawnumber-rejects-valid:quoted" } else { "rawnumber-rejects-valid" }, format!("from_str::<RawNumber>({:?}) failed: {}", text, crate::mon::common::err_brief(&e)));
                }
            }
        }
    }
    // raw-number mode DOM keeps the literal
    if valid {
        ctx.ops(1);
        let doc = format!("[{}]", lit);
        match sonic_rs::Deserializer::from_str(&doc).use_rawnumber().deserialize::<Value>() {
            Ok(v) => {
                match v[0].as_raw_number() {
                    Some(rn) if rn.as_str() == lit => {}
                    other => ctx.fail("dom-rawnumber-not-verbatim", format!("{:?} -> {:?}", doc, other.map(|r| r.as_str().to_string()))),
                }
                let s = sonic_rs::to_string(&v).unwrap_or_default();
                if s != doc {
                    ctx.fail("dom-rawnumber-ser-not-verbatim", format!("{:?} -> {:?}", doc, s));
                }
            }
            Err(e) => ctx.fail("dom-rawnumber-rejects", format!("{:?}: {}", doc, e)),
        }
        // the same literal arriving through a reader in pieces (pipes, sockets, `Chain`: a short
        // read is not the end): every number type and the DOM read what `from_str` reads
        {
            use std::io::Read as _;
            let chunk = 1 + lit.len() % 5;
            let cut = lit.len() / 2;
            let a = sonic_rs::from_reader::<_, f64>(crate::mon::common::ChunkReader { data: lit.as_bytes(), chunk }).map(|x| x.to_bits()).map_err(|_| ());
            let b = sonic_rs::from_str::<f64>(lit).map(|x| x.to_bits()).map_err(|_| ());
            let c = sonic_rs::from_reader::<_, Value>(lit.as_bytes()[..cut].chain(&lit.as_bytes()[cut..])).map(|v| sonic_rs::to_string(&v).unwrap_or_default()).map_err(|_| ());
            let d = sonic_rs::from_str::<Value>(lit).map(|v| sonic_rs::to_string(&v).unwrap_or_default()).map_err(|_| ());
            let e = sonic_rs::from_reader::<_, RawNumber>(crate::mon::common::ChunkReader { data: lit.as_bytes(), chunk: 1 }).map(|r| r.as_str().to_string()).map_err(|_| ());
            let f = sonic_rs::from_str::<RawNumber>(lit).map(|r| r.as_str().to_string()).map_err(|_| ());
            if a != b || c != d || e != f {
                ctx.fail("reader-in-pieces-differs", format!("{:?} read through a reader that delivers it in pieces: f64 {:?} vs {:?}, Value {:?} vs {:?}, RawNumber {:?} vs {:?}", lit, a, b, c, d, e, f));
            }
        }
        // raw-number mode together with the lossy option, chosen in either order
        for (name, r) in [
            ("use_rawnumber().utf8_lossy()", sonic_rs::Deserializer::from_slice(doc.as_bytes()).use_rawnumber().utf8_lossy().deserialize::<Value>()),
            ("utf8_lossy().use_rawnumber()", sonic_rs::Deserializer::from_slice(doc.as_bytes()).utf8_lossy().use_rawnumber().deserialize::<Value>()),
        ] {
            match r.map(|v| sonic_rs::to_string(&v).unwrap_or_default()) {
                Ok(s) if s == doc => {}
                other => ctx.fail(&format!("dom-rawnumber-not-verbatim:{}", name), format!("{:?} -> {:?}", doc, other.map_err(|e| e.to_string()))),
            }
        }
        // an OWNED raw-number value (to_value of a RawNumber, to_value of a raw-number DOM) keeps
        // the literal through clone, copy-on-write of a cloned container, and re-serialisation
        if let Ok(rn) = sonic_rs::from_str::<RawNumber>(lit) {
            ctx.ops(1);
            match sonic_rs::to_value(&rn) {
                Ok(v) => {
                    let c = v.clone();
                    let arr = Value::from(vec![v.clone(), c.clone()]);
                    let mut arr2 = arr.clone();
                    if let Some(a) = arr2.as_array_mut() {
                        a.push(Value::from(7u64));
                    }
                    let mut obj = sonic_rs::json!({"n": v.clone()});
                    let obj2 = obj.clone();
                    obj["x"] = Value::from(true);
                    let texts = [
                        ("to_value", sonic_rs::to_string(&v).unwrap_or_default(), lit.to_string()),
                        ("clone", sonic_rs::to_string(&c).unwrap_or_default(), lit.to_string()),
                        ("array", sonic_rs::to_string(&arr).unwrap_or_default(), format!("[{},{}]", lit, lit)),
                        ("cloned-array-after-push", sonic_rs::to_string(&arr2).unwrap_or_default(), format!("[{},{},7]", lit, lit)),
                        ("cloned-object", sonic_rs::to_string(&obj2).unwrap_or_default(), format!("{{\"n\":{}}}", lit)),
                    ];
                    for (name, got, want) in &texts {
                        if got != want {
                            ctx.fail(&format!("owned-rawnumber-not-verbatim:{}", name), format!("{:?} instead of {:?}", crate::core::truncate(got, 120), crate::core::truncate(want, 120)));
                        }
                    }
                    let member = obj.get("n").and_then(|x| x.as_raw_number()).map(|r| r.as_str().to_string());
                    if !c.is_number() || c.as_raw_number().map(|r| r.as_str().to_string()).as_deref() != Some(lit) || member.as_deref() != Some(lit) || arr2[0].as_f64().map(f64::to_bits) != v.as_f64().map(f64::to_bits) {
                        ctx.fail("owned-rawnumber-accessors", format!("clone of to_value(RawNumber {:?}): is_number {}, as_raw_number {:?}", lit, c.is_number(), c.as_raw_number().map(|r| r.as_str().to_string())));
                    }
                    ctx.class("raw:owned-value");
                }
                Err(e) => ctx.fail("owned-rawnumber-to_value", format!("{:?}: {}", lit, e)),
            }
        }
    }
}

impl Check for C08 {
    fn id(&self) -> &'static str {
        "C08"
    }
    fn generate(&self, g: &GenParams, emit: &mut dyn FnMut(Case)) {
        let mut idx = 0u64;
        if g.shard == 0 && g.build == "native-rel" {
            // the recorded f32 double-rounding case (finding F36) and its neighbours
            emit(Case::with("f32-probe", vec![], &[0x15ae43fd]));
        }
        // all u8/i8/u16/i16
        for blk in 0..16i64 {
            if g.mine(idx) {
                emit(Case::with("small-ints", vec![], &[blk]));
            }
            idx += 1;
        }
        // f32: exhaustive in thorough (2^32 in 2^16 blocks of 2^16), stratified 2^24 in quick
        let blocks: u64 = 1 << 16;
        for b in 0..blocks {
            if g.mine(idx) {
                if g.tier == Tier::Thorough && g.scale >= 0.5 {
                    emit(Case::with("f32-block", vec![], &[b as i64, 1]));
                } else if g.scale >= 0.5 || b % 16 == 0 {
                    // every 256th value of the block, offset by the block number
                    emit(Case::with("f32-block", vec![], &[b as i64, 256]));
                }
            }
            idx += 1;
        }
        // f64 stratified over every exponent
        for e in 0..2048i64 {
            if g.mine(idx) {
                emit(Case::with("f64-exp", vec![], &[e, if g.tier == Tier::Quick { 200 } else { 20_000 }]));
            }
            idx += 1;
        }
        let mut r = g.rng(8);
        let n = g.count(8_000, 800_000);
        for _ in 0..n {
            emit(Case::with("f64-random", vec![], &[r.next() as i64, 512]));
        }
        let n = g.count(1_000, 100_000);
        for _ in 0..n {
            emit(Case::with("wide-ints", vec![], &[r.next() as i64, 512]));
        }
        let n = g.count(6_000, 600_000);
        for _ in 0..n {
            emit(Case::with("raw", vec![], &[r.next() as i64, 256]));
        }
    }
    fn exec(&self, ctx: &mut Ctx, c: &Case) {
        ctx.nontrivial();
        match c.entry.as_str() {
            "small-ints" => {
                let blk = c.p(0) as u32;
                for k in 0..4096u32 {
                    let v = blk * 4096 + k;
                    check_int!(ctx, v as u16, u16);
                    check_int!(ctx, v as u16 as i16, i16);
                    if v < 256 {
                        check_int!(ctx, v as u8, u8);
                        check_int!(ctx, v as u8 as i8, i8);
                    }
                }
                ctx.class("ints:all-8-16-bit");
                ctx.sample("small-ints");
            }
            "f32-probe" => {
                let b = c.p(0) as u32;
                for d in 0..5u32 {
                    check_f32(ctx, f32::from_bits(b - 2 + d));
                }
                ctx.nontrivial();
                ctx.sample("f32-probe");
            }
            "f32-block" => {
                let b = c.p(0) as u32;
                let step = c.p(1) as u32;
                let mut k = if step > 1 { b % step } else { 0 };
                while k < 65536 {
                    check_f32(ctx, f32::from_bits((b << 16) | k));
                    k += step;
                }
                ctx.class(if step == 1 { "f32:exhaustive-block" } else { "f32:stratified-block" });
                ctx.sample("f32-block");
            }
            "f64-exp" => {
                let e = c.p(0) as u64;
                let mut r = Rng::new(e + 99);
                for sign in [0u64, 1 << 63] {
                    for m in [0u64, 1, 2, 0xF_FFFF_FFFF_FFFF, 0xF_FFFF_FFFF_FFFE, 0x8_0000_0000_0000, 0x7_FFFF_FFFF_FFFF] {
                        check_f64(ctx, f64::from_bits(sign | (e << 52) | m));
                    }
                    for _ in 0..c.p(1) {
                        check_f64(ctx, f64::from_bits(sign | (e << 52) | (r.next() & 0xF_FFFF_FFFF_FFFF)));
                    }
                }
                ctx.class("f64:every-exponent");
                if e == 0 {
                    ctx.class("f64:subnormal-and-zero");
                }
                ctx.sample("f64-exp");
            }
            "f64-random" => {
                let mut r = Rng::new(c.p(0) as u64);
                for _ in 0..c.p(1) {
                    let x = numlit::random_f64_bits(&mut r);
                    check_f64(ctx, x);
                    check_f64(ctx, -x);
                    check_f32(ctx, x as f32);
                }
                check_f64(ctx, f64::NAN);
                check_f64(ctx, f64::INFINITY);
                check_f32(ctx, f32::NEG_INFINITY);
                ctx.class("f64:random");
            }
            "wide-ints" => {
                let mut r = Rng::new(c.p(0) as u64);
                for _ in 0..c.p(1) {
                    let a = r.next();
                    let sh = r.below(64);
                    check_int!(ctx, a >> sh, u64);
                    check_int!(ctx, (a as i64) >> sh, i64);
                    check_int!(ctx, (a >> sh) as u32, u32);
                    check_int!(ctx, ((a as i64) >> sh) as i32, i32);
                    let w = ((a as u128) << 64) | r.next() as u128;
                    let sh2 = r.below(128);
                    check_int!(ctx, w >> sh2, u128);
                    check_int!(ctx, (w as i128) >> sh2, i128);
                    check_int!(ctx, (a >> sh) as usize, usize);
                    check_int!(ctx, ((a as i64) >> sh) as isize, isize);
                    check_dom_int(ctx, a >> sh, (a as i64) >> sh);
                }
                for (u, i, w, iw) in [(u64::MAX, i64::MIN, u128::MAX, i128::MIN), (0, i64::MAX, 1u128 << 64, i128::MAX), (1 << 63, -1, (1u128 << 64) - 1, -(1i128 << 64))] {
                    check_int!(ctx, u, u64);
                    check_int!(ctx, i, i64);
                    check_int!(ctx, w, u128);
                    check_int!(ctx, iw, i128);
                    check_dom_int(ctx, u, i);
                }
                ctx.class("ints:wide");
                ctx.sample("wide-ints");
            }
            _ => {
                let mut r = Rng::new(c.p(0) as u64);
                for _ in 0..c.p(1) {
                    let l = numlit::hostile(&mut r);
                    check_raw(ctx, &l);
                }
                // number shapes: the `.`/`e` on every lane of the block-wise skipper, malformed tails
                for _ in 0..c.p(1) / 2 {
                    let l = numlit::number_shape(r.range(1, 140), r.below(64) as usize, r.chance(1, 4), r.range(0, 40));
                    check_raw(ctx, &l);
                    // followed by at least 32 bytes of input inside a raw-number DOM
                    let doc = format!("[{},\"ppppppppppppppppppppppppppppppppppppppppppp\"]", l);
                    let valid = is_json_number(l.as_bytes());
                    ctx.ops(1);
                    match sonic_rs::Deserializer::from_str(&doc).use_rawnumber().deserialize::<Value>() {
                        Ok(v) => {
                            if !valid {
                                ctx.fail("dom-rawnumber-accepts-invalid", format!("{:?} accepted in raw-number mode", crate::core::truncate(&doc, 120)));
                            } else if v[0].as_raw_number().map(|x| x.as_str().to_string()).as_deref() != Some(l.as_str()) {
                                ctx.fail("dom-rawnumber-not-verbatim", format!("{:?}", crate::core::truncate(&doc, 120)));
                            }
                        }
                        Err(e) => {
                            if valid && !matches!(classify(l.as_bytes()), RefNum::Inf) {
                                ctx.fail("dom-rawnumber-rejects", format!("{:?}: {}", crate::core::truncate(&doc, 120), e));
                            }
                        }
                    }
                }
                for l in ["0", "-0", "-0.0", "1e5", "1E+5", "0.10", "1.0", "123456789012345678901234567890", "-1e-400", "1e400", "01", "1.", "", "abc", "-", "+1"] {
                    check_raw(ctx, l);
                }
                ctx.class("raw:literals");
                ctx.sample("raw");
            }
        }
    }
    fn required_classes(&self, b: &str, t: Tier) -> Vec<&'static str> {
        let mut v = vec!["ints:all-8-16-bit", "f64:every-exponent", "f64:subnormal-and-zero", "f64:random", "ints:wide", "raw:literals", "raw:owned-value"];
        // the exhaustive f32 scan belongs to the full-scale native build; scaled-down builds stratify
        v.push(if t == Tier::Thorough && b == "native-rel" { "f32:exhaustive-block" } else { "f32:stratified-block" });
        v
    }
}
