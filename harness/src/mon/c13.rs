//! C13 — lazy values are faithful views of their source text.
use faststr::FastStr;
use sonic_rs::{JsonContainerTrait, JsonValueMutTrait, JsonValueTrait, LazyValue, OwnedLazyValue, Value};

use crate::core::{Case, Check, Ctx, GenParams, Tier};
use crate::gen::doc::{self, DocOpts};
use crate::mon::common::{exact, number_class, tree_eq};
use crate::refmodel::esc;
use crate::refmodel::recog::{self, K, R};
use crate::rng::Rng;

pub struct C13;

/// accessor transcript of any value type implementing JsonValueTrait
fn transcript<V: JsonValueTrait>(v: &V) -> String {
    let num = v.as_number().map(|n| crate::mon::common::fmt_refnum(number_class(&n)));
    format!(
        "type={:?} null={} bool={:?} true={} false={} is_bool={} is_num={} is_str={} is_arr={} is_obj={} is_f64={} is_i64={} is_u64={} f64={:?} i64={:?} u64={:?} num={:?} str={:?} rawnum={:?}",
        v.get_type(),
        v.is_null(),
        v.as_bool(),
        v.is_true(),
        v.is_false(),
        v.is_boolean(),
        v.is_number(),
        v.is_str(),
        v.is_array(),
        v.is_object(),
        v.is_f64(),
        v.is_i64(),
        v.is_u64(),
        v.as_f64().map(f64::to_bits),
        v.as_i64(),
        v.as_u64(),
        num,
        v.as_str(),
        v.as_raw_number().map(|r| r.as_str().to_string()),
    )
}

/// what the DOM of the raw text says, with the raw number text added (the DOM keeps numbers parsed)
fn dom_transcript(v: &Value, raw: &[u8]) -> String {
    let mut s = transcript(v);
    if v.is_number() {
        // DOM `as_raw_number` is None unless parsed in raw mode; lazy values always know their literal
        let i = s.rfind("rawnum=").unwrap();
        s.truncate(i);
        s.push_str(&format!("rawnum={:?}", Some(String::from_utf8_lossy(raw).to_string())));
    }
    s
}

fn check_view(ctx: &mut Ctx, src: &str, what: &str, t: &[u8], lazy_tr: String, ser: Result<String, String>) {
    ctx.ops(1);
    let dom: Value = match sonic_rs::from_slice(t) {
        Ok(v) => v,
        Err(_) => {
            ctx.class("skipped:dom-rejects");
            return;
        }
    };
    let want = dom_transcript(&dom, t);
    if lazy_tr.contains("false=true") != (t == b"false") || lazy_tr.contains("true=true") != (t == b"true") {
        ctx.fail(&format!("bool-predicates:{}:{}", src, what), format!("{} from {} on {:?}: {}", what, src, crate::core::truncate(&String::from_utf8_lossy(t), 60), lazy_tr));
    }
    if lazy_tr != want {
        ctx.fail(&format!("accessors-differ:{}:{}", src, what), format!("{} from {} on {:?}:\n lazy {}\n dom  {}", what, src, crate::core::truncate(&String::from_utf8_lossy(t), 120), lazy_tr, want));
    }
    match ser {
        Ok(s) => {
            if s.as_bytes() != t {
                ctx.fail(&format!("not-verbatim:{}:{}", src, what), format!("{} from {} serialises to {:?}, source text {:?}", what, src, crate::core::truncate(&s, 200), crate::core::truncate(&String::from_utf8_lossy(t), 200)));
            }
        }
        Err(e) => ctx.fail(&format!("ser-failed:{}:{}", src, what), e),
    }
}

fn lazy_children(ctx: &mut Ctx, src: &str, lv: &LazyValue, node: &R, b: &[u8]) {
    match &node.k {
        K::Arr(xs) => {
            for (i, x) in xs.iter().enumerate().take(12) {
                ctx.ops(1);
                match lv.get(i) {
                    Some(c) if c.as_raw_str().as_bytes() == &b[x.start..x.end] => {}
                    other => ctx.fail(&format!("child-differs:{}:LazyValue", src), format!("get({}) = {:?}, span {:?}", i, other.map(|c| c.as_raw_str().to_string()), String::from_utf8_lossy(&b[x.start..x.end]))),
                }
            }
            ctx.ops(1);
            if lv.get(xs.len()).is_some() || lv.get("a").is_some() {
                ctx.fail(&format!("child-phantom:{}:LazyValue", src), "get past the end / by key on an array returned a value".into());
            }
        }
        K::Obj(ms) => {
            let mut seen: Vec<&str> = vec![];
            for (k, x) in ms.iter().take(12) {
                let Some(ks) = k.key_str() else { continue };
                if seen.contains(&ks) {
                    continue;
                }
                seen.push(ks);
                ctx.ops(1);
                match lv.get(ks) {
                    Some(c) if c.as_raw_str().as_bytes() == &b[x.start..x.end] => {}
                    other => ctx.fail(&format!("child-differs:{}:LazyValue", src), format!("get({:?}) = {:?}, span {:?}", ks, other.map(|c| c.as_raw_str().to_string()), String::from_utf8_lossy(&b[x.start..x.end]))),
                }
            }
            ctx.ops(1);
            if lv.get("__missing__").is_some() || lv.get(0).is_some() {
                ctx.fail(&format!("child-phantom:{}:LazyValue", src), "get of a missing key / by index on an object returned a value".into());
            }
        }
        _ => {
            ctx.ops(1);
            if lv.get(0).is_some() || lv.get("a").is_some() {
                ctx.fail(&format!("child-phantom:{}:LazyValue", src), "get on a scalar returned a value".into());
            }
        }
    }
}

fn owned_children(ctx: &mut Ctx, src: &str, ov: &OwnedLazyValue, node: &R, b: &[u8]) {
    let cmp = |ctx: &mut Ctx, c: Option<&OwnedLazyValue>, x: &R, label: String| {
        ctx.ops(1);
        match c {
            Some(c) => {
                let s = sonic_rs::to_string(c).unwrap_or_default();
                if s.as_bytes() != &b[x.start..x.end] {
                    ctx.fail(&format!("child-differs:{}:OwnedLazyValue", src), format!("{} serialises to {:?}, span {:?}", label, crate::core::truncate(&s, 100), crate::core::truncate(&String::from_utf8_lossy(&b[x.start..x.end]), 100)));
                }
            }
            None => ctx.fail(&format!("child-missing:{}:OwnedLazyValue", src), format!("{} is None", label)),
        }
    };
    match &node.k {
        K::Arr(xs) => {
            for (i, x) in xs.iter().enumerate().take(12) {
                cmp(ctx, ov.get(i), x, format!("get({})", i));
            }
            if ov.get(xs.len()).is_some() || ov.get("a").is_some() {
                ctx.fail(&format!("child-phantom:{}:OwnedLazyValue", src), "get past the end / by key on an array returned a value".into());
            }
            ctx.ops(1);
            match ov.as_array() {
                Some(a) if a.len() == xs.len() => {}
                other => ctx.fail(&format!("as_array-len:{}", src), format!("as_array len {:?} vs {}", other.map(|a| a.len()), xs.len())),
            }
        }
        K::Obj(ms) => {
            let mut seen: Vec<&str> = vec![];
            for (k, x) in ms.iter().take(12) {
                let Some(ks) = k.key_str() else { continue };
                if seen.contains(&ks) {
                    continue;
                }
                seen.push(ks);
                cmp(ctx, ov.get(ks), x, format!("get({:?})", ks));
            }
            if ov.get("__missing__").is_some() || ov.get(0).is_some() {
                ctx.fail(&format!("child-phantom:{}:OwnedLazyValue", src), "get of a missing key / by index on an object returned a value".into());
            }
            ctx.ops(1);
            match ov.as_object() {
                Some(o) if o.len() == ms.len() => {}
                other => ctx.fail(&format!("as_object-len:{}", src), format!("as_object len {:?} vs {}", other.map(|a| a.len()), ms.len())),
            }
        }
        _ => {
            if ov.get(0).is_some() || ov.get("a").is_some() || ov.as_array().is_some() || ov.as_object().is_some() {
                ctx.fail(&format!("child-phantom:{}:OwnedLazyValue", src), "container accessors on a scalar returned a value".into());
            }
        }
    }
}

/// all views of one well-formed value text `t` (no surrounding blanks)
fn check_value_text(ctx: &mut Ctx, t: &[u8], seed: u64) {
    let Ok(d) = recog::parse_document(t) else { return };
    if !d.full_ok() || d.flags.max_depth > 64 {
        ctx.class("skipped:not-fully-valid");
        return;
    }
    ctx.class(&format!("value:{}", d.root.type_name()));
    let mut r = Rng::new(seed);
    let mut padded = vec![b' '; r.range(0, 40)];
    let lead = padded.len();
    padded.extend_from_slice(t);
    for _ in 0..r.range(0, 40) {
        padded.push(*r.pick(&[b' ', b'\n', b'\t', b'\r']));
    }
    let ex = exact(&padded);
    let ps = std::str::from_utf8(&ex).unwrap();
    let ser = |v: &LazyValue| sonic_rs::to_string(v).map_err(|e| e.to_string());
    let sero = |v: &OwnedLazyValue| sonic_rs::to_string(v).map_err(|e| e.to_string());

    // LazyValue from serde (deserialize then serialize reproduces the trimmed input)
    match sonic_rs::from_str::<LazyValue>(ps) {
        Ok(lv) => {
            check_view(ctx, "from_str", "LazyValue", t, transcript(&lv), ser(&lv));
            lazy_children(ctx, "from_str", &lv, &d.root, t);
            if lv.as_raw_str().as_bytes() != t {
                ctx.fail("raw-not-trimmed:from_str", format!("as_raw_str {:?}", lv.as_raw_str()));
            }
            // the trait forwards through references, Option and Result unchanged
            check_view(ctx, "from_str:&V", "LazyValue", t, transcript(&&lv), ser(&lv));
            check_view(ctx, "from_str:Option<V>", "LazyValue", t, transcript(&Some(lv.clone())), ser(&lv));
            check_view(ctx, "from_str:Result<V>", "LazyValue", t, transcript(&Ok::<_, ()>(lv.clone())), ser(&lv));
            // Value::try_from(lazy) is the DOM of the raw text; Display is the raw text; Eq/Ord/Hash
            // follow the raw text
            ctx.ops(1);
            match (Value::try_from(lv.clone()), sonic_rs::from_slice::<Value>(t)) {
                (Ok(a), Ok(b)) => {
                    if a != b || sonic_rs::to_string(&a).ok() != sonic_rs::to_string(&b).ok() {
                        ctx.fail("try_from-lazy-differs", format!("Value::try_from(lazy) = {:?} vs DOM {:?}", sonic_rs::to_string(&a), sonic_rs::to_string(&b)));
                    }
                }
                (a, b) => {
                    if a.is_ok() != b.is_ok() {
                        ctx.fail("try_from-lazy-outcome", format!("Value::try_from(lazy) ok={} but DOM parse ok={}", a.is_ok(), b.is_ok()));
                    }
                }
            }
            {
                use std::hash::{Hash, Hasher};
                let shown = format!("{}", lv);
                let dbg = format!("{:?}", lv);
                let other = sonic_rs::get(ps, sonic_rs::pointer![]).ok();
                let h = |x: &LazyValue| {
                    let mut st = std::collections::hash_map::DefaultHasher::new();
                    x.hash(&mut st);
                    st.finish()
                };
                let mut bad = shown.as_bytes() != t || !dbg.contains("LazyValue");
                if let Some(o) = &other {
                    bad |= !(o == &lv) || o.cmp(&lv) != std::cmp::Ordering::Equal || h(o) != h(&lv) || o.partial_cmp(&lv) != Some(std::cmp::Ordering::Equal);
                }
                let dflt = LazyValue::default();
                bad |= !dflt.is_null() || dflt.as_raw_str() != "null";
                bad |= (dflt == lv) != (t == b"null") || (dflt.cmp(&lv) == std::cmp::Ordering::Equal) != (t == b"null");
                if bad {
                    ctx.fail("lazy-display-eq-hash", format!("Display {:?} / Debug {:?} / Eq-Ord-Hash inconsistent with the raw text {:?}", crate::core::truncate(&shown, 80), crate::core::truncate(&dbg, 80), crate::core::truncate(&String::from_utf8_lossy(t), 80)));
                }
            }
            // borrowed -> owned conversion
            let ov: OwnedLazyValue = lv.clone().into();
            check_view(ctx, "From<LazyValue>:&V", "OwnedLazyValue", t, transcript(&&ov), sero(&ov));
            check_view(ctx, "From<LazyValue>:Option<&V>", "OwnedLazyValue", t, transcript(&Some(&ov)), sero(&ov));
            check_view(ctx, "From<LazyValue>", "OwnedLazyValue", t, transcript(&ov), sero(&ov));
            owned_children(ctx, "From<LazyValue>", &ov, &d.root, t);
            let c = ov.clone();
            check_view(ctx, "From<LazyValue>.clone", "OwnedLazyValue", t, transcript(&c), sero(&c));
            // asking the clone after the original was used (cache populated) still agrees
            owned_children(ctx, "clone-after-load", &ov.clone(), &d.root, t);
            let lc = lv.clone();
            check_view(ctx, "clone", "LazyValue", t, transcript(&lc), ser(&lc));
            // overwriting in place (`clone_from`, what `Vec::clone_from` and `clone_from_slice`
            // do per element): a value that was already read, of every kind, takes over this one
            // completely; read or unread source
            for (i, prev) in [r#""old\tdecoded \u00e9 text""#, "\"plain\"", "-1.5e3", "[1,\"\\n\"]", "null"].iter().enumerate() {
                let Ok(mut dst) = sonic_rs::from_str::<LazyValue>(prev) else { continue };
                let _ = (dst.as_str().map(|s| s.len()), dst.as_f64(), dst.is_null());
                if i % 2 == 0 {
                    let fresh: LazyValue = sonic_rs::from_slice(&ex).unwrap_or_default();
                    dst.clone_from(&fresh);
                } else {
                    dst.clone_from(&lv);
                }
                check_view(ctx, "clone_from", "LazyValue", t, transcript(&dst), ser(&dst));
                let Ok(mut od) = sonic_rs::from_str::<OwnedLazyValue>(prev) else { continue };
                let _ = (od.as_str().map(|s| s.len()), od.as_f64(), od.is_null());
                if i % 2 == 0 {
                    let fresh: OwnedLazyValue = sonic_rs::from_slice(&ex).unwrap_or_default();
                    od.clone_from(&fresh);
                } else {
                    od.clone_from(&ov);
                }
                check_view(ctx, "clone_from", "OwnedLazyValue", t, transcript(&od), sero(&od));
            }
            let mut many: Vec<LazyValue> = vec![sonic_rs::from_str(r#""a\nb""#).unwrap_or_default(), LazyValue::default()];
            let _ = many[0].as_str();
            many.clone_from(&vec![lv.clone(), lv.clone(), lv.clone()]);
            for m in &many {
                check_view(ctx, "Vec::clone_from", "LazyValue", t, transcript(m), ser(m));
            }
        }
        Err(e) => ctx.fail("reject-valid:from_str<LazyValue>", e.to_string()),
    }
    match sonic_rs::from_slice::<LazyValue>(&ex) {
        Ok(lv) => check_view(ctx, "from_slice", "LazyValue", t, transcript(&lv), ser(&lv)),
        Err(e) => ctx.fail("reject-valid:from_slice<LazyValue>", e.to_string()),
    }
    // LazyValue from get (root path and as a member)
    match sonic_rs::get(ps, sonic_rs::pointer![]) {
        Ok(lv) => {
            check_view(ctx, "get", "LazyValue", t, transcript(&lv), ser(&lv));
            let off = (lv.as_raw_str().as_ptr() as usize).wrapping_sub(ex.as_ptr() as usize);
            if off != lead {
                ctx.fail("raw-offset:get", format!("raw text at {} not {}", off as isize, lead));
            }
        }
        Err(e) => ctx.fail("reject-valid:get", e.to_string()),
    }
    let mut wrapped = b"{\"k\": [0, ".to_vec();
    wrapped.extend_from_slice(t);
    wrapped.extend_from_slice(b" , 2]}");
    let wex = exact(&wrapped);
    match sonic_rs::get(&wex[..], sonic_rs::pointer!["k", 1]) {
        Ok(lv) => {
            check_view(ctx, "get-member", "LazyValue", t, transcript(&lv), ser(&lv));
            lazy_children(ctx, "get-member", &lv, &d.root, t);
            let ov: OwnedLazyValue = lv.into();
            check_view(ctx, "get-member.into", "OwnedLazyValue", t, transcript(&ov), sero(&ov));
        }
        Err(e) => ctx.fail("reject-valid:get-member", e.to_string()),
    }
    // from the iterators
    if let Some(Ok(lv)) = sonic_rs::to_array_iter(&wex[6..wex.len() - 1]).nth(1) {
        check_view(ctx, "to_array_iter", "LazyValue", t, transcript(&lv), ser(&lv));
    } else {
        ctx.fail("iter-missing", "to_array_iter did not yield the member".into());
    }
    if let Some(Ok((_, arr))) = sonic_rs::to_object_iter(&wex[..]).next() {
        if let Some(it) = arr.into_array_iter() {
            match it.skip(1).next() {
                Some(Ok(lv)) => check_view(ctx, "into_array_iter", "LazyValue", t, transcript(&lv), ser(&lv)),
                _ => ctx.fail("iter-missing", "into_array_iter did not yield the member".into()),
            }
        }
    }
    // members of an iterator over a lazy value that owns its text (read by serde, or found in a
    // FastStr / Bytes document) are views of that text, not of the iterator: they are looked at
    // after the iterator is gone
    if let Ok(ws) = std::str::from_utf8(&wex) {
        let wfs = faststr::FastStr::new(ws);
        let single = format!("{{\"m\":{}}}", String::from_utf8_lossy(t));
        let kept: Vec<(&str, Option<LazyValue>)> = vec![
            ("from_str.into_object_iter.into_array_iter:iterator-dropped", sonic_rs::from_str::<LazyValue>(ws).ok().and_then(|lv| lv.into_object_iter()).and_then(|mut it| it.next()).and_then(|x| x.ok()).and_then(|(_, a)| a.into_array_iter()).and_then(|it| it.collect::<sonic_rs::Result<Vec<LazyValue>>>().ok()).and_then(|mut v| if v.len() > 1 { Some(v.swap_remove(1)) } else { None })),
            ("get(&FastStr).into_array_iter:iterator-dropped", sonic_rs::get(&wfs, &["k"]).ok().and_then(|a| a.into_array_iter()).and_then(|it| it.collect::<sonic_rs::Result<Vec<LazyValue>>>().ok()).and_then(|mut v| if v.len() > 1 { Some(v.swap_remove(1)) } else { None })),
            ("Vec<LazyValue>.into_array_iter:iterator-dropped", sonic_rs::from_str::<Vec<LazyValue>>(&ws[5..ws.len() - 1]).ok().map(|v| v.into_iter().nth(1)).unwrap_or(None)),
            ("from_slice.into_object_iter:iterator-dropped", sonic_rs::from_slice::<LazyValue>(single.as_bytes()).ok().and_then(|lv| lv.into_object_iter()).and_then(|it| it.collect::<sonic_rs::Result<Vec<_>>>().ok()).and_then(|mut v| v.pop()).map(|(_, m)| m)),
        ];
        for (name, lv) in &kept {
            match lv {
                Some(lv) => check_view(ctx, name, "LazyValue", t, transcript(lv), ser(lv)),
                None => ctx.fail("iter-missing", format!("{} did not yield the member", name)),
            }
        }
    }
    // owned results do not depend on the input buffer once the call has returned: the private copy
    // of the input is overwritten and freed before the value is looked at
    {
        use crate::mon::common::parse_then_discard;
        let o1 = parse_then_discard(&padded, |c| sonic_rs::from_slice::<OwnedLazyValue>(c).ok());
        let o2 = parse_then_discard(&wrapped, |c| sonic_rs::get(c, sonic_rs::pointer!["k", 1]).ok().map(OwnedLazyValue::from));
        let o3 = parse_then_discard(&wrapped, |c| sonic_rs::to_object_iter(c).next().and_then(|x| x.ok()).and_then(|(_, v)| v.into_array_iter()).and_then(|mut it| it.nth(1)).and_then(|x| x.ok()).map(OwnedLazyValue::from));
        let o4 = parse_then_discard(&padded, |c| sonic_rs::from_slice::<LazyValue>(c).ok().and_then(|lv| Value::try_from(lv).ok()).and_then(|v| sonic_rs::to_lazyvalue(&v).ok()));
        for (name, o) in [("from_slice:input-discarded", o1), ("get.into:input-discarded", o2), ("iter.into:input-discarded", o3)] {
            match o {
                Some(ov) => {
                    check_view(ctx, name, "OwnedLazyValue", t, transcript(&ov), sero(&ov));
                    owned_children(ctx, name, &ov, &d.root, t);
                }
                None => ctx.fail(&format!("reject-valid:{}", name), "no value".into()),
            }
        }
        if o4.is_none() {
            ctx.fail("reject-valid:try_from.to_lazyvalue:input-discarded", "no value".into());
        }
    }
    // raw-text exports outlive the lazy value they were taken from (`as_raw_cow` is tied to the
    // input lifetime, `as_raw_faststr` owns a handle): the value is dropped, some stack and heap is
    // churned, then the export is compared
    {
        let by = bytes::Bytes::copy_from_slice(&wex);
        let fs = FastStr::new(std::str::from_utf8(&wex).unwrap());
        let mut exports: Vec<(&str, std::borrow::Cow<str>, FastStr)> = vec![];
        if let Ok(lv) = sonic_rs::from_str::<LazyValue>(ps) {
            exports.push(("serde", lv.as_raw_cow(), lv.as_raw_faststr()));
            drop(lv);
        }
        if let Ok(lv) = sonic_rs::get(&by, sonic_rs::pointer!["k", 1]) {
            exports.push(("get(&Bytes)", lv.as_raw_cow(), lv.as_raw_faststr()));
            drop(lv);
        }
        if let Ok(lv) = sonic_rs::get(&fs, sonic_rs::pointer!["k", 1]) {
            let c = lv.clone();
            exports.push(("get(&FastStr)", lv.as_raw_cow(), c.as_raw_faststr()));
            drop(lv);
            drop(c);
        }
        if let Ok(lv) = sonic_rs::get(&wex[..], sonic_rs::pointer!["k", 1]) {
            exports.push(("get(&[u8])", lv.as_raw_cow(), lv.as_raw_faststr()));
        }
        // churn: what the dropped values occupied is reused
        let churn: Vec<String> = (0..8).map(|i| format!("{:>width$}", i, width = 8 + t.len() % 40)).collect();
        std::hint::black_box(&churn);
        ctx.ops(1);
        for (name, cow, f) in &exports {
            if cow.as_bytes() != t || f.as_bytes() != t {
                ctx.fail(&format!("raw-export-differs-after-drop:{}", name), format!("as_raw_cow {:?} / as_raw_faststr {:?} after the LazyValue was dropped, source {:?}", crate::core::truncate(cow, 80), crate::core::truncate(f, 80), crate::core::truncate(&String::from_utf8_lossy(t), 80)));
            }
        }
    }
    // OwnedLazyValue from serde
    match sonic_rs::from_str::<OwnedLazyValue>(ps) {
        Ok(ov) => {
            check_view(ctx, "from_str", "OwnedLazyValue", t, transcript(&ov), sero(&ov));
            owned_children(ctx, "from_str", &ov, &d.root, t);
            let mut ov2 = ov.clone();
            let taken = ov2.take();
            check_view(ctx, "take", "OwnedLazyValue", t, transcript(&taken), sero(&taken));
            ctx.ops(1);
            if !ov2.is_null() || sonic_rs::to_string(&ov2).unwrap_or_default() != "null" {
                ctx.fail("take-leaves-non-null", format!("after take the value is {:?}", sonic_rs::to_string(&ov2)));
            }
        }
        Err(e) => ctx.fail("reject-valid:from_str<OwnedLazyValue>", e.to_string()),
    }
    // to_lazyvalue of the DOM (serialises compactly: compare by meaning, then as a view of its own text)
    if let Ok(dom) = sonic_rs::from_slice::<Value>(t) {
        match sonic_rs::to_lazyvalue(&dom) {
            Ok(ov) => {
                let own = sonic_rs::to_string(&dom).unwrap_or_default();
                check_view(ctx, "to_lazyvalue", "OwnedLazyValue", own.as_bytes(), transcript(&ov), sero(&ov));
            }
            Err(e) => ctx.fail("to_lazyvalue-failed", e.to_string()),
        }
    }
}

// ---- mutation histories on OwnedLazyValue against a fragment model

#[derive(Clone, Debug)]
enum M {
    Raw(String),
    Arr(Vec<M>),
    Obj(Vec<(String, M)>),
}

impl M {
    fn ser(&self, out: &mut Vec<u8>) {
        match self {
            M::Raw(s) => out.extend_from_slice(s.as_bytes()),
            M::Arr(v) => {
                out.push(b'[');
                for (i, x) in v.iter().enumerate() {
                    if i > 0 {
                        out.push(b',');
                    }
                    x.ser(out);
                }
                out.push(b']');
            }
            M::Obj(v) => {
                out.push(b'{');
                for (i, (k, x)) in v.iter().enumerate() {
                    if i > 0 {
                        out.push(b',');
                    }
                    out.extend_from_slice(&esc::escape(k));
                    out.push(b':');
                    x.ser(out);
                }
                out.push(b'}');
            }
        }
    }
    /// a Raw container becomes a parsed container whose children are raw fragments
    fn open(&mut self) {
        if let M::Raw(s) = self {
            if let Ok(d) = recog::parse_document(s.as_bytes()) {
                let b = s.as_bytes();
                match &d.root.k {
                    K::Arr(xs) => *self = M::Arr(xs.iter().map(|x| M::Raw(String::from_utf8_lossy(&b[x.start..x.end]).into_owned())).collect()),
                    K::Obj(ms) => *self = M::Obj(ms.iter().map(|(k, x)| (k.key_str().unwrap_or("").to_string(), M::Raw(String::from_utf8_lossy(&b[x.start..x.end]).into_owned()))).collect()),
                    _ => {}
                }
            }
        }
    }
    fn kind(&self) -> u8 {
        match self {
            M::Arr(_) => 1,
            M::Obj(_) => 2,
            M::Raw(s) => match s.as_bytes().first() {
                Some(b'[') => 1,
                Some(b'{') => 2,
                _ => 0,
            },
        }
    }
}

fn new_scalarish(r: &mut Rng) -> (OwnedLazyValue, M) {
    let text = (*r.pick(&["null", "true", "false", "0", "-1.5e3", "\"\"", "\"a\\nb\"", "\"plain\"", "[]", "{}", "[1, {\"x\":null}]", "{\"q\\\"\": [true]}"])).to_string();
    let ov: OwnedLazyValue = sonic_rs::from_str(&text).expect("valid");
    (ov, M::Raw(text))
}

fn new_value(r: &mut Rng) -> (OwnedLazyValue, M) {
    let o = DocOpts { max_depth: 2, budget: 6, dup_keys: false, ws: 1, ..DocOpts::default() };
    let mut g = doc::Gen::new(r, o);
    g.value(0);
    let text = String::from_utf8(g.out).unwrap();
    match r.below(5) {
        0 => {
            // through serde
            let ov: OwnedLazyValue = sonic_rs::from_str(&text).expect("valid");
            (ov, M::Raw(text))
        }
        3 => {
            // a LazyArray assembled from parts (From<Vec>, new + push, with_capacity)
            let n = r.below(3) as usize;
            let parts: Vec<(OwnedLazyValue, M)> = (0..n).map(|_| new_scalarish(r)).collect();
            let ms: Vec<M> = parts.iter().map(|(_, m)| m.clone()).collect();
            let vals: Vec<OwnedLazyValue> = parts.into_iter().map(|(v, _)| v).collect();
            let arr = match r.below(3) {
                0 => sonic_rs::LazyArray::from(vals),
                1 => {
                    let mut a = sonic_rs::LazyArray::new();
                    for v in vals {
                        a.push(v);
                    }
                    a
                }
                _ => {
                    let mut a = sonic_rs::LazyArray::with_capacity(4);
                    a.extend(vals);
                    a
                }
            };
            (arr.into(), M::Arr(ms))
        }
        4 => {
            let n = r.below(3) as usize;
            let parts: Vec<(String, (OwnedLazyValue, M))> = (0..n).map(|i| (format!("k{}é\"{}", i, r.below(10)), new_scalarish(r))).collect();
            let ms: Vec<(String, M)> = parts.iter().map(|(k, (_, m))| (k.clone(), m.clone())).collect();
            let vals: Vec<(FastStr, OwnedLazyValue)> = parts.into_iter().map(|(k, (v, _))| (FastStr::new(&k), v)).collect();
            let obj = match r.below(3) {
                0 => sonic_rs::LazyObject::from(vals),
                1 => {
                    let mut o = sonic_rs::LazyObject::new();
                    for (k, v) in vals {
                        o.append_pair(k, v);
                    }
                    o
                }
                _ => {
                    let mut o = sonic_rs::LazyObject::with_capacity(2);
                    o.extend(vals);
                    o
                }
            };
            (obj.into(), M::Obj(ms))
        }
        1 => {
            // From<LazyValue> of a member obtained by get
            let w = format!("[{}]", text);
            let fs = FastStr::new(&w);
            let lv = sonic_rs::get_from_faststr(&fs, &[0usize]).expect("valid");
            (lv.into(), M::Raw(text))
        }
        _ => {
            // to_lazyvalue of the DOM: compact text of the value
            let dom: Value = sonic_rs::from_str(&text).expect("valid");
            let compact = sonic_rs::to_string(&dom).unwrap();
            (sonic_rs::to_lazyvalue(&dom).expect("to_lazyvalue"), M::Raw(compact))
        }
    }
}

fn history(ctx: &mut Ctx, t: &[u8], seed: u64) {
    let Ok(d) = recog::parse_document(t) else { return };
    if !d.full_ok() || d.flags.has_dup_keys || d.flags.max_depth > 32 {
        return;
    }
    let text = String::from_utf8_lossy(t).into_owned();
    let mut r = Rng::new(seed);
    let mut v: OwnedLazyValue = match sonic_rs::from_str(&text) {
        Ok(v) => v,
        Err(e) => {
            ctx.fail("reject-valid:history-start", e.to_string());
            return;
        }
    };
    let mut m = M::Raw(text);
    let mut clones: Vec<(OwnedLazyValue, Vec<u8>)> = vec![];
    let steps = r.range(1, 12);
    let mut log: Vec<String> = vec![];
    for _ in 0..steps {
        ctx.ops(1);
        // walk to a random sub-value (model and real in lock-step through get_mut)
        let depth = r.range(0, 3);
        let mut path: Vec<sonic_rs::PointerNode> = vec![];
        {
            let mut cur = &mut m;
            for _ in 0..depth {
                // descending calls get_mut on the real value, which parses this level - but only
                // when there is a child to descend into
                let mut probe = cur.clone();
                probe.open();
                let has_child = match &probe {
                    M::Arr(xs) => !xs.is_empty(),
                    M::Obj(ms) => !ms.is_empty(),
                    _ => false,
                };
                if !has_child {
                    break;
                }
                cur.open();
                match cur {
                    M::Arr(xs) if !xs.is_empty() => {
                        let i = r.below(xs.len() as u64) as usize;
                        path.push(sonic_rs::PointerNode::Index(i));
                        cur = &mut xs[i];
                    }
                    M::Obj(ms) if !ms.is_empty() => {
                        let i = r.below(ms.len() as u64) as usize;
                        // first member with that name wins
                        let name = ms[i].0.clone();
                        let j = ms.iter().position(|(k, _)| *k == name).unwrap();
                        path.push(sonic_rs::PointerNode::Key(FastStr::new(&name)));
                        cur = &mut ms[j].1;
                    }
                    _ => break,
                }
            }
        }
        // model target
        let mut mt = &mut m;
        for p in &path {
            mt.open();
            mt = match (mt, p) {
                (M::Arr(xs), sonic_rs::PointerNode::Index(i)) => &mut xs[*i],
                (M::Obj(ms), sonic_rs::PointerNode::Key(k)) => {
                    let j = ms.iter().position(|(kk, _)| kk == k.as_str()).unwrap();
                    &mut ms[j].1
                }
                _ => unreachable!(),
            };
        }
        let target = if r.chance(1, 2) {
            v.pointer_mut(&path)
        } else {
            let mut c = Some(&mut v);
            for p in &path {
                c = match c {
                    Some(x) => x.get_mut(p),
                    None => None,
                };
            }
            c
        };
        let Some(target) = target else {
            ctx.fail("pointer_mut-none", format!("pointer_mut/get_mut {:?} returned None for an existing path; history {:?}", path, log));
            return;
        };
        let op = r.below(9);
        match op {
            0 => {
                // replace
                let (nv, nm) = new_value(&mut r);
                *target = nv;
                *mt = nm;
                log.push(format!("replace@{:?}", path));
            }
            1 if mt.kind() == 1 => {
                let (nv, nm) = new_value(&mut r);
                match target.as_array_mut() {
                    Some(a) => a.push(nv),
                    None => {
                        ctx.fail("as_array_mut-none", format!("as_array_mut is None on an array; history {:?}", log));
                        return;
                    }
                }
                mt.open();
                if let M::Arr(xs) = mt {
                    xs.push(nm);
                }
                log.push(format!("push@{:?}", path));
            }
            2 if mt.kind() == 2 => {
                let (nv, nm) = new_value(&mut r);
                let key = format!("new{}\"k", r.below(100));
                match target.as_object_mut() {
                    Some(o) => o.append_pair(FastStr::new(&key), nv),
                    None => {
                        ctx.fail("as_object_mut-none", format!("as_object_mut is None on an object; history {:?}", log));
                        return;
                    }
                }
                mt.open();
                if let M::Obj(ms) = mt {
                    ms.push((key, nm));
                }
                log.push(format!("append_pair@{:?}", path));
            }
            6 if mt.kind() == 1 => {
                // Vec-level edits of the element list through DerefMut
                let Some(a) = target.as_array_mut() else {
                    ctx.fail("as_array_mut-none", format!("as_array_mut is None on an array; history {:?}", log));
                    return;
                };
                mt.open();
                let M::Arr(xs) = mt else { return };
                if a.len() != xs.len() {
                    ctx.fail("lazy-array-len-differs", format!("{} vs model {}; history {:?}", a.len(), xs.len(), log));
                    return;
                }
                let n = xs.len();
                match r.below(6) {
                    0 => {
                        a.pop();
                        xs.pop();
                        log.push(format!("pop@{:?}", path));
                    }
                    1 => {
                        let (nv, nm) = new_value(&mut r);
                        let i = r.below(n as u64 + 1) as usize;
                        a.insert(i, nv);
                        xs.insert(i, nm);
                        log.push(format!("insert{}@{:?}", i, path));
                    }
                    2 if n > 0 => {
                        let i = r.below(n as u64) as usize;
                        a.remove(i);
                        xs.remove(i);
                        log.push(format!("remove{}@{:?}", i, path));
                    }
                    3 if n > 1 => {
                        a.swap(0, n - 1);
                        xs.swap(0, n - 1);
                        log.push(format!("swap@{:?}", path));
                    }
                    4 => {
                        let k = r.below(n as u64 + 1) as usize;
                        a.truncate(k);
                        xs.truncate(k);
                        log.push(format!("truncate{}@{:?}", k, path));
                    }
                    _ if n > 0 => {
                        let i = r.below(n as u64) as usize;
                        let (nv, nm) = new_value(&mut r);
                        a[i] = nv;
                        xs[i] = nm;
                        log.push(format!("set{}@{:?}", i, path));
                    }
                    _ => {}
                }
                ctx.class("history:vec-edit-array");
            }
            7 if mt.kind() == 2 => {
                let Some(o) = target.as_object_mut() else {
                    ctx.fail("as_object_mut-none", format!("as_object_mut is None on an object; history {:?}", log));
                    return;
                };
                mt.open();
                let M::Obj(ms) = mt else { return };
                if o.len() != ms.len() {
                    ctx.fail("lazy-object-len-differs", format!("{} vs model {}; history {:?}", o.len(), ms.len(), log));
                    return;
                }
                let n = ms.len();
                match r.below(5) {
                    0 => {
                        let (nv, nm) = new_value(&mut r);
                        let key = format!("p\x01{}", r.below(100));
                        o.push((FastStr::new(&key), nv));
                        ms.push((key, nm));
                        log.push(format!("obj-push@{:?}", path));
                    }
                    1 => {
                        o.pop();
                        ms.pop();
                        log.push(format!("obj-pop@{:?}", path));
                    }
                    2 if n > 0 => {
                        let i = r.below(n as u64) as usize;
                        let (nv, nm) = new_value(&mut r);
                        o[i].1 = nv;
                        ms[i].1 = nm;
                        log.push(format!("obj-set{}@{:?}", i, path));
                    }
                    3 if n > 0 => {
                        let i = r.below(n as u64) as usize;
                        // the member names agree with the model (decoded)
                        if o[i].0.as_str() != ms[i].0 {
                            ctx.fail("lazy-object-key-differs", format!("{:?} vs model {:?}; history {:?}", o[i].0, ms[i].0, log));
                            return;
                        }
                        o.remove(i);
                        ms.remove(i);
                        log.push(format!("obj-remove{}@{:?}", i, path));
                    }
                    _ => {
                        let keep = r.below(2) as usize;
                        let mut c = 0;
                        o.retain(|_| {
                            c += 1;
                            c % 2 == keep
                        });
                        let mut c = 0;
                        ms.retain(|_| {
                            c += 1;
                            c % 2 == keep
                        });
                        log.push(format!("obj-retain@{:?}", path));
                    }
                }
                ctx.class("history:vec-edit-object");
            }
            3 => {
                // clone now, compare later (mutations must not leak into it)
                let mut s = vec![];
                m.ser(&mut s);
                clones.push((v.clone(), s));
                log.push("clone".into());
            }
            4 => {
                let taken = target.take();
                let mut s = vec![];
                mt.ser(&mut s);
                let got = sonic_rs::to_string(&taken).unwrap_or_default();
                if !same_meaning_verbatim(&got, &s) {
                    ctx.fail("take-differs", format!("taken value {:?} vs model {:?}; history {:?}", crate::core::truncate(&got, 200), crate::core::truncate(&String::from_utf8_lossy(&s), 200), log));
                    return;
                }
                *mt = M::Raw("null".into());
                log.push(format!("take@{:?}", path));
            }
            _ => {
                // read-only accessors on the target (on a still-raw container they fill the cache of
                // parsed children that a later mutation of the same node takes over)
                let mut s = vec![];
                mt.ser(&mut s);
                if let Ok(dom) = sonic_rs::from_slice::<Value>(&s) {
                    if target.get_type() != dom.get_type() {
                        ctx.fail("type-differs-after-mutation", format!("{:?} vs {:?}; history {:?}", target.get_type(), dom.get_type(), log));
                        return;
                    }
                    let ro: &OwnedLazyValue = &*target;
                    let n_arr = ro.as_array().map(|a| a.len());
                    let n_obj = ro.as_object().map(|o| o.len());
                    let want_arr = dom.as_array().map(|a| a.len());
                    let want_obj = dom.as_object().map(|o| o.len());
                    let first = ro.get(0).map(|c| sonic_rs::to_string(c).unwrap_or_default());
                    let want_first = dom.as_array().and_then(|a| a.first()).map(|_| ());
                    let by_key = dom.as_object().and_then(|o| o.iter().next()).map(|(k, _)| k.to_string());
                    let got_key = by_key.as_ref().map(|k| ro.get(k.as_str()).is_some());
                    if n_arr != want_arr || n_obj != want_obj || first.is_some() != want_first.is_some() || got_key == Some(false) || ro.pointer(&sonic_rs::pointer![]).is_none() {
                        ctx.fail("read-differs-after-mutation", format!("as_array len {:?}/{:?}, as_object len {:?}/{:?}, get(0) {:?}, get(first key) {:?}; history {:?}", n_arr, want_arr, n_obj, want_obj, first, got_key, log));
                        return;
                    }
                }
                log.push(format!("read@{:?}", path));
            }
        }
        // after every step the whole value serialises to the model's text
        let mut want = vec![];
        m.ser(&mut want);
        let got = sonic_rs::to_string(&v).unwrap_or_default();
        if !same_meaning_verbatim(&got, &want) {
            ctx.fail(
                "mutated-serialisation-differs",
                format!("after {:?}: {:?} vs model {:?}", log, crate::core::truncate(&got, 300), crate::core::truncate(&String::from_utf8_lossy(&want), 300)),
            );
            return;
        }
    }
    for (c, want) in &clones {
        ctx.ops(1);
        let got = sonic_rs::to_string(c).unwrap_or_default();
        if !same_meaning_verbatim(&got, want) {
            ctx.fail("clone-changed-by-later-mutation", format!("an earlier clone now serialises to {:?}, at clone time the value was {:?}; history {:?}", crate::core::truncate(&got, 200), crate::core::truncate(&String::from_utf8_lossy(want), 200), log));
        }
    }
    ctx.class("history:checked");
}

/// byte-identical, or — where a container was re-assembled — the same tree
fn same_meaning_verbatim(got: &str, want: &[u8]) -> bool {
    if got.as_bytes() == want {
        return true;
    }
    false
}

#[allow(dead_code)]
fn same_tree(got: &str, want: &[u8]) -> bool {
    match (recog::parse_document(got.as_bytes()), recog::parse_document(want)) {
        (Ok(a), Ok(b)) => tree_eq(&a.root, got.as_bytes(), &b.root, want, &mut String::new()).is_ok(),
        _ => false,
    }
}

impl Check for C13 {
    fn id(&self) -> &'static str {
        "C13"
    }
    fn generate(&self, g: &GenParams, emit: &mut dyn FnMut(Case)) {
        let mut r = g.rng(13);
        if g.shard == 0 {
            for t in ["true", "false", "null", "0", "-0", "-0.0", "1e5", "18446744073709551615", "18446744073709551616", "-9223372036854775808", "\"\"", "\"a\"", "\"\\n\"", "\"\\ud83d\\ude00\"", "[]", "{}", "[true]", "[null,false]", "{\"a\":null}", "{\"\":true}"] {
                emit(Case::with("value", t.as_bytes().to_vec(), &[7]));
            }
        }
        let n = g.count(120_000, 5_000_000);
        for k in 0..n {
            let mut o = DocOpts::random(&mut r);
            o.ws = r.below(3) as u8;
            o.dup_keys = k % 9 == 0;
            let mut gg = doc::Gen::new(&mut r, o);
            gg.value(if k % 3 == 0 { 99 } else { 0 });
            let t = gg.out;
            emit(Case::with("value", t, &[r.next() as i64]));
        }
        let n = g.count(100_000, 5_000_000);
        for _ in 0..n {
            let mut o = DocOpts::random(&mut r);
            o.dup_keys = false;
            o.budget = o.budget.min(40);
            let arr = r.chance(1, 2);
            let mut gg = doc::Gen::new(&mut r, o);
            if arr {
                gg.array(1)
            } else {
                gg.object(1)
            }
            let t = gg.out;
            emit(Case::with("history", t, &[r.next() as i64]));
        }
    }
    fn exec(&self, ctx: &mut Ctx, c: &Case) {
        match c.entry.as_str() {
            "value" => {
                if c.input.len() > 1 {
                    ctx.nontrivial();
                }
                check_value_text(ctx, &c.input, c.p(0) as u64);
                ctx.sample("value");
            }
            _ => {
                ctx.nontrivial();
                history(ctx, &c.input, c.p(0) as u64);
                ctx.sample("history");
            }
        }
    }
    fn required_classes(&self, _b: &str, _t: Tier) -> Vec<&'static str> {
        vec!["value:null", "value:bool", "value:number", "value:string", "value:array", "value:object", "history:checked"]
    }
}
