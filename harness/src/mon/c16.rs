//! C16 — values sharing a parsed arena stay valid in any clone, move and drop order.
use std::sync::{Arc, Barrier};

use serde::Deserialize;
use sonic_rs::{Deserializer, JsonContainerTrait, JsonValueMutTrait, JsonValueTrait, Value};

use crate::core::{Case, Check, Ctx, GenParams, Tier};
use crate::ledger;
use crate::mon::machine::*;
use crate::rng::Rng;

pub struct C16;

pub const DOCS: &[&str] = &[
    r#"{"x":[1,"two",{"three":[3.5,null,true]}],"y":{"z":"a longer string value that is copied ...................."},"w":"esc\n\"aped\""}"#,
    r#"[[1,2,[3,[4,[5]]]],{"k":{"k":{"k":"deep"}}},"s",-7,1e300]"#,
    r#"{"a":{"b":{"c":[{"d":1},{"d":2},{"d":3}]}},"list":[0,1,2,3,4,5,6,7,8,9,10,11,12,13,14,15,16]}"#,
    r#"["only","strings","with é unicode 😀","and \\ backslashes"]"#,
];

/// documents whose root is a scalar (no children block in the arena)
pub const SCALAR_DOCS: &[&str] = &["12345678901234567890.123456789", "-0.5e-7", "7", "\"a string root, long enough to be copied ...............\"", "\"esc\\n\"", "true", "null", "18446744073709551615"];

#[derive(Deserialize)]
struct Emb {
    #[allow(dead_code)]
    n: u32,
    v: Value,
    w: Value,
}

#[cfg(feature = "hooks")]
fn arenas_of(vals: &[&Value]) -> Vec<u64> {
    let mut out = vec![];
    for v in vals {
        v.verif_arenas(&mut out);
    }
    out.sort();
    out.dedup();
    out
}

/// the arena ledger invariant at a quiescent point
fn ledger_check(ctx: &mut Ctx, live: &[&Value], what: &str) -> bool {
    #[cfg(feature = "hooks")]
    {
        let held = arenas_of(live);
        let mut alive = sonic_rs::verif::live_arenas();
        alive.sort();
        ctx.class("ledger:arena-checked");
        if sonic_rs::verif::arena_errors() != 0 {
            ctx.fail("arena-unregistered-twice", format!("{}: an arena was dropped twice (ledger error count {})", what, sonic_rs::verif::arena_errors()));
            return false;
        }
        if held != alive {
            let leaked: Vec<_> = alive.iter().filter(|a| !held.contains(a)).collect();
            let dangling: Vec<_> = held.iter().filter(|a| !alive.contains(a)).collect();
            if !dangling.is_empty() {
                ctx.fail("arena-released-while-referenced", format!("{}: live values reference arenas {:?} that are not alive", what, dangling));
            } else {
                ctx.fail("arena-not-released", format!("{}: arenas {:?} are alive but no live value references them", what, leaked));
            }
            return false;
        }
    }
    let _ = (ctx, live, what);
    true
}

fn content_check(ctx: &mut Ctx, v: &Value, want: &M, what: &str) -> bool {
    ctx.ops(1);
    let d = dump(v);
    if &d != want {
        ctx.fail("survivor-content-differs", format!("{}: {} but it was {}", what, crate::core::truncate(&to_json(&d), 200), crate::core::truncate(&to_json(want), 200)));
        return false;
    }
    #[cfg(feature = "hooks")]
    if let Err(e) = v.verif_check() {
        ctx.fail("structural-invariant", format!("{}: {}", what, e));
        return false;
    }
    true
}

/// build up to six handles that share arenas in different ways
fn template(t: u64, r: &mut Rng) -> Vec<Value> {
    let doc = DOCS[(t / 10) as usize % DOCS.len()];
    let doc2 = DOCS[(t / 10 + 1) as usize % DOCS.len()];
    let _ = r;
    match t % 10 {
        9 => {
            // several documents through one deserializer, then a MALFORMED later document that
            // allocates a lot before its error: the earlier values must stay valid
            let mut big = String::from("[[");
            for i in 0..400 {
                big.push_str(&format!("\"string number {} ...............\",{},", i, i));
            }
            big.push_str("0],{\"k\":[1,2,3]}, x");
            let text = format!("{} {} {} {}", doc, doc2, doc, big);
            let mut de = Deserializer::from_str(&text);
            let mut out = vec![];
            for _ in 0..3 {
                out.push(de.deserialize::<Value>().unwrap());
            }
            let bad = de.deserialize::<Value>();
            assert!(bad.is_err());
            let bad2 = de.deserialize::<Value>();
            let _ = bad2.is_err();
            let c = out[1].clone();
            out.push(c);
            // the same through a stream
            let mut st = Deserializer::from_str(&text).into_stream::<Value>();
            let a = st.next().unwrap().unwrap();
            let b = st.next().unwrap().unwrap();
            let _ = st.next();
            let e = st.next();
            assert!(matches!(e, Some(Err(_))));
            drop(st);
            out.push(a);
            out.push(b);
            out.truncate(6);
            out
        }
        8 => {
            // scalar roots, default and raw-number mode, whole-input and embedded, plus clones
            let k = (t / 10) as usize;
            let s1 = SCALAR_DOCS[k % SCALAR_DOCS.len()];
            let s2 = SCALAR_DOCS[(k + 1) % SCALAR_DOCS.len()];
            let a = Deserializer::from_str(s1).use_rawnumber().deserialize::<Value>().unwrap();
            let b = Deserializer::from_str(s2).use_rawnumber().deserialize::<Value>().unwrap();
            let c: Value = sonic_rs::from_str(s1).unwrap();
            let d = a.clone();
            let e: Vec<Value> = Deserializer::from_str(&format!("[{},{}]", s1, s2)).use_rawnumber().deserialize().unwrap();
            let mut out = vec![a, b, c, d];
            out.extend(e);
            out
        }
        0 => {
            let a: Value = sonic_rs::from_str(doc).unwrap();
            let c1 = a.clone();
            let sub: Vec<Value> = a.as_array().map(|x| x.iter().take(2).cloned().collect()).or_else(|| a.as_object().map(|o| o.iter().take(2).map(|(_, v)| v.clone()).collect())).unwrap_or_default();
            let mut out = vec![a, c1];
            out.extend(sub);
            out
        }
        1 => {
            // take children out of the document
            let mut a: Value = sonic_rs::from_str(doc).unwrap();
            let mut out = vec![];
            if let Some(arr) = a.as_array_mut() {
                for x in arr.iter_mut().take(3) {
                    out.push(x.take());
                }
            } else if let Some(o) = a.as_object_mut() {
                for (_, x) in o.iter_mut().take(3) {
                    out.push(x.take());
                }
            }
            out.push(a.clone());
            out.push(a);
            out
        }
        2 => {
            // several values through one deserializer: one shared arena
            let text = format!("{{\"n\":1,\"v\":{},\"w\":{}}}", doc, doc2);
            let e: Emb = sonic_rs::from_str(&text).unwrap();
            let c = e.v.clone();
            let d = e.w.clone();
            vec![e.v, e.w, c, d]
        }
        3 => {
            let text = format!("[{},{},{}]", doc, doc2, doc);
            let v: Vec<Value> = sonic_rs::from_str(&text).unwrap();
            let mut out: Vec<Value> = v;
            let c = out[1].clone();
            out.push(c);
            out
        }
        4 => {
            // stream: the first document is parsed in place, the later ones into the shared arena
            let text = format!("{} {} {} {}", doc, doc2, doc, doc2);
            let mut st = Deserializer::from_str(&text).into_stream::<Value>();
            let mut out = vec![];
            while let Some(Ok(v)) = st.next() {
                out.push(v);
                if out.len() == 4 {
                    break;
                }
            }
            let c = out[2].clone();
            out.push(c);
            out
        }
        5 => {
            // insert values of one document into another (owned) document
            let a: Value = sonic_rs::from_str(doc).unwrap();
            let mut b: Value = sonic_rs::from_str(doc2).unwrap();
            let sub = a.pointer(&sonic_rs::pointer![0]).or(a.pointer(&["x"])).or(a.pointer(&["a"])).cloned().unwrap_or_default();
            if b.is_array() {
                b.as_array_mut().unwrap().push(sub.clone());
                b.as_array_mut().unwrap().push(a.clone());
            } else {
                b.as_object_mut().unwrap().insert("ins", sub.clone());
                b.as_object_mut().unwrap().insert("whole", a.clone());
            }
            let bc = b.clone();
            vec![a, b, sub, bc]
        }
        6 => {
            // mutate a clone: the original must keep its arena and content
            let a: Value = sonic_rs::from_str(doc).unwrap();
            let mut m = a.clone();
            if let Some(arr) = m.as_array_mut() {
                arr.push("pushed");
                arr.swap_remove(0);
            } else if let Some(o) = m.as_object_mut() {
                o.insert("added", 1);
                let k = o.iter().next().map(|(k, _)| k.to_string());
                if let Some(k) = k {
                    o.remove(&k);
                }
            }
            let deep = m.clone();
            vec![a, m, deep]
        }
        _ => {
            // from_value / to_value / lazy conversions keep independent lifetimes
            let a: Value = sonic_rs::from_str(doc).unwrap();
            let tv = sonic_rs::to_value(&a).unwrap();
            let fv: Value = sonic_rs::from_value::<serde_json::Value>(&a).ok().and_then(|j| sonic_rs::to_value(&j).ok()).unwrap_or_default();
            let raw = Deserializer::from_str(doc).use_rawnumber().deserialize::<Value>().unwrap();
            let rc = raw.clone();
            vec![a, tv, fv, raw, rc]
        }
    }
}

fn nth_permutation(n: usize, mut k: u64) -> Vec<usize> {
    let mut items: Vec<usize> = (0..n).collect();
    let mut out = vec![];
    let mut f: Vec<u64> = vec![1; n + 1];
    for i in 1..=n {
        f[i] = f[i - 1] * i as u64;
    }
    for i in (0..n).rev() {
        let idx = (k / f[i]) as usize;
        k %= f[i];
        out.push(items.remove(idx));
    }
    out
}

fn run_permutation(ctx: &mut Ctx, t: u64, perm_idx: u64, thread_mode: u64) -> bool {
    let mut r = Rng::new(t);
    let handles = template(t, &mut r);
    let n = handles.len().min(6);
    let mut handles: Vec<Option<Value>> = handles.into_iter().take(n).map(Some).collect();
    let wants: Vec<M> = handles.iter().map(|h| dump(h.as_ref().unwrap())).collect();
    let order = nth_permutation(n, perm_idx);
    {
        let live: Vec<&Value> = handles.iter().flatten().collect();
        if !ledger_check(ctx, &live, "after building the handles") {
            return false;
        }
    }
    for (step, &i) in order.iter().enumerate() {
        // between any two steps another document is parsed (reuses the thread-local node buffer)
        if step % 2 == 1 {
            let _noise: Value = sonic_rs::from_str(DOCS[step % DOCS.len()]).unwrap();
        }
        let v = handles[i].take().unwrap();
        if thread_mode != 0 && (step as u64 + thread_mode) % 3 == 0 {
            // drop (after reading) on another thread
            let want = wants[i].clone();
            let h = std::thread::spawn(move || {
                let ok = dump(&v) == want;
                drop(v);
                ok
            });
            if !h.join().unwrap_or(false) {
                ctx.fail("survivor-content-differs", format!("template {} order {:?}: handle {} read on another thread differs", t, order, i));
                return false;
            }
            ctx.class("drop:on-other-thread");
        } else {
            drop(v);
        }
        for (j, h) in handles.iter().enumerate() {
            if let Some(h) = h {
                if !content_check(ctx, h, &wants[j], &format!("template {} drop order {:?} after dropping {}: handle {}", t, order, i, j)) {
                    return false;
                }
            }
        }
        let live: Vec<&Value> = handles.iter().flatten().collect();
        if !ledger_check(ctx, &live, &format!("template {} drop order {:?} after step {}", t, order, step)) {
            return false;
        }
    }
    true
}

/// random history over the register machine with parse / drop / thread operations mixed in
fn run_history(ctx: &mut Ctx, seed: u64, steps: usize) {
    let mut r = Rng::new(seed);
    let mut m = Machine::new();
    let mut log: Vec<String> = vec![];
    for _ in 0..steps {
        ctx.ops(1);
        let k = r.below(20);
        if k < 6 {
            // parse routes into one or two registers
            let d = if r.chance(1, 3) { *r.pick(SCALAR_DOCS) } else { *r.pick(DOCS) };
            let a = r.below(NREG as u64) as usize;
            let b = (a + 1) % NREG;
            match r.below(5) {
                4 => {
                    // raw-number mode: numbers are kept as text nodes
                    m.regs[a] = Deserializer::from_str(d).use_rawnumber().deserialize::<Value>().unwrap();
                    m.model[a] = dump(&sonic_rs::from_str::<Value>(d).unwrap());
                    log.push(format!("parse-rawnumber r{}", a));
                }
                0 => {
                    m.regs[a] = sonic_rs::from_str(d).unwrap();
                    m.model[a] = dump(&m.regs[a]);
                    log.push(format!("parse-whole r{}", a));
                }
                1 => {
                    let e: Emb = sonic_rs::from_str(&format!("{{\"n\":0,\"v\":{},\"w\":[{}]}}", d, d)).unwrap();
                    m.regs[a] = e.v;
                    m.regs[b] = e.w;
                    m.model[a] = dump(&m.regs[a]);
                    m.model[b] = dump(&m.regs[b]);
                    log.push(format!("parse-embedded r{} r{}", a, b));
                }
                2 => {
                    let mut v: Vec<Value> = sonic_rs::from_str(&format!("[{},{}]", d, DOCS[0])).unwrap();
                    m.regs[b] = v.pop().unwrap();
                    m.regs[a] = v.pop().unwrap();
                    m.model[a] = dump(&m.regs[a]);
                    m.model[b] = dump(&m.regs[b]);
                    log.push(format!("parse-vec r{} r{}", a, b));
                }
                _ => {
                    let text = format!("{}\n{}\n{}", DOCS[1], d, d);
                    let mut st = Deserializer::from_str(&text).into_stream::<Value>();
                    let _first = st.next();
                    m.regs[a] = st.next().unwrap().unwrap();
                    m.regs[b] = st.next().unwrap().unwrap();
                    m.model[a] = dump(&m.regs[a]);
                    m.model[b] = dump(&m.regs[b]);
                    log.push(format!("parse-stream r{} r{}", a, b));
                }
            }
            ctx.class("op:parse");
        } else if k < 8 {
            let a = r.below(NREG as u64) as usize;
            m.regs[a] = Value::new();
            m.model[a] = M::Null;
            log.push(format!("drop r{}", a));
            ctx.class("op:drop");
        } else if k < 10 {
            // send to another thread: read there, and either drop there or send back
            let a = r.below(NREG as u64) as usize;
            let v = std::mem::take(&mut m.regs[a]);
            let want = m.model[a].clone();
            let back = r.chance(1, 2);
            let h = std::thread::spawn(move || {
                let ok = dump(&v) == want;
                let c = v.clone();
                drop(v);
                (ok, if back { Some(c) } else { None })
            });
            let (ok, ret) = h.join().unwrap_or((false, None));
            if !ok {
                ctx.fail("survivor-content-differs", format!("value read on another thread differs after {:?}", log.iter().rev().take(6).collect::<Vec<_>>()));
                return;
            }
            match ret {
                Some(c) => m.regs[a] = c,
                None => m.model[a] = M::Null,
            }
            log.push(format!("thread r{} back={}", a, back));
            ctx.class("op:thread");
        } else {
            let op = rand_op(&mut r, &m.model);
            let before = m.model.clone();
            let want = m.step_model(&op);
            let got = m.step_real(&op);
            log.push(crate::core::truncate(&format!("{:?}", op), 120));
            if want == Out::Panicked {
                m.model = before;
                if got != Out::Panicked {
                    ctx.fail("accepted-what-the-model-rejects", format!("{:?}", log.iter().rev().take(4).collect::<Vec<_>>()));
                    return;
                }
            } else if want != got {
                ctx.fail("result-differs", format!("{:?}: {:?} vs {:?}", log.iter().rev().take(4).collect::<Vec<_>>(), got, want));
                return;
            }
        }
        for i in 0..NREG {
            if !content_check(ctx, &m.regs[i], &m.model[i], &format!("register {} after {:?}", i, log.iter().rev().take(5).collect::<Vec<_>>())) {
                return;
            }
        }
        let live: Vec<&Value> = m.regs.iter().collect();
        if !ledger_check(ctx, &live, &format!("after {:?}", log.iter().rev().take(5).collect::<Vec<_>>())) {
            return;
        }
    }
    drop(m);
    ledger_check(ctx, &[], "after dropping every register");
    ctx.class("mode:random-history");
}

/// threads clone / read / drop subtrees of shared documents behind a barrier
fn run_threads(ctx: &mut Ctx, seed: u64, nthreads: usize, iters: usize) {
    let docs: Vec<Arc<Value>> = DOCS.iter().map(|d| Arc::new(sonic_rs::from_str::<Value>(d).unwrap())).collect();
    let wants: Vec<M> = docs.iter().map(|d| dump(d)).collect();
    let wants = Arc::new(wants);
    let barrier = Arc::new(Barrier::new(nthreads));
    let mut hs = vec![];
    for t in 0..nthreads {
        let docs = docs.clone();
        let wants = wants.clone();
        let barrier = barrier.clone();
        hs.push(std::thread::spawn(move || {
            let mut r = Rng::new(seed.wrapping_add(t as u64 * 7919));
            let mut bad = 0u32;
            let mut keep: Vec<Value> = vec![];
            for i in 0..iters {
                if i % 64 == 0 {
                    barrier.wait();
                }
                let di = r.below(docs.len() as u64) as usize;
                let d = &docs[di];
                match r.below(5) {
                    0 => {
                        let c = (**d).clone();
                        if dump(&c) != wants[di] {
                            bad += 1;
                        }
                    }
                    1 => {
                        // clone a subtree and keep it for a while
                        let sub = d.pointer(&sonic_rs::pointer![0]).or(d.pointer(&["x"])).or(d.pointer(&["a"]));
                        if let Some(s) = sub {
                            keep.push(s.clone());
                        }
                    }
                    2 => {
                        if !keep.is_empty() {
                            let k = r.below(keep.len() as u64) as usize;
                            let v = keep.swap_remove(k);
                            let _ = dump(&v);
                        }
                    }
                    3 => {
                        // mutate a private clone
                        let mut c = (**d).clone();
                        if let Some(a) = c.as_array_mut() {
                            a.push(1);
                        } else if let Some(o) = c.as_object_mut() {
                            o.insert("t", 1);
                        }
                        if dump(d) != wants[di] {
                            bad += 1;
                        }
                    }
                    _ => {
                        let s = sonic_rs::to_string(&**d).unwrap_or_default();
                        if s.is_empty() {
                            bad += 1;
                        }
                    }
                }
            }
            // leave the barrier rounds consistent
            bad
        }));
    }
    let mut bad = 0;
    for h in hs {
        match h.join() {
            Ok(b) => bad += b,
            Err(_) => bad += 1000,
        }
    }
    ctx.ops((nthreads * iters) as u64);
    if bad > 0 {
        ctx.fail("threaded-read-differs", format!("{} reads of shared documents differed or a thread panicked", bad));
    }
    drop(docs);
    ledger_check(ctx, &[], "after the threaded stress");
    ctx.class("mode:threads");
}

/// "When the last sharer is dropped all memory of the document is released", for documents of a
/// few MiB: on a fresh thread (fresh thread-local scratch), after warming every route up with a
/// small document, big documents are parsed through every route, cloned, dropped; the number of
/// live heap bytes must come back to the warmed-up level plus at most the parser's fixed scratch
/// allowance (its thread-local node buffer is capped at 3 MiB by design) — nothing that grows with
/// the document.
fn big_release(ctx: &mut Ctx, seed: u64) {
    #[derive(serde::Deserialize)]
    struct Envelope {
        #[allow(dead_code)]
        id: u32,
        payload: Value,
    }
    if !ledger::enabled() {
        return;
    }
    let res = std::thread::spawn(move || -> Vec<(String, i64, usize)> {
        let mut r = Rng::new(seed);
        let routes = |text: &str, keep: &mut Vec<Value>| {
            if let Ok(v) = sonic_rs::from_str::<Value>(text) {
                keep.push(v.clone());
                keep.push(v);
            }
            if let Ok(e) = sonic_rs::from_str::<Envelope>(&format!("{{\"id\":7,\"payload\":{}}}", text)) {
                keep.push(e.payload);
            }
            if let Ok(mut v) = sonic_rs::from_str::<Vec<Value>>(&format!("[1,{}]", text)) {
                keep.push(v.pop().unwrap());
            }
            let two = format!("{{}} {}", text);
            let mut st = sonic_rs::Deserializer::from_str(&two).into_stream::<Value>();
            let _ = st.next();
            if let Some(Ok(v)) = st.next() {
                keep.push(v);
            }
            if let Ok(v) = sonic_rs::from_slice::<sonic_rs::OwnedLazyValue>(text.as_bytes()) {
                let _ = sonic_rs::to_string(&v);
            }
        };
        // warm-up: every route once with a small document, and once with one that fills the
        // thread-local buffer up to its cap
        let mut keep = vec![];
        routes("[1,2,{\"a\":[3]}]", &mut keep);
        let filler = format!("[{}]", vec!["1"; 190_000].join(","));
        routes(&filler, &mut keep);
        drop(keep);
        let base = ledger::snap();
        let mut out = vec![];
        for _ in 0..2 {
            let n = *r.pick(&[250_000usize, 400_000, 1_000_000]);
            let shape = r.below(3);
            let text = match shape {
                0 => format!("[{}]", vec!["1"; n].join(",")),
                1 => format!("[{}]", vec!["[]"; n].join(",")),
                _ => format!("{{{}}}", (0..n / 2).map(|i| format!("\"k{}\":[{}]", i, i % 10)).collect::<Vec<_>>().join(",")),
            };
            let mut keep = vec![];
            routes(&text, &mut keep);
            let len = text.len();
            drop(text);
            drop(keep);
            let after = ledger::snap();
            out.push((format!("{} nodes, shape {}", n, shape), after.bytes - base.bytes, len));
        }
        out
    })
    .join();
    ctx.ops(2);
    match res {
        Ok(rows) => {
            for (what, grew, len) in rows {
                // the allowance: the 3 MiB cap of the thread-local node buffer plus slack for
                // allocator-independent bookkeeping of the harness itself
                if grew > (3 << 20) + (256 << 10) {
                    ctx.fail("big-document-memory-retained", format!("after parsing a {} byte document ({}) through every route and dropping everything, {} bytes more are live on the thread than after the warm-up", len, what, grew));
                }
            }
            ctx.class("ledger:big-document-released");
        }
        Err(_) => ctx.fail("big-release-thread-panicked", "the worker thread panicked".into()),
    }
}

/// Several string literals of many MiB read through ONE deserializer (elements of a `Vec<Value>`,
/// fields of a struct, members of one embedded value, consecutive stream documents): each value has
/// a lifetime of its own — every string is read back in full after all the others were parsed, after
/// clones were taken and after its siblings were dropped.
fn big_strings(ctx: &mut Ctx, seed: u64) {
    #[derive(serde::Deserialize)]
    struct Two {
        a: Value,
        #[allow(dead_code)]
        n: u8,
        b: Value,
    }
    let mut r = Rng::new(seed);
    let sizes: Vec<usize> = (0..3).map(|_| *r.pick(&[(8usize << 20) + 3, 9 << 20, (8 << 20) - 1, 1 << 20, (12 << 20) + 17, 70_000])).collect();
    let make = |i: usize, n: usize| -> String {
        let mut s = String::with_capacity(n + 8);
        let unit = ["abcdefghijklmnopqrstuvw", "0123456789é", "zyx中wvu"][i % 3];
        while s.len() < n {
            s.push_str(unit);
        }
        s
    };
    let strs: Vec<String> = sizes.iter().enumerate().map(|(i, n)| make(i, *n)).collect();
    let lit = |i: usize| format!("\"{}\"", strs[i]);
    let same = |v: &Value, i: usize| -> bool { v.as_str().map(|s| s.len() == strs[i].len() && s == strs[i]).unwrap_or(false) };
    let route = r.below(4);
    ctx.ops(1);
    let mut bad: Option<String> = None;
    match route {
        0 => {
            let text = format!("[{},{},{}]", lit(0), lit(1), lit(2));
            match sonic_rs::from_str::<Vec<Value>>(&text) {
                Ok(mut v) => {
                    drop(text);
                    let c0 = v[0].clone();
                    for i in 0..3 {
                        if !same(&v[i], i) {
                            bad = Some(format!("Vec<Value>[{}] of {} bytes", i, strs[i].len()));
                        }
                    }
                    let last = v.pop().unwrap();
                    drop(v);
                    if !same(&c0, 0) || !same(&last, 2) {
                        bad = Some("Vec<Value>: a clone / the last element after its siblings were dropped".into());
                    }
                }
                Err(e) => bad = Some(format!("Vec<Value> rejected: {}", e)),
            }
        }
        1 => {
            let text = format!("{{\"a\":{},\"n\":1,\"b\":{}}}", lit(0), lit(1));
            match sonic_rs::from_str::<Two>(&text) {
                Ok(t) => {
                    drop(text);
                    if !same(&t.a, 0) || !same(&t.b, 1) {
                        bad = Some("struct fields".into());
                    }
                    let Two { a, b, .. } = t;
                    drop(b);
                    if !same(&a, 0) {
                        bad = Some("struct field a after b was dropped".into());
                    }
                }
                Err(e) => bad = Some(format!("struct rejected: {}", e)),
            }
        }
        2 => {
            let text = format!("[1,{{\"x\":{},\"y\":[{},{}]}}]", lit(0), lit(1), lit(2));
            match sonic_rs::from_str::<(u8, Value)>(&text) {
                Ok((_, v)) => {
                    drop(text);
                    if !same(&v["x"], 0) || !same(&v["y"][0], 1) || !same(&v["y"][1], 2) {
                        bad = Some("members of one embedded value".into());
                    }
                    let x = v["x"].clone();
                    drop(v);
                    if !same(&x, 0) {
                        bad = Some("a member cloned out of the embedded value, after it was dropped".into());
                    }
                }
                Err(e) => bad = Some(format!("tuple rejected: {}", e)),
            }
        }
        _ => {
            let text = format!("null {} {} {}", lit(0), lit(1), lit(2));
            let mut got = vec![];
            {
                let mut st = sonic_rs::Deserializer::from_str(&text).into_stream::<Value>();
                let _ = st.next();
                for _ in 0..3 {
                    if let Some(Ok(v)) = st.next() {
                        got.push(v);
                    }
                }
            }
            drop(text);
            if got.len() != 3 || (0..3).any(|i| !same(&got[i], i)) {
                bad = Some("consecutive stream documents".into());
            }
        }
    }
    if let Some(what) = bad {
        ctx.fail("big-string-changed", format!("{} (sizes {:?}): a string of a value read through the same deserializer as other big strings no longer reads as parsed", what, sizes));
    }
    ctx.class("drop:big-strings");
}

/// The same release check at every input length in windows around the sizes where the parser
/// switches strategy (its scratch buffer moves from the thread-local one to a temporary one when
/// `len/2 + 2` reaches 196 608 nodes, i.e. at 393 212 bytes; powers of two; the 4 KiB page): one
/// parse and drop per length, whole-input and embedded, and not one byte may stay behind.
fn threshold_lengths(ctx: &mut Ctx, window: usize) {
    if !ledger::enabled() {
        return;
    }
    let res = std::thread::spawn(move || -> Vec<(usize, &'static str, i64)> {
        let centres = [393_212usize, 393_216, 196_608, 131_072, 262_144, 524_288, 65_536, 786_424, 4_096];
        let centre = centres[window % centres.len()];
        let make = |len: usize| -> String {
            let mut s = String::with_capacity(len);
            s.push('[');
            while s.len() + 3 <= len.saturating_sub(1) {
                s.push_str("1,");
            }
            s.push('1');
            while s.len() < len - 1 {
                s.push(' ');
            }
            s.push(']');
            s
        };
        // warm-up on this thread: the thread-local scratch buffer grows to the largest document
        // below its cap (393 211 bytes) and is kept, by design
        for l in [64usize, 300_000, 393_211, 393_209, 500_000] {
            let t = make(l);
            drop(sonic_rs::from_str::<Value>(&t));
            drop(sonic_rs::from_str::<Vec<Value>>(&format!("[{}]", t)));
        }
        let mut out = vec![];
        for len in centre.saturating_sub(24).max(8)..centre + 24 {
            let t = make(len);
            let wrapped = format!("[{}]", t);
            let before = ledger::snap();
            drop(sonic_rs::from_str::<Value>(&t));
            let a = ledger::snap();
            drop(sonic_rs::from_slice::<sonic_rs::Array>(t.as_bytes()));
            let b = ledger::snap();
            drop(sonic_rs::from_str::<Vec<Value>>(&wrapped));
            let c = ledger::snap();
            for (what, x, y) in [("from_str::<Value>", before, a), ("from_slice::<Array>", a, b), ("Vec<Value> element", b, c)] {
                if y.bytes - x.bytes > 4096 {
                    out.push((len, what, y.bytes - x.bytes));
                }
            }
        }
        out
    })
    .join();
    ctx.ops(48 * 3);
    match res {
        Ok(rows) => {
            for (len, what, grew) in rows.iter().take(3) {
                ctx.fail("memory-kept-after-drop", format!("{} of an input of exactly {} bytes, parsed and dropped: {} bytes stay allocated", what, len, grew));
            }
            ctx.class("ledger:threshold-lengths");
        }
        Err(_) => ctx.fail("threshold-thread-panicked", "the worker thread panicked".into()),
    }
}

impl Check for C16 {
    fn id(&self) -> &'static str {
        "C16"
    }
    fn generate(&self, g: &GenParams, emit: &mut dyn FnMut(Case)) {
        // all drop permutations of every template (<= 6 handles: 720 orders)
        let ntemplates = 10 * SCALAR_DOCS.len() as u64;
        let mut idx = 0u64;
        for t in 0..ntemplates {
            for blk in 0..6u64 {
                if g.mine(idx) && (g.scale >= 0.5 || (t + blk) % 4 == 0) {
                    emit(Case::with("permutations", vec![], &[t as i64, (blk * 120) as i64, 120]));
                }
                idx += 1;
            }
        }
        let mut r = g.rng(16);
        let n = g.count(30_000, 3_000_000);
        for _ in 0..n {
            emit(Case::with("history", vec![], &[r.next() as i64, 60]));
        }
        if g.scale >= 0.5 {
            for _ in 0..g.count(16, 160) {
                emit(Case::with("big-release", vec![], &[r.next() as i64]));
            }
            for _ in 0..g.count(16, 96) {
                emit(Case::with("big-strings", vec![], &[r.next() as i64]));
            }
            for w in 0..9u64 {
                if g.mine(300 + w) {
                    emit(Case::with("threshold-lengths", vec![], &[w as i64]));
                }
            }
        }
        let n = g.count(32, 640);
        for _ in 0..n {
            emit(Case::with("threads", vec![], &[r.next() as i64, 8, if g.tier == Tier::Quick { 2_000 } else { 20_000 }]));
        }
    }
    fn exec(&self, ctx: &mut Ctx, c: &Case) {
        ctx.nontrivial();
        match c.entry.as_str() {
            "permutations" => {
                let t = c.p(0) as u64;
                let mut r = Rng::new(t);
                let n = template(t, &mut r).len().min(6);
                let total: u64 = (1..=n as u64).product();
                // the allocation ledger must return to the same level after every permutation (the
                // first runs warm thread-local buffers up; a run that grew the monitor's own class
                // table is not judged)
                let mut warm = 0;
                for k in c.p(1) as u64..(c.p(1) + c.p(2)) as u64 {
                    if k >= total {
                        break;
                    }
                    let classes_before = ctx.classes.len();
                    let before = ledger::snap();
                    if !run_permutation(ctx, t, k, k % 2) {
                        return;
                    }
                    let after = ledger::snap();
                    warm += 1;
                    if ledger::enabled() && warm > 2 && ctx.classes.len() == classes_before {
                        if after.blocks != before.blocks {
                            ctx.fail("leak:ledger", format!("template {} order #{}: live heap blocks {} -> {} after everything was dropped", t, k, before.blocks, after.blocks));
                            return;
                        }
                        ctx.class("ledger:alloc-checked");
                    }
                }
                ctx.class("mode:all-drop-permutations");
                ctx.class(&format!("template:{}", t % 10));
                ctx.sample("permutations");
            }
            "threshold-lengths" => {
                threshold_lengths(ctx, c.p(0) as usize);
                ctx.sample("threshold-lengths");
            }
            "big-strings" => {
                big_strings(ctx, c.p(0) as u64);
                ctx.sample("big-strings");
            }
            "big-release" => {
                big_release(ctx, c.p(0) as u64);
                ctx.sample("big-release");
            }
            "history" => {
                run_history(ctx, c.p(0) as u64, c.p(1) as usize);
                ctx.sample("history");
            }
            _ => {
                run_threads(ctx, c.p(0) as u64, c.p(1) as usize, c.p(2) as usize);
                ctx.sample("threads");
            }
        }
    }
    fn required_classes(&self, b: &str, _t: Tier) -> Vec<&'static str> {
        let mut v = vec!["mode:all-drop-permutations", "mode:random-history", "mode:threads", "drop:on-other-thread", "op:parse", "op:thread", "template:2", "template:4", "template:5", "template:8", "template:9"];
        if b == "native-rel" {
            v.push("ledger:arena-checked");
            v.push("ledger:alloc-checked");
            v.push("ledger:big-document-released");
            v.push("drop:big-strings");
            v.push("ledger:threshold-lengths");
        }
        v
    }
}
