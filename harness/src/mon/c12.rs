//! C12 — lazy iterators yield exactly the members of the container, then stop.
use bytes::Bytes;
use faststr::FastStr;
use sonic_rs::LazyValue;

use crate::core::{Case, Check, Ctx, GenParams, Tier};
use crate::gen::doc::{self, DocOpts};
use crate::gen::mutate;
use crate::mon::common::exact;
use crate::refmodel::recog::{skip_ws, K, P};

pub struct C12;

/// reference: the leading well-formed members and how the sequence ends
pub struct Model {
    /// (decoded key if object, value span)
    pub items: Vec<(Option<String>, usize, usize)>,
    /// true: the container is closed properly after the items; false: a violation follows
    pub clean_end: bool,
    /// the last item is a number/literal glued to further non-delimiter bytes (`00`, `1x`,
    /// `truex`): whether that is "a well-formed member followed by a violation" or "a malformed
    /// token" depends on tokenisation, both readings are accepted
    pub last_glued: bool,
}

pub fn model(b: &[u8], object: bool) -> Model {
    let mut p = P::new(b);
    let mut items = vec![];
    let mut i = skip_ws(b, 0);
    let (open, close) = if object { (b'{', b'}') } else { (b'[', b']') };
    if i >= b.len() || b[i] != open {
        return Model { items, clean_end: false, last_glued: false };
    }
    i = skip_ws(b, i + 1);
    if i < b.len() && b[i] == close {
        return Model { items, clean_end: true, last_glued: false };
    }
    loop {
        let mut key = None;
        if object {
            i = skip_ws(b, i);
            if i >= b.len() || b[i] != b'"' {
                return Model { items, clean_end: false, last_glued: false };
            }
            let Ok((k, e)) = p.string(i) else { return Model { items, clean_end: false, last_glued: false } };
            let Some(ks) = k.key_str() else { return Model { items, clean_end: false, last_glued: false } };
            key = Some(ks.to_string());
            i = skip_ws(b, e);
            if i >= b.len() || b[i] != b':' {
                return Model { items, clean_end: false, last_glued: false };
            }
            i += 1;
        }
        let Ok((v, e)) = p.value(i, 0) else { return Model { items, clean_end: false, last_glued: false } };
        if p.flags.max_depth > 64 {
            return Model { items, clean_end: false, last_glued: false };
        }
        items.push((key, v.start, v.end));
        i = skip_ws(b, e);
        if i >= b.len() {
            return Model { items, clean_end: false, last_glued: false };
        }
        if b[i] == close {
            return Model { items, clean_end: true, last_glued: false };
        }
        if b[i] != b',' {
            let glued = i == e && matches!(v.k, K::Num(_) | K::Bool(_) | K::Null);
            return Model { items, clean_end: false, last_glued: glued };
        }
        i += 1;
    }
}

#[derive(Debug, PartialEq, Clone)]
enum Ev {
    Item(Option<String>, Vec<u8>, usize),
    Err(String),
}

fn collect_arr<'a>(it: impl Iterator<Item = sonic_rs::Result<LazyValue<'a>>>, base: Option<*const u8>) -> (Vec<Ev>, usize) {
    let mut evs = vec![];
    let mut it = it;
    let mut n = 0;
    while let Some(x) = it.next() {
        match x {
            Ok(v) => {
                let raw = v.as_raw_str();
                let off = base.map(|b| (raw.as_ptr() as usize).wrapping_sub(b as usize)).unwrap_or(usize::MAX);
                evs.push(Ev::Item(None, raw.as_bytes().to_vec(), off));
            }
            Err(e) => evs.push(Ev::Err(e.to_string())),
        }
        n += 1;
        if n > 100_000 {
            break;
        }
    }
    let mut late = 0;
    for _ in 0..3 {
        if it.next().is_some() {
            late += 1;
        }
    }
    (evs, late)
}

fn collect_obj<'a, K2: AsRef<str>>(it: impl Iterator<Item = sonic_rs::Result<(K2, LazyValue<'a>)>>, base: Option<*const u8>) -> (Vec<Ev>, usize) {
    let mut evs = vec![];
    let mut it = it;
    let mut n = 0;
    while let Some(x) = it.next() {
        match x {
            Ok((k, v)) => {
                let raw = v.as_raw_str();
                let off = base.map(|b| (raw.as_ptr() as usize).wrapping_sub(b as usize)).unwrap_or(usize::MAX);
                evs.push(Ev::Item(Some(k.as_ref().to_string()), raw.as_bytes().to_vec(), off));
            }
            Err(e) => evs.push(Ev::Err(e.to_string())),
        }
        n += 1;
        if n > 100_000 {
            break;
        }
    }
    let mut late = 0;
    for _ in 0..3 {
        if it.next().is_some() {
            late += 1;
        }
    }
    (evs, late)
}


/// The iterator adaptors (`nth`, `skip`, `step_by`, `last`, `count`) must behave as repeated
/// `next()`: `base` is the event list obtained with `next()` alone (items and errors, then None
/// forever). `mk` builds a fresh iterator; items are reduced to (key, raw bytes) / error marker.
fn adaptors<I, T>(ctx: &mut Ctx, api: &str, base: &[Ev], mk: &dyn Fn() -> I, red: &dyn Fn(T) -> Ev, seed: u64)
where
    I: Iterator<Item = T>,
{
    let strip = |e: &Ev| match e {
        Ev::Item(k, raw, _) => Ev::Item(k.clone(), raw.clone(), 0),
        Ev::Err(_) => Ev::Err(String::new()),
    };
    let base: Vec<Ev> = base.iter().map(strip).collect();
    let mut r = crate::rng::Rng::new(seed ^ 0x6e7468);
    ctx.ops(1);
    // a random program of nth / next over one iterator, simulated on the baseline
    let mut it = mk();
    let mut pos = 0usize; // next baseline index
    let mut log = String::new();
    for _ in 0..6 {
        let n = match r.below(4) {
            0 => 0,
            1 => r.below(3) as usize,
            2 => base.len().saturating_sub(pos),
            _ => base.len() + r.below(4) as usize,
        };
        let (got, want) = if r.chance(1, 2) {
            log.push_str(&format!("nth({});", n));
            let got = it.nth(n).map(|x| strip(&red(x)));
            // default nth: n items are dropped (stopping at the first None), then one is returned
            let avail = base.len().saturating_sub(pos);
            let want = if n < avail {
                pos += n + 1;
                Some(base[pos - 1].clone())
            } else {
                pos = base.len();
                None
            };
            (got, want)
        } else {
            log.push_str("next;");
            let got = it.next().map(|x| strip(&red(x)));
            let want = if pos < base.len() {
                pos += 1;
                Some(base[pos - 1].clone())
            } else {
                None
            };
            (got, want)
        };
        if got != want {
            ctx.fail(&format!("adaptor-differs:{}", api), format!("{} after [{}]: {:?} but repeated next() gives {:?}", api, log, got.map(|e| format!("{:?}", e)).map(|s| crate::core::truncate(&s, 120)), want.map(|e| format!("{:?}", e)).map(|s| crate::core::truncate(&s, 120))));
            return;
        }
    }
    // whole-iterator adaptors
    let cnt = mk().count();
    let last = mk().last().map(|x| strip(&red(x)));
    let k = 1 + r.below(3) as usize;
    let skipped: Vec<Ev> = mk().skip(k).map(|x| strip(&red(x))).collect();
    let stepped: Vec<Ev> = mk().step_by(k + 1).map(|x| strip(&red(x))).collect();
    let want_skipped: Vec<Ev> = base.iter().skip(k).cloned().collect();
    let want_stepped: Vec<Ev> = base.iter().step_by(k + 1).cloned().collect();
    if cnt != base.len() || last != base.last().cloned() || skipped != want_skipped || stepped != want_stepped {
        ctx.fail(&format!("adaptor-differs:{}", api), format!("{}: count {} (next() gives {}), last/skip({})/step_by({}) differ from repeated next()", api, cnt, base.len(), k, k + 1));
    }
    ctx.class("iter:adaptors-compared");
}

fn red_arr<'a>(x: sonic_rs::Result<LazyValue<'a>>) -> Ev {
    match x {
        Ok(v) => Ev::Item(None, v.as_raw_str().as_bytes().to_vec(), 0),
        Err(_) => Ev::Err(String::new()),
    }
}

fn red_obj<'a, K2: AsRef<str>>(x: sonic_rs::Result<(K2, LazyValue<'a>)>) -> Ev {
    match x {
        Ok((k, v)) => Ev::Item(Some(k.as_ref().to_string()), v.as_raw_str().as_bytes().to_vec(), 0),
        Err(_) => Ev::Err(String::new()),
    }
}

fn judge(ctx: &mut Ctx, api: &str, b: &[u8], m: &Model, evs: &[Ev], late: usize, utf8: bool, with_off: bool) {
    ctx.ops(1);
    if late > 0 {
        ctx.fail(&format!("yields-after-end:{}", api), format!("{} yielded {} more item(s) after reporting the end or an error", api, late));
    }
    let oks = evs.iter().take_while(|e| matches!(e, Ev::Item(..))).count();
    let errs = evs.iter().filter(|e| matches!(e, Ev::Err(_))).count();
    if evs.len() != oks + errs || (errs > 0 && !matches!(evs.last(), Some(Ev::Err(_)))) || errs > 1 {
        ctx.fail(&format!("sequence-shape:{}", api), format!("{}: {} items and {} errors, not 'items then at most one error'", api, oks, errs));
        return;
    }
    // every yielded item must be a member of the model, in order, with the exact span
    for (i, e) in evs.iter().take(oks).enumerate() {
        let Ev::Item(k, raw, off) = e else { unreachable!() };
        match m.items.get(i) {
            Some((mk, s, en)) => {
                if raw != &b[*s..*en] || (with_off && *off != usize::MAX && off != s) {
                    ctx.fail(&format!("item-span:{}", api), format!("{} item {}: {:?} vs source span {:?} (offset {} vs {})", api, i, crate::core::truncate(&String::from_utf8_lossy(raw), 100), crate::core::truncate(&String::from_utf8_lossy(&b[*s..*en]), 100), *off as isize, s));
                    return;
                }
                if k != mk {
                    ctx.fail(&format!("item-key:{}", api), format!("{} item {}: key {:?} vs {:?}", api, i, k, mk));
                    return;
                }
            }
            None => {
                ctx.fail(&format!("extra-item:{}", api), format!("{} yielded item {} ({:?}) beyond the {} well-formed leading members", api, i, crate::core::truncate(&String::from_utf8_lossy(raw), 100), m.items.len()));
                return;
            }
        }
    }
    if !utf8 {
        // invalid UTF-8 input: the whole input is validated up front; only the one-directional
        // requirements above apply, plus: an error must be reported
        if errs == 0 && !(m.clean_end && oks == m.items.len()) {
            ctx.fail(&format!("no-error:{}", api), format!("{} ended silently on malformed input", api));
        }
        return;
    }
    if m.clean_end {
        if oks != m.items.len() || errs != 0 {
            ctx.fail(
                &format!("wellformed-differs:{}", api),
                format!("{} on a well-formed container: {} items and {} errors, reference has {} members; last event {:?}", api, oks, errs, m.items.len(), evs.last().map(|e| format!("{:?}", e)).map(|s| crate::core::truncate(&s, 150))),
            );
        }
    } else if !(oks == m.items.len() || (m.last_glued && oks + 1 == m.items.len())) || errs != 1 {
        ctx.fail(
            &format!("malformed-differs:{}", api),
            format!("{} on malformed input: {} items then {} errors, reference says {} leading members then one error", api, oks, errs, m.items.len()),
        );
    }
}

/// Items carry the input's lifetime, not the iterator's, so they must still be what they were when
/// the iterator itself is gone. The iterator is boxed and drained, copies of every key and raw
/// text are taken as they are yielded, the iterator is dropped (the allocator poisons whatever it
/// owned), and keys and raw texts are compared with the copies; then the values are dropped as
/// well and the keys are compared once more.
fn retained_obj<'a, I>(ctx: &mut Ctx, api: &str, it: I)
where
    I: Iterator<Item = sonic_rs::Result<(std::borrow::Cow<'a, str>, LazyValue<'a>)>>,
{
    ctx.ops(1);
    let mut it = Box::new(it);
    let mut kept: Vec<(std::borrow::Cow<'a, str>, LazyValue<'a>)> = vec![];
    let mut copies: Vec<(Vec<u8>, Vec<u8>)> = vec![];
    while kept.len() < 48 {
        match it.next() {
            Some(Ok((k, v))) => {
                copies.push((k.as_bytes().to_vec(), v.as_raw_str().as_bytes().to_vec()));
                kept.push((k, v));
            }
            _ => break,
        }
    }
    if kept.is_empty() {
        return;
    }
    drop(it);
    let scratch: Vec<Vec<u8>> = copies.iter().map(|(k, r)| vec![b'#'; k.len() + r.len() + 8]).collect();
    for (i, ((k, v), (ck, cr))) in kept.iter().zip(&copies).enumerate() {
        if k.as_bytes() != &ck[..] {
            ctx.fail(&format!("retained-key:{}", api), format!("{}: key {} read {:?} once the iterator was dropped, it was {:?} when yielded", api, i, crate::core::truncate(&String::from_utf8_lossy(k.as_bytes()), 60), crate::core::truncate(&String::from_utf8_lossy(ck), 60)));
            return;
        }
        if v.as_raw_str().as_bytes() != &cr[..] {
            ctx.fail(&format!("retained-value:{}", api), format!("{}: item {} read {:?} once the iterator was dropped, it was {:?} when yielded", api, i, crate::core::truncate(&String::from_utf8_lossy(v.as_raw_str().as_bytes()), 60), crate::core::truncate(&String::from_utf8_lossy(cr), 60)));
            return;
        }
    }
    let keys: Vec<std::borrow::Cow<'a, str>> = kept.into_iter().map(|(k, _)| k).collect();
    drop(scratch);
    for (i, (k, (ck, _))) in keys.iter().zip(&copies).enumerate() {
        if k.as_bytes() != &ck[..] {
            ctx.fail(&format!("retained-key:{}", api), format!("{}: key {} read {:?} once the iterator and all yielded values were dropped, it was {:?} when yielded", api, i, crate::core::truncate(&String::from_utf8_lossy(k.as_bytes()), 60), crate::core::truncate(&String::from_utf8_lossy(ck), 60)));
            return;
        }
    }
    ctx.class("iter:items-outlive-iterator");
}

fn retained_arr<'a, I>(ctx: &mut Ctx, api: &str, it: I)
where
    I: Iterator<Item = sonic_rs::Result<LazyValue<'a>>>,
{
    ctx.ops(1);
    let mut it = Box::new(it);
    let mut kept: Vec<LazyValue<'a>> = vec![];
    let mut copies: Vec<Vec<u8>> = vec![];
    while kept.len() < 48 {
        match it.next() {
            Some(Ok(v)) => {
                copies.push(v.as_raw_str().as_bytes().to_vec());
                kept.push(v);
            }
            _ => break,
        }
    }
    if kept.is_empty() {
        return;
    }
    drop(it);
    let scratch: Vec<Vec<u8>> = copies.iter().map(|r| vec![b'#'; r.len() + 8]).collect();
    // in reverse, so that every value is read after some of its siblings are gone
    while let Some(v) = kept.pop() {
        let cr = copies.pop().unwrap();
        if v.as_raw_str().as_bytes() != &cr[..] {
            ctx.fail(&format!("retained-value:{}", api), format!("{}: item {} read {:?} once the iterator was dropped, it was {:?} when yielded", api, kept.len(), crate::core::truncate(&String::from_utf8_lossy(v.as_raw_str().as_bytes()), 60), crate::core::truncate(&String::from_utf8_lossy(&cr), 60)));
            return;
        }
    }
    drop(scratch);
    ctx.class("iter:items-outlive-iterator");
}

/// every way of getting an iterator whose items may outlive it, over one well-formed text
fn retained_routes(ctx: &mut Ctx, s: &str, object: bool) {
    let fs = FastStr::new(s);
    let by = Bytes::copy_from_slice(s.as_bytes());
    let owned = s.to_string();
    let none: [&str; 0] = [];
    if object {
        retained_obj(ctx, "to_object_iter(&str)", sonic_rs::to_object_iter(s));
        retained_obj(ctx, "to_object_iter(&String)", sonic_rs::to_object_iter(&owned));
        retained_obj(ctx, "to_object_iter(&FastStr)", sonic_rs::to_object_iter(&fs));
        retained_obj(ctx, "to_object_iter(&Bytes)", sonic_rs::to_object_iter(&by));
        retained_obj(ctx, "to_object_iter_unchecked(&FastStr)", unsafe { sonic_rs::to_object_iter_unchecked(&fs) });
        if let Ok(lv) = sonic_rs::from_str::<LazyValue>(s) {
            if let Some(it) = lv.into_object_iter() {
                retained_obj(ctx, "from_str::<LazyValue>.into_object_iter", it);
            }
        }
        if let Ok(lv) = sonic_rs::from_slice::<LazyValue>(s.as_bytes()) {
            if let Some(it) = lv.into_object_iter() {
                retained_obj(ctx, "from_slice::<LazyValue>.into_object_iter", it);
            }
        }
        if let Some(it) = sonic_rs::get(&fs, &none).ok().and_then(|lv| lv.into_object_iter()) {
            retained_obj(ctx, "get(&FastStr).into_object_iter", it);
        }
        if let Some(it) = sonic_rs::get(&by, &none).ok().and_then(|lv| lv.into_object_iter()) {
            retained_obj(ctx, "get(&Bytes).into_object_iter", it);
        }
        if let Some(it) = sonic_rs::get(s, &none).ok().and_then(|lv| lv.into_object_iter()) {
            retained_obj(ctx, "get(&str).into_object_iter", it);
        }
        // members that are containers themselves, through every carrier
        let wrapped = format!("[{}]", s);
        let wfs = FastStr::new(&wrapped);
        if let Some(it) = sonic_rs::to_array_iter(&wfs).next().and_then(|x| x.ok()).and_then(|lv| lv.into_object_iter()) {
            retained_obj(ctx, "to_array_iter(&FastStr) member.into_object_iter", it);
        }
        if let Some(it) = sonic_rs::from_str::<Vec<LazyValue>>(&wrapped).ok().and_then(|mut v| v.pop()).and_then(|lv| lv.into_object_iter()) {
            retained_obj(ctx, "Vec<LazyValue> member.into_object_iter", it);
        }
        if let Some(it) = sonic_rs::from_str::<LazyValue>(&wrapped).ok().and_then(|lv| lv.into_array_iter()).and_then(|mut it| it.next()).and_then(|x| x.ok()).and_then(|lv| lv.into_object_iter()) {
            retained_obj(ctx, "into_array_iter member.into_object_iter", it);
        }
    } else {
        retained_arr(ctx, "to_array_iter(&str)", sonic_rs::to_array_iter(s));
        retained_arr(ctx, "to_array_iter(&String)", sonic_rs::to_array_iter(&owned));
        retained_arr(ctx, "to_array_iter(&FastStr)", sonic_rs::to_array_iter(&fs));
        retained_arr(ctx, "to_array_iter(&Bytes)", sonic_rs::to_array_iter(&by));
        retained_arr(ctx, "to_array_iter_unchecked(&FastStr)", unsafe { sonic_rs::to_array_iter_unchecked(&fs) });
        if let Some(it) = sonic_rs::from_str::<LazyValue>(s).ok().and_then(|lv| lv.into_array_iter()) {
            retained_arr(ctx, "from_str::<LazyValue>.into_array_iter", it);
        }
        if let Some(it) = sonic_rs::from_slice::<LazyValue>(s.as_bytes()).ok().and_then(|lv| lv.into_array_iter()) {
            retained_arr(ctx, "from_slice::<LazyValue>.into_array_iter", it);
        }
        if let Some(it) = sonic_rs::get(&fs, &none).ok().and_then(|lv| lv.into_array_iter()) {
            retained_arr(ctx, "get(&FastStr).into_array_iter", it);
        }
        if let Some(it) = sonic_rs::get(&by, &none).ok().and_then(|lv| lv.into_array_iter()) {
            retained_arr(ctx, "get(&Bytes).into_array_iter", it);
        }
        if let Some(it) = sonic_rs::get(s, &none).ok().and_then(|lv| lv.into_array_iter()) {
            retained_arr(ctx, "get(&str).into_array_iter", it);
        }
        let wrapped = format!("{{\"w\":{}}}", s);
        let wfs = FastStr::new(&wrapped);
        if let Some(it) = sonic_rs::to_object_iter(&wfs).next().and_then(|x| x.ok()).and_then(|(_, lv)| lv.into_array_iter()) {
            retained_arr(ctx, "to_object_iter(&FastStr) member.into_array_iter", it);
        }
        if let Some(it) = sonic_rs::from_str::<LazyValue>(&wrapped).ok().and_then(|lv| lv.into_object_iter()).and_then(|mut it| it.next()).and_then(|x| x.ok()).and_then(|(_, lv)| lv.into_array_iter()) {
            retained_arr(ctx, "into_object_iter member.into_array_iter", it);
        }
    }
}

pub fn check_input(ctx: &mut Ctx, b: &[u8]) {
    let utf8 = std::str::from_utf8(b).is_ok();
    let ma = model(b, false);
    let mo = model(b, true);
    ctx.class(match (ma.clean_end, mo.clean_end) {
        (true, _) => "input:well-formed-array",
        (_, true) => "input:well-formed-object",
        _ => {
            if utf8 {
                "input:malformed"
            } else {
                "input:malformed-non-utf8"
            }
        }
    });
    if ma.items.len() + mo.items.len() > 1 {
        ctx.nontrivial();
    }
    if ma.items.is_empty() && mo.items.is_empty() {
        ctx.class("input:no-leading-member");
    }
    let ex = exact(b);
    let base = Some(ex.as_ptr());
    let by = Bytes::copy_from_slice(b);
    // checked iterators x carriers
    let (e, l) = collect_arr(sonic_rs::to_array_iter(&ex[..]), base);
    judge(ctx, "to_array_iter(&[u8])", b, &ma, &e, l, utf8, true);
    let (e, l) = collect_obj(sonic_rs::to_object_iter(&ex[..]), base);
    judge(ctx, "to_object_iter(&[u8])", b, &mo, &e, l, utf8, true);
    let (e, l) = collect_arr(sonic_rs::to_array_iter(&by), None);
    judge(ctx, "to_array_iter(&Bytes)", b, &ma, &e, l, utf8, false);
    adaptors(ctx, "to_array_iter(&Bytes)", &e, &|| sonic_rs::to_array_iter(&by), &red_arr, b.len() as u64);
    let (e, l) = collect_obj(sonic_rs::to_object_iter(&by), None);
    judge(ctx, "to_object_iter(&Bytes)", b, &mo, &e, l, utf8, false);
    adaptors(ctx, "to_object_iter(&Bytes)", &e, &|| sonic_rs::to_object_iter(&by), &red_obj, b.len() as u64 + 1);
    {
        let (e, _) = collect_arr(sonic_rs::to_array_iter(&ex[..]), base);
        adaptors(ctx, "to_array_iter(&[u8])", &e, &|| sonic_rs::to_array_iter(&ex[..]), &red_arr, b.len() as u64 + 2);
        let (e, _) = collect_obj(sonic_rs::to_object_iter(&ex[..]), base);
        adaptors(ctx, "to_object_iter(&[u8])", &e, &|| sonic_rs::to_object_iter(&ex[..]), &red_obj, b.len() as u64 + 3);
    }
    if let Ok(s) = std::str::from_utf8(&ex) {
        let (e, l) = collect_arr(sonic_rs::to_array_iter(s), base);
        judge(ctx, "to_array_iter(&str)", b, &ma, &e, l, true, true);
        let (e, l) = collect_obj(sonic_rs::to_object_iter(s), base);
        judge(ctx, "to_object_iter(&str)", b, &mo, &e, l, true, true);
        let fs = FastStr::new(s);
        let (e, l) = collect_arr(sonic_rs::to_array_iter(&fs), None);
        judge(ctx, "to_array_iter(&FastStr)", b, &ma, &e, l, true, false);
        let (e, l) = collect_obj(sonic_rs::to_object_iter(&fs), None);
        judge(ctx, "to_object_iter(&FastStr)", b, &mo, &e, l, true, false);
        let owned = s.to_string();
        let (e, l) = collect_arr(sonic_rs::to_array_iter(&owned), Some(owned.as_ptr()));
        judge(ctx, "to_array_iter(&String)", b, &ma, &e, l, true, true);
        // unchecked iterators agree with the checked ones on well-formed input
        if ma.clean_end && crate::refmodel::recog::parse_prefix(b, 0).is_ok() {
            let (e, l) = collect_arr(unsafe { sonic_rs::to_array_iter_unchecked(s) }, base);
            judge(ctx, "to_array_iter_unchecked", b, &ma, &e, l, true, true);
        }
        if mo.clean_end && crate::refmodel::recog::parse_prefix(b, 0).is_ok() {
            let (e, l) = collect_obj(unsafe { sonic_rs::to_object_iter_unchecked(s) }, base);
            judge(ctx, "to_object_iter_unchecked", b, &mo, &e, l, true, true);
        }
        // LazyValue::into_*_iter on the first value (well-formed only: a LazyValue is validated)
        if let Ok(pre) = crate::refmodel::recog::parse_prefix(b, 0) {
            if pre.flags.max_depth <= 64 {
                let frag = &s[pre.root.start..pre.root.end];
                match &pre.root.k {
                    K::Arr(_) => retained_routes(ctx, frag, false),
                    K::Obj(_) => retained_routes(ctx, frag, true),
                    _ => {}
                }
                if let Ok(lv) = sonic_rs::from_str::<LazyValue>(frag) {
                    let fb = frag.as_bytes();
                    match &pre.root.k {
                        K::Arr(_) => {
                            let m = model(fb, false);
                            match lv.into_array_iter() {
                                Some(it) => {
                                    let (e, l) = collect_arr(it, None);
                                    judge(ctx, "LazyValue::into_array_iter", fb, &m, &e, l, true, true);
                                }
                                None => ctx.fail("into-iter-none", "into_array_iter returned None for an array".into()),
                            }
                        }
                        K::Obj(_) => {
                            let m = model(fb, true);
                            match lv.into_object_iter() {
                                Some(it) => {
                                    let (e, l) = collect_obj(it, None);
                                    judge(ctx, "LazyValue::into_object_iter", fb, &m, &e, l, true, true);
                                }
                                None => ctx.fail("into-iter-none", "into_object_iter returned None for an object".into()),
                            }
                        }
                        _ => {
                            ctx.ops(1);
                            if lv.clone().into_array_iter().is_some() || lv.into_object_iter().is_some() {
                                ctx.fail("into-iter-some", "into_*_iter returned an iterator for a scalar".into());
                            }
                        }
                    }
                }
            }
        }
    }
}

impl Check for C12 {
    fn id(&self) -> &'static str {
        "C12"
    }
    fn generate(&self, g: &GenParams, emit: &mut dyn FnMut(Case)) {
        let mut r = g.rng(12);
        let n = g.count(200_000, 10_000_000);
        for k in 0..n {
            let mut o = DocOpts::random(&mut r);
            o.dup_keys = k % 7 == 0;
            let mut g2 = doc::Gen::new(&mut r, o);
            g2.ws();
            if k % 2 == 0 {
                g2.array(1)
            } else {
                g2.object(1)
            }
            let mut d = g2.out;
            // trailing bytes after the container are free
            match r.below(6) {
                0 => d.extend_from_slice(b"  "),
                1 => d.extend_from_slice(b" garbage ]}"),
                2 => d.extend_from_slice(b",1"),
                _ => {}
            }
            match k % 4 {
                0 | 1 => emit(Case::new("doc", d)),
                _ => {
                    let (m, _) = mutate::mutate(&mut r, &d);
                    emit(Case::new("mut", m));
                }
            }
        }
        // wide containers: 250..700 tiny members (empty containers among them), whatever a parser
        // kept across `next()` calls would accumulate
        for k in 0..(if g.tier == Tier::Quick { 6 } else { 60 }) {
            let n = *r.pick(&[254usize, 255, 256, 257, 300, 520, 700]);
            let tiny = |r: &mut crate::rng::Rng| -> &'static str { *r.pick(&["{}", "[]", "{}", "[[]]", "{\"a\":{}}", "0", "\"\"", "null"]) };
            let flavour = k % 3;
            let items: Vec<String> = (0..n)
                .map(|i| {
                    let v = match flavour {
                        0 => "{}",
                        1 => "[]",
                        _ => tiny(&mut r),
                    };
                    if k % 2 == 0 {
                        v.to_string()
                    } else {
                        format!("\"k{}\":{}", i, v)
                    }
                })
                .collect();
            let d = if k % 2 == 0 { format!("[{},{{\"in\":[1]}}]", items.join(",")) } else { format!("{{{},\"last\":{{\"in\":[1]}}}}", items.join(",")) };
            emit(Case::new("wide", d.into_bytes()));
        }
        // sizes 0..N, handwritten separators
        if g.shard == 0 {
            for n in 0..70usize {
                let items: Vec<String> = (0..n).map(|i| format!("{}", i)).collect();
                emit(Case::new("size", format!("[{}]", items.join(",")).into_bytes()));
                let items: Vec<String> = (0..n).map(|i| format!("\"k{}\":[{}]", i, i)).collect();
                emit(Case::new("size", format!("{{{}}}", items.join(" , ")).into_bytes()));
            }
            for s in ["[1 2]", "[1,]", "[,1]", "[1,,2]", "[1,2", "[1,2}", "{\"a\":1,}", "{\"a\" 1}", "{\"a\":1 \"b\":2}", "{,}", "[tru]", "[1,nul]", "1", "", "  ", "{\"a\":1,\"b\"}", "[\"a\",\"\\ud800\"]", "{\"\\ud800\":1}", "[1,2]]", "[[1,2],[3}]"] {
                emit(Case::new("hand", s.as_bytes().to_vec()));
            }
        }
    }
    fn exec(&self, ctx: &mut Ctx, c: &Case) {
        check_input(ctx, &c.input);
        ctx.sample(&c.entry);
    }
    fn required_classes(&self, _b: &str, _t: Tier) -> Vec<&'static str> {
        vec!["input:well-formed-array", "input:well-formed-object", "input:malformed", "input:malformed-non-utf8", "iter:items-outlive-iterator"]
    }
}
