//! C15 — the mutable DOM matches a plain array/map model under every operation history.
use sonic_rs::{JsonValueMutTrait, JsonValueTrait, Value};

use crate::core::{Case, Check, Ctx, GenParams, Tier};
use crate::mon::machine::*;
use crate::rng::Rng;

pub struct C15;

/// starting values: (label, how to build)
pub fn start_value(kind: u64, r: &mut Rng) -> (Value, &'static str) {
    let doc = *r.pick(LIT_JSON);
    match kind % 7 {
        0 => (sonic_rs::from_str::<Value>(doc).unwrap(), "parsed-root"),
        1 => {
            // parsed subtree obtained by clone
            let w: Value = sonic_rs::from_str(&format!("{{\"w\":[0,{}]}}", doc)).unwrap();
            (w["w"][1].clone(), "parsed-subtree-clone")
        }
        2 => {
            // parsed subtree obtained by take
            let mut w: Value = sonic_rs::from_str(&format!("[{},1]", doc)).unwrap();
            let t = w.pointer_mut(&sonic_rs::pointer![0]).map(|x| x.take()).unwrap_or_default();
            (t, "parsed-subtree-take")
        }
        3 => (build(&sonic_rs::from_str::<Value>(doc).unwrap()), "built-owned"),
        4 => (sonic_rs::to_value(&serde_json::from_str::<serde_json::Value>(doc).unwrap()).unwrap(), "to_value"),
        5 => (sonic_rs::json!({"a": [1, 2, {"b": null}], "c": "s"}), "json-macro"),
        _ => {
            // embedded in a typed structure (shares the deserializer's arena)
            let v: Vec<Value> = sonic_rs::from_str(&format!("[{},{}]", doc, doc)).unwrap();
            (v.into_iter().nth(1).unwrap(), "embedded")
        }
    }
}

fn compare_all(ctx: &mut Ctx, m: &Machine, log: &[String]) -> bool {
    for i in 0..NREG {
        let d = dump(&m.regs[i]);
        if d != m.model[i] {
            ctx.fail(
                "contents-differ",
                format!("register {} is {} but the model says {} after {:?}", i, crate::core::truncate(&to_json(&d), 300), crate::core::truncate(&to_json(&m.model[i]), 300), tail(log)),
            );
            return false;
        }
        #[cfg(feature = "hooks")]
        if let Err(e) = m.regs[i].verif_check() {
            ctx.fail("structural-invariant", format!("register {}: {} after {:?}", i, e, tail(log)));
            return false;
        }
    }
    true
}

fn tail(log: &[String]) -> Vec<String> {
    log.iter().rev().take(6).rev().cloned().collect()
}

/// run one history; returns false on the first violation
pub fn run_history(ctx: &mut Ctx, ops: &[Op], start: Option<(u64, u64)>) -> bool {
    let mut m = Machine::new();
    let mut log: Vec<String> = vec![];
    if let Some((kind, seed)) = start {
        let mut r = Rng::new(seed);
        for i in 0..2 {
            let (v, label) = start_value(kind + i, &mut r);
            m.model[i as usize] = dump(&v);
            m.regs[i as usize] = v;
            ctx.class(&format!("start:{}", label));
        }
    }
    for op in ops {
        ctx.ops(1);
        let before: Vec<M> = m.model.clone();
        let want = m.step_model(op);
        let got = m.step_real(op);
        log.push(crate::core::truncate(&format!("{:?}", op), 160));
        if want == Out::Panicked {
            ctx.class("op:rejected-by-model");
            // refused by the model: must fail (panic) and leave every register unchanged
            if got != Out::Panicked {
                ctx.fail(&format!("accepted-what-the-model-rejects:{}", opname(op)), format!("{:?} returned {:?}", tail(&log), got));
                return false;
            }
            m.model = before;
        } else if want != got {
            ctx.fail(&format!("result-differs:{}", opname(op)), format!("{:?}: real {:?} vs model {:?}", tail(&log), crate::core::truncate(&format!("{:?}", got), 300), crate::core::truncate(&format!("{:?}", want), 300)));
            return false;
        }
        ctx.class(&format!("op:{}", opname(op)));
        if !compare_all(ctx, &m, &log) {
            return false;
        }
    }
    true
}

pub fn opname(op: &Op) -> String {
    let s = format!("{:?}", op);
    s.split(|c: char| !c.is_ascii_alphanumeric()).next().unwrap_or("?").to_string()
}

/// a fixed list of concrete operations over two registers for the exhaustive short sequences
pub fn concrete_ops() -> Vec<Op> {
    use Op::*;
    let l = |s: &str| Lit::Json(s.to_string());
    let e = Vec::<PathEl>::new;
    let k = |s: &str| vec![PathEl::K(s.to_string())];
    let mut v = vec![
        Set(0, l("[1,\"a\",null]")),
        Set(0, l("{\"a\":1,\"b\":[2,{\"c\":\"x\"}]}")),
        Set(0, Lit::Built("[1,\"a\",null]".into())),
        Set(0, Lit::Built("{\"a\":1,\"b\":[2]}".into())),
        Set(0, Lit::Null),
        Set(0, l("[]")),
        Set(0, l("{}")),
        Clone(0, 1),
        Clone(1, 0),
        Take(0, 1),
        Swap(0, 1),
        CloneSub(0, k("b"), 1),
        CloneSub(0, vec![PathEl::I(1)], 1),
        TakeSub(0, k("b"), 1),
        TakeSub(0, vec![PathEl::I(0)], 1),
        SetSub(0, k("a"), Lit::Str("z".into())),
        SetSub(0, vec![PathEl::I(2)], l("[9]")),
        SetSub(1, vec![PathEl::K("b".into()), PathEl::I(1)], Lit::U(7)),
        IndexKeySet(0, "new".into(), Lit::U(1)),
        IndexIdxSet(0, 0, Lit::Bool(true)),
        IndexIdxSet(0, 5, Lit::Bool(true)),
        GetMutSet(0, PathEl::I(1), Lit::Null),
        GetMutSet(0, PathEl::K("a".into()), l("{\"n\":1}")),
        Push(0, e(), Lit::U(4)),
        Push(0, k("b"), l("[]")),
        Push(1, e(), Lit::Str("p".into())),
        Pop(0, e()),
        Insert(0, e(), 1, Lit::I(-1)),
        Insert(0, e(), 9, Lit::I(-1)),
        Remove(0, e(), 0),
        Remove(0, e(), 7),
        SwapRemove(0, e(), 0),
        Truncate(0, e(), 1),
        Clear(0, e()),
        RetainNonNull(0, e()),
        RetainMutEven(0, e()),
        SplitOff(0, e(), 1, 1),
        AppendFrom(0, 1),
        Drain(0, e(), 0, 2),
        ExtendFromWithin(0, e(), 0, 1),
        DrainBounds(0, e(), (1, 0), (0, 1)),
        ExtendFromWithinBounds(0, e(), (1, 0), (2, 0)),
        Resize(0, e(), 4, Lit::Str("r".into())),
        ResizeWith(0, e(), 2),
        IterMutSet(0, e(), Lit::U(0)),
        Reverse(0, e()),
        IntoIterCollect(0, 1),
        ExtendIter(0, e(), vec![Lit::U(1), Lit::Null]),
        ObjInsert(0, e(), "a".into(), Lit::U(2)),
        ObjInsert(0, e(), "zz".into(), l("[1]")),
        ObjRemove(0, e(), "a".into()),
        ObjRemove(0, e(), "nope".into()),
        ObjRemoveEntry(0, e(), "b".into()),
        ObjGetMutSet(0, e(), "a".into(), Lit::Null),
        EntryOrInsert(0, e(), "a".into(), Lit::U(5)),
        EntryOrInsert(0, e(), "q".into(), Lit::U(5)),
        EntryOrInsertWith(0, e(), "q".into(), Lit::U(6)),
        EntryOrDefault(0, e(), "d".into()),
        EntryAndModify(0, e(), "a".into(), Lit::Str("m".into())),
        EntryOccupiedInsert(0, e(), "a".into(), Lit::U(8)),
        EntryOccupiedRemove(0, e(), "a".into()),
        ObjRetainKeyLt(0, e(), "b".into()),
        ObjAppendFrom(0, 1),
        ObjIterMutSet(0, e(), Lit::Bool(false)),
        ObjClear(0, e()),
        ValueInsert(0, "v".into(), Lit::U(3)),
        ValueAppend(0, Lit::U(3)),
        Read(0, e()),
        Read(1, k("b")),
        ObjIndexMutSet(0, e(), "a".into(), Lit::U(9)),
        ObjIndexMutSet(0, e(), "fresh".into(), l("[0]")),
        ArrIndexMutSet(0, e(), 0, Lit::Null),
        ArrIndexMutSet(0, e(), 3, Lit::Null),
        EntryOrInsertWithKey(0, e(), "kk".into()),
        ValuesMutSet(0, e(), Lit::U(1)),
        IntoIterMixed(0, 1, 1, 1),
        ObjProbe(0, e(), "a".into()),
        ObjProbe(1, e(), "nope".into()),
        ArrProbe(0, e(), 1, 0, 2),
        ArrProbe(0, e(), 3, 1, 4),
        ValProbe(0, e(), "b".into(), 1),
        ValProbe(1, k("b"), "c".into(), 0),
    ];
    // the same array/object operations on register 1 (so that aliasing between 0 and 1 shows)
    v.extend(vec![Push(1, e(), Lit::U(4)), Pop(1, e()), ObjInsert(1, e(), "a".into(), Lit::U(2)), ObjRemove(1, e(), "a".into()), Clear(1, e()), ObjClear(1, e()), SetSub(1, k("a"), Lit::Null)]);
    v
}

/// Containers of a thousand and more elements from every origin (uniquely owned, shared with a
/// live clone, still inside the parsed arena, a typed `Array`/`Object` read by serde), through the
/// bulk operations that take a closure. The closures keep state (a de-duplication set, a keep mask
/// by position, a counter), as their documentation allows: "visiting each element exactly once in
/// the original order". Model: `Vec` with the same closure; the visit log is compared too.
fn big_containers(ctx: &mut Ctx, seed: u64) {
    use sonic_rs::{Array, Object};
    use std::collections::HashSet;
    let mut r = Rng::new(seed);
    let n = *r.pick(&[1000usize, 1023, 1024, 1025, 1500, 2048, 4097]);
    let dup_every = 2 + r.below(5) as usize;
    let items: Vec<u64> = (0..n).map(|i| if i % dup_every == 0 { (i / 7) as u64 } else { 1_000_000 + i as u64 }).collect();
    let text = format!("[{}]", items.iter().map(|x| x.to_string()).collect::<Vec<_>>().join(","));
    let origin = r.below(6);
    // the live sharers are kept until the end and compared with the untouched text
    let mut sharers: Vec<Value> = vec![];
    let mut arr: Array = match origin {
        0 => sonic_rs::from_str::<Array>(&text).unwrap(),
        1 => {
            let v: Value = sonic_rs::from_str(&text).unwrap();
            let a = v.clone().into_array().unwrap();
            sharers.push(v);
            a
        }
        2 => {
            let a: Array = items.iter().map(|x| Value::from(*x)).collect::<Vec<Value>>().into();
            sharers.push(Value::from(a.clone()));
            a
        }
        3 => items.iter().map(|x| Value::from(*x)).collect::<Vec<Value>>().into(),
        4 => {
            let v: Value = sonic_rs::from_str(&format!("{{\"a\":{}}}", text)).unwrap();
            let a = v["a"].clone().into_array().unwrap();
            sharers.push(v);
            a
        }
        _ => {
            #[derive(serde::Deserialize)]
            struct W {
                a: Array,
            }
            sonic_rs::from_str::<W>(&format!("{{\"a\":{}}}", text)).unwrap().a
        }
    };
    ctx.class(["big:typed-array", "big:clone-of-parsed", "big:owned-with-live-clone", "big:owned-unique", "big:subtree-clone", "big:struct-field"][origin as usize]);
    let mut model: Vec<u64> = items.clone();
    let as_model = |a: &Array| -> Vec<u64> { a.iter().map(|v| v.as_u64().unwrap_or(u64::MAX)).collect() };
    for step in 0..4 {
        let which = r.below(6);
        let (mut log_real, mut log_model): (Vec<u64>, Vec<u64>) = (vec![], vec![]);
        ctx.ops(1);
        match which {
            0 => {
                // de-duplication
                let (mut seen_r, mut seen_m) = (HashSet::new(), HashSet::new());
                arr.retain(|v| {
                    let x = v.as_u64().unwrap_or(u64::MAX);
                    log_real.push(x);
                    seen_r.insert(x)
                });
                model.retain(|x| {
                    log_model.push(*x);
                    seen_m.insert(*x)
                });
            }
            1 => {
                // keep mask by position
                let m = 2 + r.below(4);
                let (mut i, mut j) = (0u64, 0u64);
                arr.retain(|v| {
                    log_real.push(v.as_u64().unwrap_or(u64::MAX));
                    i += 1;
                    i % m != 0
                });
                model.retain(|x| {
                    log_model.push(*x);
                    j += 1;
                    j % m != 0
                });
            }
            2 => {
                // nothing rejected, one rejected at the very end
                let last = model.last().copied();
                let (mut i, mut j) = (0usize, 0usize);
                let len = model.len();
                arr.retain(|v| {
                    log_real.push(v.as_u64().unwrap_or(u64::MAX));
                    i += 1;
                    i != len
                });
                model.retain(|x| {
                    log_model.push(*x);
                    j += 1;
                    j != len
                });
                let _ = last;
            }
            3 => {
                let (mut i, mut j) = (0u64, 0u64);
                arr.retain_mut(|v| {
                    let x = v.as_u64().unwrap_or(u64::MAX);
                    log_real.push(x);
                    i += 1;
                    if i % 3 == 0 {
                        false
                    } else {
                        *v = Value::from(x ^ 1);
                        true
                    }
                });
                model.retain_mut(|x| {
                    log_model.push(*x);
                    j += 1;
                    if j % 3 == 0 {
                        false
                    } else {
                        *x ^= 1;
                        true
                    }
                });
            }
            4 => {
                let len = model.len();
                if len > 4 {
                    let a = r.below(len as u64 / 2) as usize;
                    let b = a + r.below((len - a) as u64) as usize;
                    let dr: Vec<u64> = arr.drain(a..b).map(|v| v.as_u64().unwrap_or(u64::MAX)).collect();
                    let dm: Vec<u64> = model.drain(a..b).collect();
                    log_real = dr;
                    log_model = dm;
                }
            }
            _ => {
                let len = model.len();
                let at = r.below(len as u64 + 1) as usize;
                let tail_r = arr.split_off(at);
                let tail_m = model.split_off(at);
                log_real = as_model(&tail_r);
                log_model = tail_m.clone();
                // put half of it back
                for x in tail_m.iter().take(tail_m.len() / 2) {
                    arr.push(Value::from(*x));
                    model.push(*x);
                }
            }
        }
        if log_real != log_model {
            let at = log_real.iter().zip(&log_model).position(|(a, b)| a != b).unwrap_or(log_real.len().min(log_model.len()));
            ctx.fail(&format!("big-visit-log-differs:op{}", which), format!("step {} on {} elements (origin {}): the closure saw {} elements, the Vec model's saw {}; first difference at visit {}", step, n, origin, log_real.len(), log_model.len(), at));
            return;
        }
        let got = as_model(&arr);
        if got != model {
            let at = got.iter().zip(&model).position(|(a, b)| a != b).unwrap_or(got.len().min(model.len()));
            ctx.fail(&format!("big-result-differs:op{}", which), format!("step {} on {} elements (origin {}): {} elements left, the Vec model has {}; first difference at index {}", step, n, origin, got.len(), model.len(), at));
            return;
        }
    }
    for s in &sharers {
        let t = sonic_rs::to_string(s).unwrap_or_default();
        if !(t == text || t == format!("{{\"a\":{}}}", text)) {
            ctx.fail("big-sharer-changed", format!("a value sharing the array's origin changed: now {} bytes", t.len()));
        }
    }
    // objects: retain with a stateful closure, against the association-list model
    let m = *r.pick(&[300usize, 1024, 2500]);
    let otext = format!("{{{}}}", (0..m).map(|i| format!("\"k{}\":{}", i, i % 9)).collect::<Vec<_>>().join(","));
    let mut obj: Object = if r.chance(1, 2) {
        sonic_rs::from_str::<Object>(&otext).unwrap()
    } else {
        let v: Value = sonic_rs::from_str(&otext).unwrap();
        let o = v.clone().into_object().unwrap();
        sharers.push(v);
        o
    };
    let mut omodel: Vec<(String, u64)> = (0..m).map(|i| (format!("k{}", i), (i % 9) as u64)).collect();
    // (members are visited "in unsorted (and unspecified) order": the closure only counts and
    // remembers which names it saw, the decision depends on the member alone)
    let mut seen: Vec<String> = vec![];
    obj.retain(|k, v| {
        seen.push(k.to_string());
        v.as_u64().unwrap_or(u64::MAX) % 3 != 0
    });
    omodel.retain(|(_, v)| *v % 3 != 0);
    ctx.ops(1);
    let calls = seen.len();
    seen.sort();
    seen.dedup();
    let mut got: Vec<(String, u64)> = obj.iter().map(|(k, v)| (k.to_string(), v.as_u64().unwrap_or(u64::MAX))).collect();
    got.sort();
    omodel.sort();
    if calls != m || seen.len() != m || got != omodel {
        ctx.fail("big-result-differs:Object::retain", format!("{} members: the closure was called {} times on {} distinct names, {} members left (model {})", m, calls, seen.len(), got.len(), omodel.len()));
    }
    ctx.class("mode:big-containers");
}

impl Check for C15 {
    fn id(&self) -> &'static str {
        "C15"
    }
    fn generate(&self, g: &GenParams, emit: &mut dyn FnMut(Case)) {
        // exhaustive short sequences over the concrete op list
        let n = concrete_ops().len() as u64;
        let maxlen: u32 = if g.tier == Tier::Quick { 2 } else { 3 };
        let maxlen = if g.scale < 0.5 { maxlen.min(2) } else { maxlen };
        let mut idx = 0u64;
        for len in 1..=maxlen {
            let total = n.pow(len);
            let batch = 512;
            let mut s = 0;
            while s < total {
                if g.mine(idx) && (g.scale >= 0.5 || idx % 4 == 0) {
                    emit(Case::with("exhaustive", vec![], &[len as i64, s as i64, batch.min(total - s) as i64]));
                }
                idx += 1;
                s += batch;
            }
        }
        let mut r = g.rng(15);
        for _ in 0..g.count(3_000, 100_000) {
            emit(Case::with("big", vec![], &[r.next() as i64]));
        }
        // random long histories from every kind of starting value
        let n = g.count(60_000, 3_000_000);
        for k in 0..n {
            emit(Case::with("history", vec![], &[r.next() as i64, 200, k as i64 % 7]));
        }
    }
    fn exec(&self, ctx: &mut Ctx, c: &Case) {
        ctx.nontrivial();
        match c.entry.as_str() {
            "exhaustive" => {
                let ops = concrete_ops();
                let n = ops.len() as u64;
                let (len, start, cnt) = (c.p(0) as u32, c.p(1) as u64, c.p(2) as u64);
                for s in start..start + cnt {
                    let mut x = s;
                    let mut seq = vec![];
                    for _ in 0..len {
                        seq.push(ops[(x % n) as usize].clone());
                        x /= n;
                    }
                    seq.reverse();
                    if !run_history(ctx, &seq, None) {
                        break;
                    }
                }
                ctx.class("mode:exhaustive-short-sequences");
                ctx.sample("exhaustive");
            }
            "big" => {
                big_containers(ctx, c.p(0) as u64);
                ctx.sample("big");
            }
            _ => {
                let mut r = Rng::new(c.p(0) as u64);
                let mut m = Machine::new();
                // the ops are drawn against the evolving model, so generate and run in lock-step
                let mut log: Vec<String> = vec![];
                let kind = c.p(2) as u64;
                for i in 0..2u64 {
                    let (v, label) = start_value(kind + i, &mut r);
                    m.model[i as usize] = dump(&v);
                    m.regs[i as usize] = v;
                    ctx.class(&format!("start:{}", label));
                }
                let mut after_clone_mutation = false;
                let mut cloned = false;
                for _ in 0..c.p(1) {
                    let op = rand_op(&mut r, &m.model);
                    if matches!(op, Op::Clone(..) | Op::CloneSub(..)) {
                        cloned = true;
                    } else if cloned && !matches!(op, Op::Read(..)) {
                        after_clone_mutation = true;
                    }
                    ctx.ops(1);
                    let before = m.model.clone();
                    let want = m.step_model(&op);
                    let got = m.step_real(&op);
                    log.push(crate::core::truncate(&format!("{:?}", op), 160));
                    if want == Out::Panicked {
                        ctx.class("op:rejected-by-model");
                        if got != Out::Panicked {
                            ctx.fail(&format!("accepted-what-the-model-rejects:{}", opname(&op)), format!("{:?} returned {:?}", tail(&log), got));
                            return;
                        }
                        m.model = before;
                    } else if want != got {
                        ctx.fail(&format!("result-differs:{}", opname(&op)), format!("{:?}: real {} vs model {}", tail(&log), crate::core::truncate(&format!("{:?}", got), 300), crate::core::truncate(&format!("{:?}", want), 300)));
                        return;
                    }
                    ctx.class(&format!("op:{}", opname(&op)));
                    if !compare_all(ctx, &m, &log) {
                        return;
                    }
                }
                if after_clone_mutation {
                    ctx.class("history:mutation-after-clone");
                }
                ctx.class("mode:random-history");
                ctx.sample("history");
            }
        }
    }
    fn required_classes(&self, _b: &str, _t: Tier) -> Vec<&'static str> {
        vec![
            "mode:exhaustive-short-sequences",
            "mode:random-history",
            "mode:big-containers",
            "history:mutation-after-clone",
            "op:rejected-by-model",
            "start:parsed-root",
            "start:parsed-subtree-clone",
            "start:parsed-subtree-take",
            "start:built-owned",
            "start:embedded",
            "op:Drain",
            "op:EntryOccupiedInsert",
            "op:SplitOff",
            "op:ObjAppendFrom",
            "op:IntoIterCollect",
        ]
    }
}
