//! C15 — the mutable DOM matches a plain array/map model under every operation history.
use sonic_rs::{JsonValueMutTrait, Value};

use crate::core::{Case, Check, Ctx, GenParams, Tier};
use crate::mon::machine::*;
use crate::rng::Rng;

pub struct C15;

/// starting values: (label, how to build)
pub fn start_value(kind: u64, r: &mut Rng) -> (Value, &'static str) {
    let doc = *r.pick(LIT_JSON);
    match kind % 7 {
        0 => (sonic_rs::from_str::<Value>(doc).unwrap(), "parsed-root"),
        1 => {
            // parsed subtree obtained by clone
            let w: Value = sonic_rs::from_str(&format!("{{\"w\":[0,{}]}}", doc)).unwrap();
            (w["w"][1].clone(), "parsed-subtree-clone")
        }
        2 => {
            // parsed subtree obtained by take
            let mut w: Value = sonic_rs::from_str(&format!("[{},1]", doc)).unwrap();
            let t = w.pointer_mut(&sonic_rs::pointer![0]).map(|x| x.take()).unwrap_or_default();
            (t, "parsed-subtree-take")
        }
        3 => (build(&sonic_rs::from_str::<Value>(doc).unwrap()), "built-owned"),
        4 => (sonic_rs::to_value(&serde_json::from_str::<serde_json::Value>(doc).unwrap()).unwrap(), "to_value"),
        5 => (sonic_rs::json!({"a": [1, 2, {"b": null}], "c": "s"}), "json-macro"),
        _ => {
            // embedded in a typed structure (shares the deserializer's arena)
            let v: Vec<Value> = sonic_rs::from_str(&format!("[{},{}]", doc, doc)).unwrap();
            (v.into_iter().nth(1).unwrap(), "embedded")
        }
    }
}

fn compare_all(ctx: &mut Ctx, m: &Machine, log: &[String]) -> bool {
    for i in 0..NREG {
        let d = dump(&m.regs[i]);
        if d != m.model[i] {
            ctx.fail(
                "contents-differ",
                format!("register {} is {} but the model says {} after {:?}", i, crate::core::truncate(&to_json(&d), 300), crate::core::truncate(&to_json(&m.model[i]), 300), tail(log)),
            );
            return false;
        }
        #[cfg(feature = "hooks")]
        if let Err(e) = m.regs[i].verif_check() {
            ctx.fail("structural-invariant", format!("register {}: {} after {:?}", i, e, tail(log)));
            return false;
        }
    }
    true
}

fn tail(log: &[String]) -> Vec<String> {
    log.iter().rev().take(6).rev().cloned().collect()
}

/// run one history; returns false on the first violation
pub fn run_history(ctx: &mut Ctx, ops: &[Op], start: Option<(u64, u64)>) -> bool {
    let mut m = Machine::new();
    let mut log: Vec<String> = vec![];
    if let Some((kind, seed)) = start {
        let mut r = Rng::new(seed);
        for i in 0..2 {
            let (v, label) = start_value(kind + i, &mut r);
            m.model[i as usize] = dump(&v);
            m.regs[i as usize] = v;
            ctx.class(&format!("start:{}", label));
        }
    }
    for op in ops {
        ctx.ops(1);
        let before: Vec<M> = m.model.clone();
        let want = m.step_model(op);
        let got = m.step_real(op);
        log.push(crate::core::truncate(&format!("{:?}", op), 160));
        if want == Out::Panicked {
            ctx.class("op:rejected-by-model");
            // refused by the model: must fail (panic) and leave every register unchanged
            if got != Out::Panicked {
                ctx.fail(&format!("accepted-what-the-model-rejects:{}", opname(op)), format!("{:?} returned {:?}", tail(&log), got));
                return false;
            }
            m.model = before;
        } else if want != got {
            ctx.fail(&format!("result-differs:{}", opname(op)), format!("{:?}: real {:?} vs model {:?}", tail(&log), crate::core::truncate(&format!("{:?}", got), 300), crate::core::truncate(&format!("{:?}", want), 300)));
            return false;
        }
        ctx.class(&format!("op:{}", opname(op)));
        if !compare_all(ctx, &m, &log) {
            return false;
        }
    }
    true
}

pub fn opname(op: &Op) -> String {
    let s = format!("{:?}", op);
    s.split(|c: char| !c.is_ascii_alphanumeric()).next().unwrap_or("?").to_string()
}

/// a fixed list of concrete operations over two registers for the exhaustive short sequences
pub fn concrete_ops() -> Vec<Op> {
    use Op::*;
    let l = |s: &str| Lit::Json(s.to_string());
    let e = Vec::<PathEl>::new;
    let k = |s: &str| vec![PathEl::K(s.to_string())];
    let mut v = vec![
        Set(0, l("[1,\"a\",null]")),
        Set(0, l("{\"a\":1,\"b\":[2,{\"c\":\"x\"}]}")),
        Set(0, Lit::Built("[1,\"a\",null]".into())),
        Set(0, Lit::Built("{\"a\":1,\"b\":[2]}".into())),
        Set(0, Lit::Null),
        Set(0, l("[]")),
        Set(0, l("{}")),
        Clone(0, 1),
        Clone(1, 0),
        Take(0, 1),
        Swap(0, 1),
        CloneSub(0, k("b"), 1),
        CloneSub(0, vec![PathEl::I(1)], 1),
        TakeSub(0, k("b"), 1),
        TakeSub(0, vec![PathEl::I(0)], 1),
        SetSub(0, k("a"), Lit::Str("z".into())),
        SetSub(0, vec![PathEl::I(2)], l("[9]")),
        SetSub(1, vec![PathEl::K("b".into()), PathEl::I(1)], Lit::U(7)),
        IndexKeySet(0, "new".into(), Lit::U(1)),
        IndexIdxSet(0, 0, Lit::Bool(true)),
        IndexIdxSet(0, 5, Lit::Bool(true)),
        GetMutSet(0, PathEl::I(1), Lit::Null),
        GetMutSet(0, PathEl::K("a".into()), l("{\"n\":1}")),
        Push(0, e(), Lit::U(4)),
        Push(0, k("b"), l("[]")),
        Push(1, e(), Lit::Str("p".into())),
        Pop(0, e()),
        Insert(0, e(), 1, Lit::I(-1)),
        Insert(0, e(), 9, Lit::I(-1)),
        Remove(0, e(), 0),
        Remove(0, e(), 7),
        SwapRemove(0, e(), 0),
        Truncate(0, e(), 1),
        Clear(0, e()),
        RetainNonNull(0, e()),
        RetainMutEven(0, e()),
        SplitOff(0, e(), 1, 1),
        AppendFrom(0, 1),
        Drain(0, e(), 0, 2),
        ExtendFromWithin(0, e(), 0, 1),
        Resize(0, e(), 4, Lit::Str("r".into())),
        ResizeWith(0, e(), 2),
        IterMutSet(0, e(), Lit::U(0)),
        Reverse(0, e()),
        IntoIterCollect(0, 1),
        ExtendIter(0, e(), vec![Lit::U(1), Lit::Null]),
        ObjInsert(0, e(), "a".into(), Lit::U(2)),
        ObjInsert(0, e(), "zz".into(), l("[1]")),
        ObjRemove(0, e(), "a".into()),
        ObjRemove(0, e(), "nope".into()),
        ObjRemoveEntry(0, e(), "b".into()),
        ObjGetMutSet(0, e(), "a".into(), Lit::Null),
        EntryOrInsert(0, e(), "a".into(), Lit::U(5)),
        EntryOrInsert(0, e(), "q".into(), Lit::U(5)),
        EntryOrInsertWith(0, e(), "q".into(), Lit::U(6)),
        EntryOrDefault(0, e(), "d".into()),
        EntryAndModify(0, e(), "a".into(), Lit::Str("m".into())),
        EntryOccupiedInsert(0, e(), "a".into(), Lit::U(8)),
        EntryOccupiedRemove(0, e(), "a".into()),
        ObjRetainKeyLt(0, e(), "b".into()),
        ObjAppendFrom(0, 1),
        ObjIterMutSet(0, e(), Lit::Bool(false)),
        ObjClear(0, e()),
        ValueInsert(0, "v".into(), Lit::U(3)),
        ValueAppend(0, Lit::U(3)),
        Read(0, e()),
        Read(1, k("b")),
        ObjIndexMutSet(0, e(), "a".into(), Lit::U(9)),
        ObjIndexMutSet(0, e(), "fresh".into(), l("[0]")),
        ArrIndexMutSet(0, e(), 0, Lit::Null),
        ArrIndexMutSet(0, e(), 3, Lit::Null),
        EntryOrInsertWithKey(0, e(), "kk".into()),
        ValuesMutSet(0, e(), Lit::U(1)),
        IntoIterMixed(0, 1, 1, 1),
        ObjProbe(0, e(), "a".into()),
        ObjProbe(1, e(), "nope".into()),
        ArrProbe(0, e(), 1, 0, 2),
        ArrProbe(0, e(), 3, 1, 4),
        ValProbe(0, e(), "b".into(), 1),
        ValProbe(1, k("b"), "c".into(), 0),
    ];
    // the same array/object operations on register 1 (so that aliasing between 0 and 1 shows)
    v.extend(vec![Push(1, e(), Lit::U(4)), Pop(1, e()), ObjInsert(1, e(), "a".into(), Lit::U(2)), ObjRemove(1, e(), "a".into()), Clear(1, e()), ObjClear(1, e()), SetSub(1, k("a"), Lit::Null)]);
    v
}

impl Check for C15 {
    fn id(&self) -> &'static str {
        "C15"
    }
    fn generate(&self, g: &GenParams, emit: &mut dyn FnMut(Case)) {
        // exhaustive short sequences over the concrete op list
        let n = concrete_ops().len() as u64;
        let maxlen: u32 = if g.tier == Tier::Quick { 2 } else { 3 };
        let maxlen = if g.scale < 0.5 { maxlen.min(2) } else { maxlen };
        let mut idx = 0u64;
        for len in 1..=maxlen {
            let total = n.pow(len);
            let batch = 512;
            let mut s = 0;
            while s < total {
                if g.mine(idx) && (g.scale >= 0.5 || idx % 4 == 0) {
                    emit(Case::with("exhaustive", vec![], &[len as i64, s as i64, batch.min(total - s) as i64]));
                }
                idx += 1;
                s += batch;
            }
        }
        // random long histories from every kind of starting value
        let mut r = g.rng(15);
        let n = g.count(60_000, 3_000_000);
        for k in 0..n {
            emit(Case::with("history", vec![], &[r.next() as i64, 200, k as i64 % 7]));
        }
    }
    fn exec(&self, ctx: &mut Ctx, c: &Case) {
        ctx.nontrivial();
        match c.entry.as_str() {
            "exhaustive" => {
                let ops = concrete_ops();
                let n = ops.len() as u64;
                let (len, start, cnt) = (c.p(0) as u32, c.p(1) as u64, c.p(2) as u64);
                for s in start..start + cnt {
                    let mut x = s;
                    let mut seq = vec![];
                    for _ in 0..len {
                        seq.push(ops[(x % n) as usize].clone());
                        x /= n;
                    }
                    seq.reverse();
                    if !run_history(ctx, &seq, None) {
                        break;
                    }
                }
                ctx.class("mode:exhaustive-short-sequences");
                ctx.sample("exhaustive");
            }
            _ => {
                let mut r = Rng::new(c.p(0) as u64);
                let mut m = Machine::new();
                // the ops are drawn against the evolving model, so generate and run in lock-step
                let mut log: Vec<String> = vec![];
                let kind = c.p(2) as u64;
                for i in 0..2u64 {
                    let (v, label) = start_value(kind + i, &mut r);
                    m.model[i as usize] = dump(&v);
                    m.regs[i as usize] = v;
                    ctx.class(&format!("start:{}", label));
                }
                let mut after_clone_mutation = false;
                let mut cloned = false;
                for _ in 0..c.p(1) {
                    let op = rand_op(&mut r, &m.model);
                    if matches!(op, Op::Clone(..) | Op::CloneSub(..)) {
                        cloned = true;
                    } else if cloned && !matches!(op, Op::Read(..)) {
                        after_clone_mutation = true;
                    }
                    ctx.ops(1);
                    let before = m.model.clone();
                    let want = m.step_model(&op);
                    let got = m.step_real(&op);
                    log.push(crate::core::truncate(&format!("{:?}", op), 160));
                    if want == Out::Panicked {
                        ctx.class("op:rejected-by-model");
                        if got != Out::Panicked {
                            ctx.fail(&format!("accepted-what-the-model-rejects:{}", opname(&op)), format!("{:?} returned {:?}", tail(&log), got));
                            return;
                        }
                        m.model = before;
                    } else if want != got {
                        ctx.fail(&format!("result-differs:{}", opname(&op)), format!("{:?}: real {} vs model {}", tail(&log), crate::core::truncate(&format!("{:?}", got), 300), crate::core::truncate(&format!("{:?}", want), 300)));
                        return;
                    }
                    ctx.class(&format!("op:{}", opname(&op)));
                    if !compare_all(ctx, &m, &log) {
                        return;
                    }
                }
                if after_clone_mutation {
                    ctx.class("history:mutation-after-clone");
                }
                ctx.class("mode:random-history");
                ctx.sample("history");
            }
        }
    }
    fn required_classes(&self, _b: &str, _t: Tier) -> Vec<&'static str> {
        vec![
            "mode:exhaustive-short-sequences",
            "mode:random-history",
            "history:mutation-after-clone",
            "op:rejected-by-model",
            "start:parsed-root",
            "start:parsed-subtree-clone",
            "start:parsed-subtree-take",
            "start:built-owned",
            "start:embedded",
            "op:Drain",
            "op:EntryOccupiedInsert",
            "op:SplitOff",
            "op:ObjAppendFrom",
            "op:IntoIterCollect",
        ]
    }
}
