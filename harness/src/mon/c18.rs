//! C18 — lazily cached decodings are correct and leak-free under concurrent readers.
use std::collections::HashSet;
use std::sync::{Arc, Barrier};

use faststr::FastStr;
use sonic_rs::JsonNumberTrait;
use sonic_rs::{JsonContainerTrait, JsonValueTrait, LazyValue, OwnedLazyValue};

use crate::core::{Case, Check, Ctx, GenParams, Tier};
use crate::ledger;
use crate::rng::Rng;

pub struct C18;

// (the decoded text is longer than the 24 bytes a FastStr keeps inline)
const LAZY_DOC: &str = r#"{"s":"esc\n\"aped\" é 😀 tail, and on beyond what is kept inline","t":"plain"}"#;
const LAZY_WANT: &str = "esc\n\"aped\" é 😀 tail, and on beyond what is kept inline";
const OWNED_DOC: &str = r#"{"a":[1,"x\ty",{"k":null}],"b":"v\\w","c":{"d":[true]}}"#;

const NUM_DOC: &str = "-12345.5e-3";
const STR_DOC: &str = r#""e\tsc\"aped \u00e9""#;
const STR_WANT: &str = "e\tsc\"aped \u{e9}";

/// the document behind the shared OwnedLazyValue of a scenario
fn owned_doc(name: &str) -> &'static str {
    if name.starts_with("owned-num:") {
        NUM_DOC
    } else if name.starts_with("owned-str:") {
        STR_DOC
    } else {
        OWNED_DOC
    }
}

/// what one reader thread does; returns an error text when a result is wrong
#[derive(Clone, Copy, Debug)]
enum Act {
    LazyAsStr,
    LazyCloneAsStrDrop,
    LazyCloneOnly,
    LazyCloneFrom,
    LazyReadThenIntoOwned,
    OwnedGetA,
    OwnedGetB,
    OwnedCloneGet,
    OwnedAsObject,
    NumF64,
    NumNumber,
    NumIntsThenClone,
    StrAsStr,
    StrCloneAsStr,
}

fn act_lazy(a: Act, lv: &LazyValue) -> Result<(), String> {
    match a {
        Act::LazyAsStr => match lv.as_str() {
            Some(s) if s == LAZY_WANT => Ok(()),
            other => Err(format!("as_str = {:?}", other)),
        },
        Act::LazyCloneAsStrDrop => {
            let c = lv.clone();
            let r = match c.as_str() {
                Some(s) if s == LAZY_WANT => Ok(()),
                other => Err(format!("clone.as_str = {:?}", other)),
            };
            drop(c);
            r
        }
        Act::LazyCloneOnly => {
            let c = lv.clone();
            drop(c);
            Ok(())
        }
        Act::LazyReadThenIntoOwned => {
            // conversion by value of a lazy string whose decoding is (being) cached: of a clone
            // read first, of a clone of the shared value, and of a clone made after the read
            let c = lv.clone();
            if c.as_str() != Some(LAZY_WANT) {
                return Err(format!("clone.as_str = {:?}", c.as_str()));
            }
            let c2 = c.clone();
            let ov = OwnedLazyValue::from(c);
            let ov2 = OwnedLazyValue::from(lv.clone());
            for (name, o) in [("read clone", &ov), ("unread clone", &ov2)] {
                match o.as_str() {
                    Some(s) if s == LAZY_WANT => {}
                    other => return Err(format!("OwnedLazyValue::from({}).as_str = {:?}", name, other)),
                }
            }
            if c2.as_str() != Some(LAZY_WANT) {
                return Err(format!("the clone made after the read, once its origin was converted: as_str = {:?}", c2.as_str()));
            }
            let ov3 = OwnedLazyValue::from(c2);
            drop(ov);
            match ov3.as_str() {
                Some(s) if s == LAZY_WANT => Ok(()),
                other => Err(format!("OwnedLazyValue::from(clone made after the read).as_str = {:?}", other)),
            }
        }
        Act::LazyCloneFrom => {
            // a value that was already read is overwritten in place with the shared one (which
            // another thread may be decoding right now), and the other way round
            const OTHER: &str = r#"{"o":"first\tvalue \u00e9"}"#;
            const OTHER_WANT: &str = "first\tvalue \u{e9}";
            let Ok(mut dst) = sonic_rs::get(OTHER, &["o"]) else { return Err("get(OTHER) failed".into()) };
            if dst.as_str() != Some(OTHER_WANT) {
                return Err(format!("other.as_str = {:?}", dst.as_str()));
            }
            dst.clone_from(lv);
            if dst.as_raw_str() != lv.as_raw_str() {
                return Err(format!("clone_from: raw text {:?}", dst.as_raw_str()));
            }
            match dst.as_str() {
                Some(s) if s == LAZY_WANT => {}
                other => return Err(format!("as_str after clone_from(shared) = {:?}", other)),
            }
            let Ok(fresh) = sonic_rs::get(OTHER, &["o"]) else { return Err("get(OTHER) failed".into()) };
            let mut c = lv.clone();
            if c.as_str() != Some(LAZY_WANT) {
                return Err(format!("clone.as_str = {:?}", c.as_str()));
            }
            c.clone_from(&fresh);
            match c.as_str() {
                Some(s) if s == OTHER_WANT => {}
                other => return Err(format!("as_str after clone_from(unread) = {:?}", other)),
            }
            let Ok(plain) = sonic_rs::get(OTHER, &[] as &[&str]) else { return Err("get(OTHER, []) failed".into()) };
            c.clone_from(&plain);
            if c.as_str().is_some() || c.as_raw_str() != OTHER {
                return Err(format!("after clone_from(object): as_str {:?}, raw {:?}", c.as_str(), c.as_raw_str()));
            }
            Ok(())
        }
        _ => Ok(()),
    }
}

fn act_owned(a: Act, ov: &OwnedLazyValue) -> Result<(), String> {
    match a {
        Act::OwnedGetA => match ov.get("a").and_then(|x| x.get(1)).and_then(|x| x.as_str().map(|s| s.to_string())) {
            Some(s) if s == "x\ty" => Ok(()),
            other => Err(format!("get(a)[1] = {:?}", other)),
        },
        Act::OwnedGetB => match ov.get("b").and_then(|x| x.as_str().map(|s| s.to_string())) {
            Some(s) if s == "v\\w" => Ok(()),
            other => Err(format!("get(b) = {:?}", other)),
        },
        Act::OwnedCloneGet => {
            let c = ov.clone();
            let r = match c.get("c").and_then(|x| x.get("d")).and_then(|x| x.get(0)).and_then(|x| x.as_bool()) {
                Some(true) => Ok(()),
                other => Err(format!("clone.get(c.d.0) = {:?}", other)),
            };
            let s = sonic_rs::to_string(&c).unwrap_or_default();
            drop(c);
            if s != OWNED_DOC {
                return Err(format!("clone serialises to {:?}", s));
            }
            r
        }
        Act::OwnedAsObject => match ov.as_object().map(|o| o.len()) {
            Some(3) => Ok(()),
            other => Err(format!("as_object().len() = {:?}", other)),
        },
        Act::NumF64 => match ov.as_f64() {
            Some(f) if f.to_bits() == (-12.3455f64).to_bits() => Ok(()),
            other => Err(format!("as_f64 = {:?}", other)),
        },
        Act::NumNumber => match (ov.as_number().and_then(|n| n.as_f64()), ov.is_f64(), ov.as_raw_number().map(|r| r.as_str().to_string())) {
            (Some(f), true, Some(r)) if f.to_bits() == (-12.3455f64).to_bits() && r == NUM_DOC => Ok(()),
            other => Err(format!("as_number/is_f64/as_raw_number = {:?}", other)),
        },
        Act::NumIntsThenClone => {
            if ov.as_i64().is_some() || ov.as_u64().is_some() {
                return Err(format!("integer accessors on a float: {:?} {:?}", ov.as_i64(), ov.as_u64()));
            }
            let c = ov.clone();
            let r = match c.as_f64() {
                Some(f) if f.to_bits() == (-12.3455f64).to_bits() => Ok(()),
                other => Err(format!("clone.as_f64 = {:?}", other)),
            };
            let s = sonic_rs::to_string(&c).unwrap_or_default();
            drop(c);
            if s != NUM_DOC {
                return Err(format!("clone serialises to {:?}", s));
            }
            r
        }
        Act::StrAsStr => match ov.as_str() {
            Some(s) if s == STR_WANT => Ok(()),
            other => Err(format!("as_str = {:?}", other)),
        },
        Act::StrCloneAsStr => {
            let c = ov.clone();
            let r = match c.as_str() {
                Some(s) if s == STR_WANT => Ok(()),
                other => Err(format!("clone.as_str = {:?}", other)),
            };
            let s = sonic_rs::to_string(&c).unwrap_or_default();
            drop(c);
            if s != STR_DOC {
                return Err(format!("clone serialises to {:?}", s));
            }
            r
        }
        _ => Ok(()),
    }
}

const SCENARIOS: &[(&str, bool, &[Act])] = &[
    ("lazy:2-readers", true, &[Act::LazyAsStr, Act::LazyAsStr]),
    ("lazy:reader+clone-reader", true, &[Act::LazyAsStr, Act::LazyCloneAsStrDrop]),
    ("lazy:3-readers-and-clone", true, &[Act::LazyAsStr, Act::LazyCloneAsStrDrop, Act::LazyAsStr]),
    ("lazy:reader+clone-only", true, &[Act::LazyAsStr, Act::LazyCloneOnly]),
    ("lazy:reader+clone_from", true, &[Act::LazyAsStr, Act::LazyCloneFrom]),
    ("lazy:reader+into-owned", true, &[Act::LazyAsStr, Act::LazyReadThenIntoOwned]),
    ("owned:2-getters", false, &[Act::OwnedGetA, Act::OwnedGetB]),
    ("owned:getter+clone", false, &[Act::OwnedGetA, Act::OwnedCloneGet]),
    ("owned:3-mixed", false, &[Act::OwnedGetB, Act::OwnedCloneGet, Act::OwnedAsObject]),
    ("owned-num:2-readers", false, &[Act::NumF64, Act::NumNumber]),
    ("owned-num:3-readers-and-clone", false, &[Act::NumF64, Act::NumIntsThenClone, Act::NumNumber]),
    ("owned-str:reader+clone-reader", false, &[Act::StrAsStr, Act::StrCloneAsStr]),
];

#[cfg(feature = "hooks")]
fn run_scheduled(ctx: &mut Ctx, scen: usize, schedule: Vec<u8>, fail_budget: u32, seen: &mut HashSet<Vec<crate::sched::Event>>, judge_ledger: bool) -> bool {
    let mut d = vec![];
    run_scheduled_d(ctx, scen, schedule, fail_budget, seen, judge_ledger, &mut d)
}

#[cfg(feature = "hooks")]
fn run_scheduled_d(ctx: &mut Ctx, scen: usize, schedule: Vec<u8>, fail_budget: u32, seen: &mut HashSet<Vec<crate::sched::Event>>, judge_ledger: bool, decisions: &mut Vec<(u8, u8)>) -> bool {
    use crate::sched::Sched;
    let (name, lazy, acts) = SCENARIOS[scen % SCENARIOS.len()];
    let n = acts.len();
    let mut errors: Vec<String> = vec![];
    let events;
    let before;
    let after;
    {
        let sched = Sched::new(n, schedule.clone(), fail_budget);
        sonic_rs::verif::set_hook(Some(sched.clone()));
        // the ledger window: creation of the shared value .. its drop
        before = ledger::snap();
        let fs = FastStr::new(if lazy { LAZY_DOC } else { owned_doc(name) });
        if lazy {
            let lv = sonic_rs::get_from_faststr(&fs, &["s"]).expect("valid doc");
            std::thread::scope(|s| {
                let hs: Vec<_> = (0..n)
                    .map(|i| {
                        let sched = sched.clone();
                        let lv = &lv;
                        let a = acts[i];
                        s.spawn(move || {
                            sched.enter(i);
                            let r = std::panic::catch_unwind(std::panic::AssertUnwindSafe(|| act_lazy(a, lv)));
                            sched.leave();
                            match r {
                                Ok(r) => r,
                                Err(_) => Err("reader panicked".to_string()),
                            }
                        })
                    })
                    .collect();
                for (i, h) in hs.into_iter().enumerate() {
                    if let Ok(Err(e)) | Err(e) = h.join().map_err(|_| "join failed".to_string()) {
                        errors.push(format!("thread {}: {}", i, e));
                    }
                }
            });
            // after the race the value still reads correctly and is dropped with its decoding
            sonic_rs::verif::set_hook(None);
            if lv.as_str() != Some(LAZY_WANT) {
                errors.push(format!("after the race as_str = {:?}", lv.as_str()));
            }
            drop(lv);
        } else {
            let ov: OwnedLazyValue = sonic_rs::from_str(owned_doc(name)).expect("valid doc");
            std::thread::scope(|s| {
                let hs: Vec<_> = (0..n)
                    .map(|i| {
                        let sched = sched.clone();
                        let ov = &ov;
                        let a = acts[i];
                        s.spawn(move || {
                            sched.enter(i);
                            let r = std::panic::catch_unwind(std::panic::AssertUnwindSafe(|| act_owned(a, ov)));
                            sched.leave();
                            match r {
                                Ok(r) => r,
                                Err(_) => Err("reader panicked".to_string()),
                            }
                        })
                    })
                    .collect();
                for (i, h) in hs.into_iter().enumerate() {
                    if let Ok(Err(e)) | Err(e) = h.join().map_err(|_| "join failed".to_string()) {
                        errors.push(format!("thread {}: {}", i, e));
                    }
                }
            });
            sonic_rs::verif::set_hook(None);
            if sonic_rs::to_string(&ov).unwrap_or_default() != owned_doc(name) {
                errors.push("after the race the value does not serialise to its source".into());
            }
            drop(ov);
        }
        drop(fs);
        after = ledger::snap();
        *decisions = sched.decisions();
        let (ev, injected) = sched.events();
        if injected > 0 {
            ctx.class("sched:weak-cas-failure-injected");
        }
        events = ev;
    }
    let _ = crate::core::take_panic();
    ctx.ops(1);
    ctx.class(&format!("scenario:{}", name));
    if !errors.is_empty() {
        ctx.fail(&format!("reader-wrong-result:{}", name), format!("schedule {:?} (weak-CAS failures allowed: {}): {:?} ; events {:?}", schedule, fail_budget, errors, events.iter().map(|e| (e.thread, e.op, e.seen_null, e.ok)).collect::<Vec<_>>()));
        return false;
    }
    // at most one decoding is published; every other decoding is a loser
    let published = events.iter().filter(|e| e.op != 0 && e.ok).count();
    if published > acts.len() * 3 {
        ctx.fail(&format!("too-many-publications:{}", name), format!("{} successful publications", published));
    }
    let is_new = seen.insert(events);
    if is_new {
        ctx.class("sched:distinct-event-sequence");
    }
    // every decoding allocated was freed exactly once: the heap is back where it was
    if ledger::enabled() && judge_ledger && errors.is_empty() && after.blocks != before.blocks {
        ctx.fail(&format!("decoding-not-freed-exactly-once:{}", name), format!("live heap blocks {} -> {} after the shared value was dropped (schedule {:?})", before.blocks, after.blocks, schedule));
        return false;
    }
    true
}

/// free-running threads (real races): correctness + the sanitizer / ledger watch memory
fn run_free(ctx: &mut Ctx, seed: u64, nthreads: usize, iters: usize) {
    let mut r = Rng::new(seed);
    let mut bad: Vec<String> = vec![];
    let before = ledger::snap();
    for it in 0..iters {
        let scen = if iters == SCENARIOS.len() { it } else { r.below(SCENARIOS.len() as u64) as usize };
        let (name, lazy, acts) = SCENARIOS[scen];
        let barrier = Arc::new(Barrier::new(nthreads));
        let fs = FastStr::new(if lazy { LAZY_DOC } else { owned_doc(name) });
        if lazy {
            let lv = sonic_rs::get_from_faststr(&fs, &["s"]).expect("valid");
            std::thread::scope(|s| {
                let hs: Vec<_> = (0..nthreads)
                    .map(|i| {
                        let lv = &lv;
                        let b = barrier.clone();
                        let a = acts[i % acts.len()];
                        s.spawn(move || {
                            b.wait();
                            act_lazy(a, lv)
                        })
                    })
                    .collect();
                for h in hs {
                    match h.join() {
                        Ok(Ok(())) => {}
                        Ok(Err(e)) => bad.push(format!("{} iteration {}: {}", name, it, e)),
                        Err(_) => bad.push(format!("{} iteration {}: reader panicked", name, it)),
                    }
                }
            });
        } else {
            let ov: OwnedLazyValue = sonic_rs::from_str(owned_doc(name)).expect("valid");
            std::thread::scope(|s| {
                let hs: Vec<_> = (0..nthreads)
                    .map(|i| {
                        let ov = &ov;
                        let b = barrier.clone();
                        let a = acts[i % acts.len()];
                        s.spawn(move || {
                            b.wait();
                            act_owned(a, ov)
                        })
                    })
                    .collect();
                for h in hs {
                    match h.join() {
                        Ok(Ok(())) => {}
                        Ok(Err(e)) => bad.push(format!("{} iteration {}: {}", name, it, e)),
                        Err(_) => bad.push(format!("{} iteration {}: reader panicked", name, it)),
                    }
                }
            });
        }
        ctx.ops(nthreads as u64);
        if bad.len() > 3 {
            break;
        }
    }
    let _ = crate::core::take_panic();
    if !bad.is_empty() {
        ctx.fail("reader-wrong-result:free-running", format!("{:?}", bad));
        return;
    }
    let after = ledger::snap();
    if ledger::enabled() && after.blocks > before.blocks + 4 {
        ctx.fail("decoding-not-freed-exactly-once:free-running", format!("live heap blocks {} -> {} after {} iterations", before.blocks, after.blocks, iters));
    }
    ctx.class("mode:free-running");
}

impl Check for C18 {
    fn id(&self) -> &'static str {
        "C18"
    }
    fn generate(&self, g: &GenParams, emit: &mut dyn FnMut(Case)) {
        if g.build.starts_with("miri") {
            // Miri is the scheduler here: it preempts threads at its own rate and makes
            // compare_exchange_weak fail spuriously; every scenario, one or two iterations
            let mut r = g.rng(18);
            let n = if g.tier == Tier::Quick { 2 } else { 8 };
            for _ in 0..n {
                emit(Case::with("free", vec![], &[r.next() as i64, 2 + r.below(2) as i64, SCENARIOS.len() as i64]));
            }
            emit(Case::with("single", vec![], &[g.shard as i64]));
            return;
        }
        let mut idx = 0;
        // scheduled: each case explores many schedule vectors of one scenario
        for scen in 0..SCENARIOS.len() as i64 {
            for blk in 0..16i64 {
                if g.mine(idx) {
                    emit(Case::with("scheduled", vec![], &[scen, blk, g.count(16 * 16 * 400, 16 * 16 * 6000) as i64 / 16]));
                }
                idx += 1;
            }
        }
        // systematic DFS of every scenario, with and without weak-CAS failure injection
        for scen in 0..SCENARIOS.len() as i64 {
            for fb in [0i64, 1] {
                if g.mine(idx) {
                    let budget = (if g.tier == Tier::Quick { 20_000.0 } else { 1_000_000.0 } * g.scale.min(1.0)) as i64;
                    emit(Case::with("dfs", vec![], &[scen, budget.max(100), fb]));
                }
                idx += 1;
            }
        }
        let mut r = g.rng(18);
        let n = g.count(64, 1024);
        for _ in 0..n {
            emit(Case::with("free", vec![], &[r.next() as i64, 2 + r.below(5) as i64, if g.tier == Tier::Quick { 150 } else { 1500 }]));
        }
    }
    fn exec(&self, ctx: &mut Ctx, c: &Case) {
        ctx.nontrivial();
        match c.entry.as_str() {
            "scheduled" => {
                #[cfg(feature = "hooks")]
                {
                    let scen = c.p(0) as usize;
                    let mut r = Rng::new((c.p(0) as u64) << 32 | c.p(1) as u64);
                    let mut seen: HashSet<Vec<crate::sched::Event>> = HashSet::new();
                    // warm-up runs (thread machinery, lazy statics) before the ledger is trusted
                    let classes0 = ctx.classes.len();
                    let _ = classes0;
                    for k in 0..c.p(2) {
                        let len = r.range(1, 40);
                        let schedule: Vec<u8> = (0..len).map(|_| r.next() as u8).collect();
                        let budget = if k % 3 == 0 { 0 } else { 1 + r.below(2) as u32 };
                        if !run_scheduled(ctx, scen, schedule, budget, &mut seen, k >= 3) {
                            break;
                        }
                    }
                    ctx.class_n("sched:distinct-event-sequences-per-case", seen.len() as u64);
                    ctx.class("mode:scheduled");
                    if ctx.samples.len() < 12 {
                        ctx.sample("scheduled");
                        if let Some(l) = ctx.samples.last_mut() {
                            if l["label"] == "scheduled" {
                                l["scenario"] = serde_json::json!(SCENARIOS[scen % SCENARIOS.len()].0);
                                l["distinct_event_sequences"] = serde_json::json!(seen.len());
                                l["one_sequence"] = serde_json::json!(seen.iter().next().map(|s| s.iter().map(|e| format!("T{}:{}:{}{}", e.thread, ["load", "cas", "cas_weak"][e.op as usize], if e.seen_null { "null" } else { "set" }, if e.ok { "" } else { ":fail" })).collect::<Vec<_>>()));
                            }
                        }
                    }
                }
            }
            "dfs" => {
                // systematic depth-first exploration of ALL schedules of one scenario at the
                // granularity of the hooked atomic operations (stateless, by replay)
                #[cfg(feature = "hooks")]
                {
                    let scen = c.p(0) as usize;
                    let budget = c.p(1) as u64;
                    let fail_budget = c.p(2) as u32;
                    let mut seen: HashSet<Vec<crate::sched::Event>> = HashSet::new();
                    let mut schedule: Vec<u8> = vec![];
                    let mut runs = 0u64;
                    let mut exhausted = false;
                    let mut maxdec = 0usize;
                    loop {
                        let mut dec = vec![];
                        if !run_scheduled_d(ctx, scen, schedule.clone(), fail_budget, &mut seen, runs >= 3, &mut dec) {
                            break;
                        }
                        runs += 1;
                        maxdec = maxdec.max(dec.len());
                        // backtrack: last decision with an untried alternative
                        let mut k = dec.len();
                        let mut next: Option<Vec<u8>> = None;
                        while k > 0 {
                            k -= 1;
                            if dec[k].0 + 1 < dec[k].1 {
                                let mut v: Vec<u8> = dec[..k].iter().map(|d| d.0).collect();
                                v.push(dec[k].0 + 1);
                                next = Some(v);
                                break;
                            }
                        }
                        match next {
                            Some(v) => schedule = v,
                            None => {
                                exhausted = true;
                                break;
                            }
                        }
                        if runs >= budget {
                            break;
                        }
                    }
                    let name = SCENARIOS[scen % SCENARIOS.len()].0;
                    ctx.class_n("dfs:schedules-explored", runs);
                    ctx.class_n("dfs:distinct-event-sequences", seen.len() as u64);
                    if exhausted {
                        ctx.class("dfs:scenario-exhausted");
                    } else {
                        ctx.class("dfs:scenario-budget-reached");
                    }
                    ctx.notes.insert(format!("dfs:{}:weak_cas_failures_allowed={}", name, fail_budget), serde_json::json!({"schedules": runs, "distinct_event_sequences": seen.len(), "exhausted": exhausted, "max_decision_points": maxdec}));
                    ctx.class("mode:dfs");
                    ctx.sample("dfs");
                }
            }
            "single" => {
                // one thread is enough to meet a spurious weak-CAS failure under Miri
                for (name, lazy, acts) in SCENARIOS {
                    ctx.ops(1);
                    let fs = FastStr::new(if *lazy { LAZY_DOC } else { owned_doc(name) });
                    let mut errs = vec![];
                    if *lazy {
                        let lv = sonic_rs::get_from_faststr(&fs, &["s"]).expect("valid");
                        for a in acts.iter() {
                            if let Err(e) = act_lazy(*a, &lv) {
                                errs.push(e);
                            }
                        }
                    } else {
                        let ov: OwnedLazyValue = sonic_rs::from_str(owned_doc(name)).expect("valid");
                        for a in acts.iter() {
                            if let Err(e) = act_owned(*a, &ov) {
                                errs.push(e);
                            }
                        }
                    }
                    if !errs.is_empty() {
                        ctx.fail(&format!("reader-wrong-result:single-thread:{}", name), format!("{:?}", errs));
                    }
                }
                ctx.class("mode:single-thread");
            }
            _ => {
                run_free(ctx, c.p(0) as u64, c.p(1) as usize, c.p(2) as usize);
                ctx.sample("free");
            }
        }
    }
    fn required_classes(&self, b: &str, _t: Tier) -> Vec<&'static str> {
        if b.starts_with("miri") {
            vec!["mode:free-running", "mode:single-thread"]
        } else if b == "native-rel" {
            vec!["mode:scheduled", "mode:dfs", "mode:free-running", "sched:distinct-event-sequence", "scenario:lazy:3-readers-and-clone", "scenario:owned:3-mixed"]
        } else {
            vec!["mode:free-running"]
        }
    }
}
