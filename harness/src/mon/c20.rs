//! C20 — errors locate themselves inside the input and end streams cleanly.
use std::collections::HashMap;

use serde::Deserialize;
use sonic_rs::error::Category;
use sonic_rs::{Deserializer, LazyValue, OwnedLazyValue, PointerTree, Value};

use crate::core::{Case, Check, Ctx, GenParams, Tier};
use crate::gen::{doc, mutate, tokens};
use crate::mon::c01::derive_paths;
use crate::mon::common::exact;

pub struct C20;

#[derive(Deserialize, Debug)]
#[allow(dead_code)]
struct Rec {
    a: i32,
    b: String,
    #[serde(default)]
    c: Vec<u8>,
}

#[derive(Deserialize, Debug)]
#[allow(dead_code)]
enum En {
    A,
    B(i32),
    C { x: u8 },
}

#[derive(Deserialize, Debug)]
#[serde(untagged)]
#[allow(dead_code)]
enum Un {
    I(i64),
    S(String),
}

/// the crate's own convention (`Position::from_index`): line = 1 + number of LF before the
/// offset, column = bytes since the last LF
fn position(input: &[u8], off: usize) -> (usize, usize) {
    let off = off.min(input.len());
    let mut line = 1;
    let mut col = 0;
    for c in &input[..off] {
        if *c == b'\n' {
            line += 1;
            col = 0;
        } else {
            col += 1;
        }
    }
    (line, col)
}

fn judge(ctx: &mut Ctx, api: &str, input: &[u8], e: &sonic_rs::Error, lookup: bool) {
    ctx.ops(1);
    ctx.class("error:observed");
    let n = input.len();
    let off = e.offset();
    let cat = e.classify();
    if off > n {
        ctx.fail(&format!("offset-outside:{}", api), format!("{}: offset {} > input length {} ({})", api, off, n, crate::mon::common::err_brief(e)));
    }
    if e.line() >= 1 {
        let (l, c) = position(input, off);
        if (e.line(), e.column()) != (l, c) {
            ctx.fail(
                &format!("line-column-differs:{}", api),
                format!("{}: error at offset {} reports line {} column {}, the input has that offset at line {} column {} ; input {:?}", api, off, e.line(), e.column(), l, c, crate::core::truncate(&String::from_utf8_lossy(input), 200)),
            );
        }
        if input.contains(&b'\n') && off > input.iter().position(|c| *c == b'\n').unwrap() {
            ctx.class("error:beyond-first-line");
        }
    } else {
        // position-less: tolerated only for data errors that serde creates after the
        // deserializer method returned
        ctx.class("error:position-less");
        if matches!(cat, Category::Syntax | Category::Eof) {
            ctx.fail(&format!("syntax-error-without-position:{}", api), format!("{}: {:?} error without a position: {}", api, cat, crate::mon::common::err_brief(e)));
        }
        if e.column() != 0 || off != 0 {
            ctx.fail(&format!("position-less-with-offset:{}", api), format!("{}: line 0 but column {} offset {}", api, e.column(), off));
        }
    }
    let d = e.to_string();
    let g = format!("{:?}", e);
    if d.is_empty() || g.is_empty() || std::str::from_utf8(d.as_bytes()).is_err() {
        ctx.fail(&format!("message-undisplayable:{}", api), "empty or invalid message".into());
    }
    // category predicates agree with classify()
    {
        use std::error::Error as _;
        let preds = [e.is_syntax(), e.is_eof(), e.is_unmatched_type(), e.is_io(), e.is_not_found()];
        let _ = e.source();
        let want = match cat {
            Category::Syntax => 0,
            Category::Eof => 1,
            Category::TypeUnmatched => 2,
            Category::Io => 3,
            Category::NotFound => 4,
            _ => 5,
        };
        if want > 4 || !preds[want] || preds.iter().enumerate().any(|(i, p)| *p && i != want) {
            ctx.fail(&format!("category-predicates-disagree:{}", api), format!("{}: classify() = {:?} but [syntax, eof, unmatched, io, not_found] = {:?}", api, cat, preds));
        }
    }
    if e.is_not_found() && !lookup {
        ctx.fail(&format!("not-found-outside-lookup:{}", api), format!("{}: NotFound category from a non-lookup entry point: {}", api, crate::mon::common::err_brief(e)));
    }
    if e.is_io() {
        ctx.fail(&format!("io-category-from-parse:{}", api), format!("{}", crate::mon::common::err_brief(e)));
    }
}

macro_rules! parse_ep {
    ($ctx:expr, $name:expr, $input:expr, $e:expr) => {
        match $e {
            Ok(_) => $ctx.class("outcome:ok"),
            Err(e) => {
                judge($ctx, $name, $input, &e, false);
                io_conversion($ctx, $name, e);
            }
        }
    };
}

/// `io::Error::from(sonic_rs::Error)`: EOF errors become UnexpectedEof, the rest InvalidData; the
/// message survives
fn io_conversion(ctx: &mut Ctx, api: &str, e: sonic_rs::Error) {
    let cat = e.classify();
    let msg = e.to_string();
    let io: std::io::Error = e.into();
    let want_kind = if cat == Category::Eof { std::io::ErrorKind::UnexpectedEof } else { std::io::ErrorKind::InvalidData };
    if io.kind() != want_kind || io.to_string() != msg {
        ctx.fail(&format!("io-conversion:{}", api), format!("{}: io::Error::from gives kind {:?} / {:?} for a {:?} error {:?}", api, io.kind(), crate::core::truncate(&io.to_string(), 80), cat, crate::core::truncate(&msg, 80)));
    }
}

pub fn check_input(ctx: &mut Ctx, b: &[u8]) {
    let ex = exact(b);
    let sl = &ex[..];
    parse_ep!(ctx, "from_slice<Value>", b, sonic_rs::from_slice::<Value>(sl));
    parse_ep!(ctx, "from_slice<LazyValue>", b, sonic_rs::from_slice::<LazyValue>(sl));
    parse_ep!(ctx, "from_slice<OwnedLazyValue>", b, sonic_rs::from_slice::<OwnedLazyValue>(sl));
    parse_ep!(ctx, "from_slice<Rec>", b, sonic_rs::from_slice::<Rec>(sl));
    parse_ep!(ctx, "from_slice<Vec<i32>>", b, sonic_rs::from_slice::<Vec<i32>>(sl));
    parse_ep!(ctx, "from_slice<HashMap<String,Value>>", b, sonic_rs::from_slice::<HashMap<String, Value>>(sl));
    parse_ep!(ctx, "from_slice<HashMap<u8,bool>>", b, sonic_rs::from_slice::<HashMap<u8, bool>>(sl));
    parse_ep!(ctx, "from_slice<En>", b, sonic_rs::from_slice::<En>(sl));
    parse_ep!(ctx, "from_slice<Un>", b, sonic_rs::from_slice::<Un>(sl));
    parse_ep!(ctx, "from_slice<String>", b, sonic_rs::from_slice::<String>(sl));
    parse_ep!(ctx, "from_slice<f64>", b, sonic_rs::from_slice::<f64>(sl));
    parse_ep!(ctx, "from_slice<u8>", b, sonic_rs::from_slice::<u8>(sl));
    parse_ep!(ctx, "from_slice<i128>", b, sonic_rs::from_slice::<i128>(sl));
    parse_ep!(ctx, "from_slice<(bool,char)>", b, sonic_rs::from_slice::<(bool, char)>(sl));
    parse_ep!(ctx, "from_slice<serde_json::Value>", b, sonic_rs::from_slice::<serde_json::Value>(sl));
    parse_ep!(ctx, "from_slice<RawNumber>", b, sonic_rs::from_slice::<sonic_rs::RawNumber>(sl));
    parse_ep!(ctx, "from_reader<Value>", b, sonic_rs::from_reader::<_, Value>(sl));
    parse_ep!(ctx, "from_reader(short reads)<Value>", b, sonic_rs::from_reader::<_, Value>(crate::mon::common::ChunkReader { data: sl, chunk: 1 + b.len() % 5 }));
    if let Ok(s) = std::str::from_utf8(sl) {
        parse_ep!(ctx, "from_str<Value>", b, sonic_rs::from_str::<Value>(s));
        parse_ep!(ctx, "from_str<Rec>", b, sonic_rs::from_str::<Rec>(s));
        parse_ep!(ctx, "from_str<&str>", b, sonic_rs::from_str::<&str>(s));
    }
    parse_ep!(ctx, "Deserializer::deserialize<Value>", b, Deserializer::from_slice(sl).deserialize::<Value>());
    parse_ep!(ctx, "Deserializer(lossy)<Value>", b, Deserializer::from_slice(sl).utf8_lossy().deserialize::<Value>());
    parse_ep!(ctx, "Deserializer(rawnumber)<Value>", b, Deserializer::from_slice(sl).use_rawnumber().deserialize::<Value>());
    // lookups
    let paths = derive_paths(b);
    for p in paths.iter().take(8) {
        match sonic_rs::get(sl, p) {
            Ok(_) => ctx.class("outcome:ok"),
            Err(e) => judge(ctx, "get", b, &e, true),
        }
    }
    let mut t = PointerTree::new();
    if paths.len() > 5 {
        for p in paths.iter().skip(5).take(6) {
            t.add_path(p);
        }
    } else {
        t.add_path(&["a"]);
        t.add_path(&["a", "b"]);
    }
    match sonic_rs::get_many(sl, &t) {
        Ok(_) => ctx.class("outcome:ok"),
        Err(e) => judge(ctx, "get_many", b, &e, true),
    }
    match sonic_rs::get_by_schema(sl, sonic_rs::json!({"a": null, "b": {"c": 1}, "id": 0})) {
        Ok(_) => ctx.class("outcome:ok"),
        Err(e) => judge(ctx, "get_by_schema", b, &e, true),
    }
    // stream: every error is judged; after Err or None three more polls give None
    let mut st = Deserializer::from_slice(sl).into_stream::<Value>();
    let mut n = 0;
    let mut ended_by_err = false;
    loop {
        match st.next() {
            Some(Ok(_)) => {}
            Some(Err(e)) => {
                judge(ctx, "stream<Value>", b, &e, false);
                ended_by_err = true;
                break;
            }
            None => break,
        }
        n += 1;
        if n > 10_000 {
            break;
        }
    }
    let _ = ended_by_err;
    ctx.ops(1);
    let mut late = 0;
    for _ in 0..3 {
        if st.next().is_some() {
            late += 1;
        }
    }
    if late > 0 && n <= 10_000 {
        ctx.fail("stream-reports-after-end", format!("the stream deserializer yielded {} more item(s) after an error or the end", late));
    }
    ctx.class("latch:stream");
    let mut st = Deserializer::from_slice(sl).into_stream::<i32>();
    let mut seen_end = false;
    for _ in 0..10_000 {
        match st.next() {
            Some(Ok(_)) => {}
            Some(Err(e)) => {
                judge(ctx, "stream<i32>", b, &e, false);
                seen_end = true;
                break;
            }
            None => {
                seen_end = true;
                break;
            }
        }
    }
    if seen_end {
        for _ in 0..3 {
            if st.next().is_some() {
                ctx.fail("stream-reports-after-end", "typed stream yielded after an error or the end".into());
                break;
            }
        }
    }
    // lazy iterators
    let mut it = sonic_rs::to_array_iter(sl);
    let mut k = 0;
    while let Some(x) = it.next() {
        if let Err(e) = x {
            judge(ctx, "to_array_iter", b, &e, false);
        }
        k += 1;
        if k > 100_000 {
            break;
        }
    }
    for _ in 0..3 {
        if it.next().is_some() && k <= 100_000 {
            ctx.fail("iterator-reports-after-end", "to_array_iter yielded after an error or the end".into());
            break;
        }
    }
    let mut it = sonic_rs::to_object_iter(sl);
    let mut k = 0;
    while let Some(x) = it.next() {
        if let Err(e) = x {
            judge(ctx, "to_object_iter", b, &e, false);
        }
        k += 1;
        if k > 100_000 {
            break;
        }
    }
    for _ in 0..3 {
        if it.next().is_some() && k <= 100_000 {
            ctx.fail("iterator-reports-after-end", "to_object_iter yielded after an error or the end".into());
            break;
        }
    }
    ctx.class("latch:iterators");
    let seed = crate::rng::fnv1a(&[b]);
    latch_program(ctx, "to_array_iter", sonic_rs::to_array_iter(sl), seed);
    latch_program(ctx, "to_object_iter", sonic_rs::to_object_iter(sl), seed);
    latch_program(ctx, "to_array_iter", sonic_rs::to_array_iter(sl), seed.rotate_left(17));
    latch_program(ctx, "to_object_iter", sonic_rs::to_object_iter(sl), seed.rotate_left(29));
    latch_program(ctx, "stream<Value>", Deserializer::from_slice(sl).into_stream::<Value>(), seed.rotate_left(7));
    latch_program(ctx, "stream<u8>", Deserializer::from_slice(sl).into_stream::<u8>(), seed.rotate_left(11));
}

/// "After yielding an error or the end it yields nothing more", through the adaptors too: a short
/// program of `next` / `nth` / `skip` / `step_by` / `find` over ONE iterator (by reference); from the
/// first `None` or `Some(Err)` on, every further call must give `None`.
fn latch_program<T, I: Iterator<Item = sonic_rs::Result<T>>>(ctx: &mut Ctx, api: &str, mut it: I, seed: u64) {
    let mut r = crate::rng::Rng::new(seed ^ 0x6c61746368);
    let mut ended = false;
    let mut log = String::new();
    ctx.ops(1);
    for _ in 0..8 {
        let op = r.below(6);
        let n = r.below(4) as usize;
        let got: Option<bool> = match op {
            0 => {
                log.push_str("next;");
                it.next().map(|x| x.is_ok())
            }
            1 => {
                log.push_str(&format!("nth({});", n));
                it.nth(n).map(|x| x.is_ok())
            }
            2 => {
                log.push_str(&format!("skip({}).next;", n));
                it.by_ref().skip(n).next().map(|x| x.is_ok())
            }
            3 => {
                log.push_str(&format!("step_by({}).nth(1);", n + 1));
                it.by_ref().step_by(n + 1).nth(1).map(|x| x.is_ok())
            }
            4 => {
                // (up to 50 items; running out of the 50 is not an end)
                log.push_str("find(is_err);");
                let mut res = Some(true);
                for _ in 0..50 {
                    match it.next() {
                        None => {
                            res = None;
                            break;
                        }
                        Some(Err(_)) => {
                            res = Some(false);
                            break;
                        }
                        Some(Ok(_)) => {}
                    }
                }
                res
            }
            _ => {
                log.push_str(&format!("take({}).count;", n));
                let c = it.by_ref().take(n).count();
                if c < n {
                    None
                } else {
                    Some(true)
                }
            }
        };
        if ended && got.is_some() && !(op == 5 && n == 0) {
            ctx.fail(&format!("iterator-reports-after-end:{}", api), format!("{} after [{}]: an item was yielded after the iterator had reported an error or the end", api, log));
            return;
        }
        // adaptors 2..4 may consume an error on the way and return a later item or None: only
        // None and a visible Err are certain ends
        if matches!(got, None | Some(false)) {
            ended = true;
        }
    }
    ctx.class("latch:adaptor-programs");
}

/// Errors that echo a piece of the input (invalid type: string "…", unknown variant / field `…`):
/// the echoed text is long and multi-byte, so that whatever a formatter does at a byte budget
/// (cut, elide, wrap) meets the inside of a character. Every such error must still be displayable
/// and locate itself.
fn long_echo(ctx: &mut Ctx, filler: usize, prefix: usize, len: usize) {
    #[derive(serde::Deserialize, Debug)]
    #[allow(dead_code)]
    enum Color {
        Red,
        Green,
    }
    #[derive(serde::Deserialize, Debug)]
    #[serde(deny_unknown_fields)]
    #[allow(dead_code)]
    struct Strict {
        zzz_known: u8,
    }
    let unit = ["é", "哈", "😀", "a", "\u{7ff}\u{800}"][filler % 5];
    let mut body = "x".repeat(prefix);
    while body.len() < len {
        body.push_str(unit);
    }
    let lit = format!("\"{}\"", body);
    let docs: Vec<(&str, String)> = vec![("u32", lit.clone()), ("bool", format!("[{}]", lit)), ("enum", lit.clone()), ("enum-in-map", format!("{{{}:1}}", lit)), ("unknown-field", format!("{{\n{}:1}}", lit)), ("map-key", format!("{{\n \"k\":1,\n{}:2}}", lit))];
    for (what, doc) in &docs {
        let e = match *what {
            "u32" => sonic_rs::from_str::<u32>(doc).err(),
            "bool" => sonic_rs::from_str::<Vec<bool>>(doc).err(),
            "enum" => sonic_rs::from_str::<Color>(doc).err(),
            "enum-in-map" => sonic_rs::from_slice::<Color>(doc.as_bytes()).err(),
            "unknown-field" => sonic_rs::from_str::<Strict>(doc).err(),
            _ => sonic_rs::from_str::<std::collections::BTreeMap<u8, u8>>(doc).err(),
        };
        match e {
            Some(e) => {
                judge(ctx, &format!("long-echo:{}", what), doc.as_bytes(), &e, false);
                let alt = format!("{:#?} {:>10} {:.5}", e, e, e);
                if alt.is_empty() {
                    ctx.fail("message-undisplayable:long-echo", "empty".into());
                }
            }
            None => ctx.fail(&format!("long-echo-accepted:{}", what), format!("{} accepted a string of {} bytes", what, len)),
        }
    }
    ctx.class("error:long-echo");
}

/// re-render a document over several lines (LF / CRLF / blank lines) without changing tokens
fn multiline(r: &mut crate::rng::Rng, d: &[u8]) -> Vec<u8> {
    let gaps = mutate::token_gaps(d);
    let mut out = Vec::with_capacity(d.len() * 2);
    let mut gi = 0;
    for (i, c) in d.iter().enumerate() {
        while gi < gaps.len() && gaps[gi] < i {
            gi += 1;
        }
        if gi < gaps.len() && gaps[gi] == i && r.chance(1, 3) {
            match r.below(4) {
                0 => out.extend_from_slice(b"\n"),
                1 => out.extend_from_slice(b"\r\n"),
                2 => out.extend_from_slice(b"\n\n  "),
                _ => out.extend_from_slice(b"\n\t"),
            }
        }
        out.push(*c);
    }
    out
}

impl Check for C20 {
    fn id(&self) -> &'static str {
        "C20"
    }
    fn generate(&self, g: &GenParams, emit: &mut dyn FnMut(Case)) {
        let mut r = g.rng(20);
        // every truncation and every single-byte corruption of multi-line documents
        let n = g.count(600, 20_000);
        for _ in 0..n {
            let mut o = doc::DocOpts::random(&mut r);
            o.budget = o.budget.min(25);
            o.escapes = true;
            let d = doc::gen_doc(&mut r, &o);
            let d = multiline(&mut r, &d);
            emit(Case::with("every-prefix-and-subst", d, &[r.next() as i64]));
        }
        let n = g.count(60_000, 5_000_000);
        for k in 0..n {
            let d = doc::gen_any(&mut r);
            let d = if k % 2 == 0 { multiline(&mut r, &d) } else { d };
            let (m, _) = mutate::mutate(&mut r, &d);
            let mut m = if r.chance(1, 4) { mutate::mutate(&mut r, &m).0 } else { m };
            // what an entry point might strip or skip before it parses (positions must still be
            // those of the bytes the caller handed in): a byte order mark, once or twice, a
            // shebang-like first line, leading NULs, a leading blank line
            if r.chance(1, 12) {
                let pre: &[u8] = *r.pick(&[b"\xef\xbb\xbf" as &[u8], b"\xef\xbb\xbf\xef\xbb\xbf", b"\xef\xbb\xbf\n", b"\xfe\xff", b"\xff\xfe", b"\x00", b"\n\xef\xbb\xbf", b"#!x\n", b")]}',\n"]);
                let mut v = pre.to_vec();
                v.extend_from_slice(&m);
                m = v;
            }
            emit(Case::new("mutated", m));
        }
        // errors echoing long multi-byte text: every length around 4 KiB, some around 1/8/64 KiB
        {
            let mut lens: Vec<i64> = (4040..4120).collect();
            lens.extend([0i64, 1, 100, 1000, 1020, 1021, 1022, 1023, 1024, 1025, 2040, 2047, 2048, 2049, 8170, 8180, 8190, 8191, 8192, 8193, 16384, 65530, 65535, 65536, 65537, 100_003]);
            let mut idx = 0u64;
            for len in &lens {
                for filler in 0..5i64 {
                    for prefix in 0..4i64 {
                        idx += 1;
                        if g.mine(idx) && (g.tier == Tier::Thorough || (idx / 16) % 3 == 0) {
                            emit(Case::with("long-echo", vec![], &[filler, prefix, *len]));
                        }
                    }
                }
            }
        }
        let total = tokens::count(3);
        let mut buf = Vec::new();
        let mut i = g.shard;
        while i < total {
            tokens::nth(i, &mut buf);
            emit(Case::new("tok", buf.clone()));
            i += g.nshards;
        }
        if g.shard == 0 {
            for s in ["{\"a\": 1, \"b\": \"x\\n", "[\"\\n\\n\\n\", tru]", "{\"k\":\"a\\tb\",\n\"z\":}", "\n\n[1,\n2,\n", "[\"\\u000a\",\n 1 2]", "{\"a\":\"\\\\n\" \"b\"}", "\"abc\\", "[1]\n\nx", "", "\n", "{\"a\":1}\n{\"b\":}", "1 2 x"] {
                emit(Case::new("hand", s.as_bytes().to_vec()));
            }
        }
    }
    fn exec(&self, ctx: &mut Ctx, c: &Case) {
        ctx.nontrivial();
        match c.entry.as_str() {
            "long-echo" => {
                long_echo(ctx, c.p(0) as usize, c.p(1) as usize, c.p(2) as usize);
                ctx.sample("long-echo");
            }
            "every-prefix-and-subst" => {
                let d = &c.input;
                for l in 0..d.len() {
                    check_input(ctx, &d[..l]);
                }
                let mut r = crate::rng::Rng::new(c.p(0) as u64);
                let mut m = d.clone();
                for i in 0..d.len() {
                    let old = m[i];
                    m[i] = if r.chance(3, 4) { *r.pick(mutate::STRUCT_ALPHABET) } else { r.next() as u8 };
                    check_input(ctx, &m);
                    m[i] = old;
                }
                ctx.class("mode:every-prefix-and-substitution");
            }
            _ => check_input(ctx, &c.input),
        }
        ctx.sample(&c.entry);
    }
    fn required_classes(&self, _b: &str, _t: Tier) -> Vec<&'static str> {
        vec!["error:observed", "error:beyond-first-line", "error:position-less", "outcome:ok", "latch:stream", "latch:iterators", "latch:adaptor-programs", "mode:every-prefix-and-substitution", "error:long-echo"]
    }
}
