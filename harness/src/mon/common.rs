//! Helpers shared by monitors: DOM walk against the reference tree, number comparison, carriers,
//! guard pages.
use sonic_rs::{JsonContainerTrait, JsonNumberTrait, JsonValueTrait, Number, Value, ValueRef};

use crate::refmodel::num::{is_neg_zero_int_literal, RefNum};
use crate::refmodel::recog::{K, R};

#[derive(Clone, Copy, PartialEq, Eq, Debug)]
pub enum NumMode {
    Default,
    /// `use_rawnumber()` / arbitrary_precision: numbers kept as literal text
    Raw,
}

pub fn number_class(n: &Number) -> RefNum {
    if n.is_u64() {
        RefNum::U(n.as_u64().unwrap())
    } else if n.is_i64() {
        RefNum::I(n.as_i64().unwrap())
    } else {
        RefNum::F(n.as_f64().unwrap())
    }
}

/// C07 rule including the documented `-0` overlap.
pub fn num_agrees(got: RefNum, want: RefNum, lit: &[u8]) -> bool {
    if got == want {
        return true;
    }
    if is_neg_zero_int_literal(lit) {
        // both I64(0) and F64(-0.0) are accepted for the literal `-0`
        return matches!(got, RefNum::I(0)) || matches!(got, RefNum::F(f) if f.to_bits() == (-0.0f64).to_bits());
    }
    false
}

pub fn fmt_refnum(n: RefNum) -> String {
    match n {
        RefNum::U(u) => format!("U64({})", u),
        RefNum::I(i) => format!("I64({})", i),
        RefNum::F(f) => format!("F64({:e} bits={:#x})", f, f.to_bits()),
        RefNum::Inf => "Inf".into(),
    }
}

/// Compare a DOM value with the reference node. `input` is the text the reference spans index.
pub fn cmp_value(v: &Value, r: &R, input: &[u8], mode: NumMode, path: &mut String) -> Result<(), String> {
    // the boolean predicates hold for exactly the two boolean values
    let (want_t, want_f) = (matches!(r.k, K::Bool(true)), matches!(r.k, K::Bool(false)));
    if v.is_true() != want_t || v.is_false() != want_f || v.is_boolean() != (want_t || want_f) {
        return Err(format!("{}: is_true {} / is_false {} / is_boolean {} for a node that is {}", path, v.is_true(), v.is_false(), v.is_boolean(), r.type_name()));
    }
    match (&r.k, v.as_ref()) {
        (K::Null, ValueRef::Null) => {
            if mode == NumMode::Raw && v.is_number() {
                return Err(format!("{}: expected null, got a raw number", path));
            }
            if !v.is_null() {
                return Err(format!("{}: as_ref says Null but is_null() false", path));
            }
            Ok(())
        }
        (K::Bool(b), ValueRef::Bool(x)) => {
            if *b != x || v.as_bool() != Some(*b) {
                return Err(format!("{}: bool {} vs {}", path, b, x));
            }
            Ok(())
        }
        (K::Str { decoded, .. }, ValueRef::String(s)) => {
            if std::str::from_utf8(s.as_bytes()).is_err() {
                return Err(format!("{}: string handed out is not UTF-8", path));
            }
            match decoded {
                Some(d) if d == s => Ok(()),
                Some(d) => Err(format!("{}: string {:?} vs reference {:?}", path, s, d)),
                None => Err(format!("{}: reference says literal does not decode but DOM holds {:?}", path, s)),
            }
        }
        (K::Num(rn), ValueRef::Number(n)) => {
            let lit = &input[r.start..r.end];
            if mode == NumMode::Raw {
                let raw = v.as_raw_number();
                match raw {
                    Some(raw) => {
                        if raw.as_str().as_bytes() != lit {
                            return Err(format!(
                                "{}: raw number {:?} differs from literal {:?}",
                                path,
                                raw.as_str(),
                                String::from_utf8_lossy(lit)
                            ));
                        }
                    }
                    None => return Err(format!("{}: number without raw number in raw mode", path)),
                }
                return Ok(());
            }
            let got = number_class(&n);
            if !num_agrees(got, *rn, lit) {
                return Err(format!(
                    "{}: number {:?} -> {} but reference {}",
                    path,
                    String::from_utf8_lossy(lit),
                    fmt_refnum(got),
                    fmt_refnum(*rn)
                ));
            }
            // accessors on the value agree with the Number
            if v.as_u64() != n.as_u64() || v.as_i64() != n.as_i64() || v.as_f64().map(f64::to_bits) != n.as_f64().map(f64::to_bits) {
                return Err(format!("{}: Value numeric accessors disagree with as_number()", path));
            }
            if v.is_u64() != n.is_u64() || v.is_i64() != n.is_i64() || v.is_f64() != n.is_f64() {
                return Err(format!("{}: Value is_* classification disagrees with as_number()", path));
            }
            Ok(())
        }
        (K::Arr(items), ValueRef::Array(a)) => {
            if a.len() != items.len() {
                return Err(format!("{}: array len {} vs reference {}", path, a.len(), items.len()));
            }
            let l = path.len();
            for (i, (x, rx)) in a.iter().zip(items.iter()).enumerate() {
                use std::fmt::Write;
                let _ = write!(path, "/{}", i);
                cmp_value(x, rx, input, mode, path)?;
                path.truncate(l);
            }
            Ok(())
        }
        (K::Obj(ms), ValueRef::Object(o)) => {
            if o.len() != ms.len() {
                return Err(format!("{}: object len {} vs reference {}", path, o.len(), ms.len()));
            }
            let l = path.len();
            let mut n = 0;
            for ((k, x), (rk, rx)) in o.iter().zip(ms.iter()) {
                n += 1;
                if std::str::from_utf8(k.as_bytes()).is_err() {
                    return Err(format!("{}: key handed out is not UTF-8", path));
                }
                match rk.key_str() {
                    Some(d) if d == k => {}
                    other => return Err(format!("{}: member #{} key {:?} vs reference {:?}", path, n - 1, k, other)),
                }
                path.push('/');
                path.push_str(k);
                cmp_value(x, rx, input, mode, path)?;
                path.truncate(l);
            }
            if n != ms.len() {
                return Err(format!("{}: object iter yielded {} of {}", path, n, ms.len()));
            }
            Ok(())
        }
        (k, got) => Err(format!("{}: kind mismatch reference {} vs DOM {:?}", path, kname(k), short_ref(&got))),
    }
}

fn kname(k: &K) -> &'static str {
    match k {
        K::Null => "null",
        K::Bool(_) => "bool",
        K::Num(_) => "number",
        K::Str { .. } => "string",
        K::Arr(_) => "array",
        K::Obj(_) => "object",
    }
}

fn short_ref(v: &ValueRef) -> &'static str {
    match v {
        ValueRef::Null => "null",
        ValueRef::Bool(_) => "bool",
        ValueRef::Number(_) => "number",
        ValueRef::String(_) => "string",
        ValueRef::Array(_) => "array",
        ValueRef::Object(_) => "object",
    }
}

pub fn cmp_doc(v: &Value, r: &R, input: &[u8], mode: NumMode) -> Result<(), String> {
    let mut p = String::new();
    cmp_value(v, r, input, mode, &mut p)
}

/// every str handed out by the library must be UTF-8 (section 3.5)
#[inline]
pub fn utf8_ok(s: &str) -> bool {
    std::str::from_utf8(s.as_bytes()).is_ok()
}

// ---------------------------------------------------------------------------------------------
// guard pages

/// A byte buffer whose last byte is the last byte of a page; the next page is PROT_NONE.
pub struct GuardBuf {
    base: *mut u8,
    map_len: usize,
    start: *mut u8,
    len: usize,
}

impl GuardBuf {
    pub fn new(data: &[u8]) -> Option<GuardBuf> {
        #[cfg(miri)]
        {
            let _ = data;
            return None;
        }
        #[cfg(not(miri))]
        unsafe {
            let page = 4096usize;
            let pages = (data.len() + page - 1) / page + 1;
            let map_len = (pages + 1) * page;
            let p = libc::mmap(
                std::ptr::null_mut(),
                map_len,
                libc::PROT_READ | libc::PROT_WRITE,
                libc::MAP_PRIVATE | libc::MAP_ANONYMOUS,
                -1,
                0,
            );
            if p == libc::MAP_FAILED {
                return None;
            }
            let base = p as *mut u8;
            let guard = base.add(pages * page);
            if libc::mprotect(guard as *mut libc::c_void, page, libc::PROT_NONE) != 0 {
                libc::munmap(p, map_len);
                return None;
            }
            let start = guard.sub(data.len());
            std::ptr::copy_nonoverlapping(data.as_ptr(), start, data.len());
            Some(GuardBuf { base, map_len, start, len: data.len() })
        }
    }
    pub fn as_slice(&self) -> &[u8] {
        unsafe { std::slice::from_raw_parts(self.start, self.len) }
    }
    /// a sub-slice that *starts* at the page start region: [off..]
    pub fn as_str(&self) -> Option<&str> {
        std::str::from_utf8(self.as_slice()).ok()
    }
}

impl Drop for GuardBuf {
    fn drop(&mut self) {
        #[cfg(not(miri))]
        unsafe {
            libc::munmap(self.base as *mut libc::c_void, self.map_len);
        }
    }
}

/// exact-size heap copy (so ASan sees any read past the end)
pub fn exact(b: &[u8]) -> Box<[u8]> {
    b.to_vec().into_boxed_slice()
}

/// Run an owning parse on a private heap copy of `b`, then overwrite and free the copy before the
/// result is looked at: an owned result (`Value`, `Vec<Value>`, ...) must not depend on the input
/// buffer once the call has returned (natively the scribble shows, under ASan the free does).
pub fn parse_then_discard<T>(b: &[u8], f: impl FnOnce(&[u8]) -> T) -> T {
    let mut copy = exact(b);
    let out = f(&copy);
    for (i, c) in copy.iter_mut().enumerate() {
        *c = if i % 2 == 0 { b'7' } else { b'"' };
    }
    std::hint::black_box(&copy);
    drop(copy);
    out
}

/// an `io::Read` that hands out at most `chunk` bytes per call (a pipe / socket / `Chain`-like
/// reader): short reads are not the end of the input
pub struct ChunkReader<'a> {
    pub data: &'a [u8],
    pub chunk: usize,
}

impl<'a> std::io::Read for ChunkReader<'a> {
    fn read(&mut self, buf: &mut [u8]) -> std::io::Result<usize> {
        let n = self.chunk.max(1).min(buf.len()).min(self.data.len());
        buf[..n].copy_from_slice(&self.data[..n]);
        self.data = &self.data[n..];
        Ok(n)
    }
}

pub fn err_brief(e: &sonic_rs::Error) -> String {
    let s = e.to_string();
    crate::core::truncate(&s, 200)
}

/// Check the always-on C20-ish sanity of an error (display works, offset within input) and return
/// a digest of its observable fields.
pub fn err_obs(e: &sonic_rs::Error) -> (usize, usize, usize, String) {
    (e.offset(), e.line(), e.column(), format!("{:?}", e.classify()))
}

/// structural equality of two reference trees over their own texts: same nesting, order, decoded
/// strings and keys, booleans/null, numbers by C07 class (bit-exact floats)
thread_local! {
    /// set by callers that compare two documents the way `==` on primitives does (C19's equality
    /// laws): the two float zeros are then equal. Everywhere else a number is compared with the
    /// literal it came from and the sign of zero counts.
    pub static ZERO_SIGN_INSENSITIVE: std::cell::Cell<bool> = const { std::cell::Cell::new(false) };
}

pub fn tree_eq(a: &R, ta: &[u8], b: &R, tb: &[u8], path: &mut String) -> Result<(), String> {
    match (&a.k, &b.k) {
        (K::Null, K::Null) => Ok(()),
        (K::Bool(x), K::Bool(y)) if x == y => Ok(()),
        (K::Num(x), K::Num(y)) => {
            let la = &ta[a.start..a.end];
            let lb = &tb[b.start..b.end];
            // (the literal `-0` is the float -0.0 for the library)
            let fzero = |n: &RefNum, lit: &[u8]| matches!(n, RefNum::F(p) if *p == 0.0) || is_neg_zero_int_literal(lit);
            let both_zero = ZERO_SIGN_INSENSITIVE.with(|z| z.get()) && fzero(x, la) && fzero(y, lb);
            if x == y || both_zero || num_agrees(*x, *y, lb) || num_agrees(*y, *x, la) {
                Ok(())
            } else {
                Err(format!(
                    "{}: number {:?} ({}) vs {:?} ({})",
                    path,
                    String::from_utf8_lossy(&ta[a.start..a.end]),
                    fmt_refnum(*x),
                    String::from_utf8_lossy(&tb[b.start..b.end]),
                    fmt_refnum(*y)
                ))
            }
        }
        (K::Str { decoded: x, .. }, K::Str { decoded: y, .. }) => {
            if x.is_some() && x == y {
                Ok(())
            } else {
                Err(format!("{}: string {:?} vs {:?}", path, x, y))
            }
        }
        (K::Arr(x), K::Arr(y)) => {
            if x.len() != y.len() {
                return Err(format!("{}: array len {} vs {}", path, x.len(), y.len()));
            }
            let l = path.len();
            for (i, (p, q)) in x.iter().zip(y.iter()).enumerate() {
                use std::fmt::Write;
                let _ = write!(path, "/{}", i);
                tree_eq(p, ta, q, tb, path)?;
                path.truncate(l);
            }
            Ok(())
        }
        (K::Obj(x), K::Obj(y)) => {
            if x.len() != y.len() {
                return Err(format!("{}: object len {} vs {}", path, x.len(), y.len()));
            }
            let l = path.len();
            for ((ka, va), (kb, vb)) in x.iter().zip(y.iter()) {
                if ka.key_str().is_none() || ka.key_str() != kb.key_str() {
                    return Err(format!("{}: key {:?} vs {:?}", path, ka.key_str(), kb.key_str()));
                }
                path.push('/');
                path.push_str(ka.key_str().unwrap());
                tree_eq(va, ta, vb, tb, path)?;
                path.truncate(l);
            }
            Ok(())
        }
        _ => Err(format!("{}: kind {} vs {}", path, kname(&a.k), kname(&b.k))),
    }
}

/// visit every string literal node (keys included) of a tree
pub fn for_each_string<'a>(r: &'a R, f: &mut dyn FnMut(&'a R)) {
    match &r.k {
        K::Str { .. } => f(r),
        K::Arr(v) => v.iter().for_each(|x| for_each_string(x, f)),
        K::Obj(v) => v.iter().for_each(|(k, x)| {
            f(k);
            for_each_string(x, f)
        }),
        _ => {}
    }
}

/// recursively sort object members by decoded key (for order-insensitive comparisons)
pub fn sort_members(r: &mut R) {
    match &mut r.k {
        K::Arr(v) => v.iter_mut().for_each(sort_members),
        K::Obj(v) => {
            v.iter_mut().for_each(|(_, x)| sort_members(x));
            v.sort_by(|a, b| a.0.key_str().cmp(&b.0.key_str()));
        }
        _ => {}
    }
}
