//! C07 — numbers are parsed exactly.
use sonic_number::ParserNumber;
use sonic_rs::{JsonNumberTrait, JsonValueTrait, Number, Value};

use crate::core::{Case, Check, Ctx, GenParams, Tier};
use crate::gen::numlit;
use crate::mon::common::{fmt_refnum, num_agrees, number_class};
use crate::refmodel::num::{classify, is_json_number, is_neg_zero_int_literal, RefNum};
use crate::rng::Rng;

pub struct C07;

fn pn_class(p: &ParserNumber) -> RefNum {
    match p {
        ParserNumber::Unsigned(u) => RefNum::U(*u),
        ParserNumber::Signed(i) => RefNum::I(*i),
        ParserNumber::Float(f) => RefNum::F(*f),
    }
}

/// plain integer literal value (no fraction / exponent), if it fits i128/u128
fn int_value(lit: &[u8]) -> Option<(bool, u128)> {
    if lit.iter().any(|c| matches!(c, b'.' | b'e' | b'E')) {
        return None;
    }
    let s = std::str::from_utf8(lit).ok()?;
    let (neg, d) = match s.strip_prefix('-') {
        Some(d) => (true, d),
        None => (false, s),
    };
    d.parse::<u128>().ok().map(|v| (neg, v))
}

macro_rules! int_target {
    ($ctx:expr, $lit:expr, $s:expr, $t:ty, $valid:expr) => {{
        $ctx.ops(1);
        let got = sonic_rs::from_str::<$t>($s);
        // the model: exactly the plain integer literals in range
        let want: Option<$t> = if $valid {
            match int_value($lit) {
                Some((false, v)) => <$t>::try_from(v).ok(),
                Some((true, v)) => {
                    if v == 0 {
                        None // `-0`: see below
                    } else if v <= (i128::MAX as u128) + 1 {
                        let iv = (v as i128).wrapping_neg();
                        <$t>::try_from(iv).ok()
                    } else {
                        None
                    }
                }
                None => None,
            }
        } else {
            None
        };
        let negzero = $valid && is_neg_zero_int_literal($lit);
        match (got, want) {
            (Ok(g), Some(w)) if g == w => {}
            (Err(_), None) => {}
            (Ok(g), None) if negzero && g == 0 as $t => {}
            (Ok(g), w) => $ctx.fail(
                &format!("int-target:{}", stringify!($t)),
                format!("from_str::<{}>({:?}) = Ok({}) but the model says {:?}", stringify!($t), $s, g, w),
            ),
            (Err(e), Some(w)) => $ctx.fail(
                &format!("int-target-rejects:{}", stringify!($t)),
                format!("from_str::<{}>({:?}) failed ({}) but the literal is the in-range integer {}", stringify!($t), $s, crate::mon::common::err_brief(&e), w),
            ),
        }
    }};
}

pub fn check_literal(ctx: &mut Ctx, lit: &[u8]) {
    let valid = is_json_number(lit);
    let Ok(s) = std::str::from_utf8(lit) else { return };
    ctx.class(if valid { "literal:valid" } else { "literal:invalid" });
    let want = if valid { Some(classify(lit)) } else { None };
    if let Some(w) = want {
        ctx.class(match w {
            RefNum::U(_) => "class:u64",
            RefNum::I(_) => "class:i64",
            RefNum::F(_) => "class:f64",
            RefNum::Inf => "class:infinite",
        });
        if lit.len() > 19 {
            ctx.class("literal:>19-bytes");
        }
    }
    // ---- sonic_number::parse_number directly, every terminator, long and short remainders
    if let Some(w) = want {
        for term in [&b""[..], b",", b"]", b"}", b" ", b"\n", b",0000000000000000000000", b"                        "] {
            ctx.ops(1);
            let mut data = lit.to_vec();
            data.extend_from_slice(term);
            let neg = lit[0] == b'-';
            let mut idx = neg as usize;
            let r = sonic_number::parse_number(&data, &mut idx, neg);
            match (r, w) {
                (Ok(p), RefNum::Inf) => ctx.fail("direct:accepts-infinite", format!("parse_number({:?}) = {} but the value is infinite", s, fmt_refnum(pn_class(&p)))),
                (Err(_), RefNum::Inf) => {}
                (Ok(p), w) => {
                    if !num_agrees(pn_class(&p), w, lit) {
                        ctx.fail(
                            &format!("direct:value:{}", if matches!(w, RefNum::F(_)) { "float" } else { "integer" }),
                            format!("parse_number({:?} + {:?}) = {} but Rust std says {}", s, String::from_utf8_lossy(term), fmt_refnum(pn_class(&p)), fmt_refnum(w)),
                        );
                    } else if idx != lit.len() {
                        ctx.fail("direct:index", format!("parse_number({:?}) stopped at {} of {}", s, idx, lit.len()));
                    }
                }
                (Err(e), w) => ctx.fail("direct:rejects-valid", format!("parse_number({:?}) failed ({:?}) but the literal is {}", s, e, fmt_refnum(w))),
            }
        }
    }
    // ---- f64 / f32 / Number / Value through serde
    ctx.ops(4);
    match (sonic_rs::from_str::<f64>(s), want) {
        (Ok(g), Some(w)) => {
            let wf = match w {
                RefNum::U(u) => Some(u as f64),
                RefNum::I(i) => Some(i as f64),
                RefNum::F(f) => Some(f),
                RefNum::Inf => None,
            };
            // an integer literal read as f64 is the nearest f64 of the *literal* (one rounding)
            let exact: f64 = s.parse().unwrap();
            match wf {
                Some(_) if g.to_bits() == exact.to_bits() => {}
                Some(_) if is_neg_zero_int_literal(lit) && g == 0.0 => {}
                Some(_) => ctx.fail("f64-value", format!("from_str::<f64>({:?}) = {:e} ({:#x}), Rust std {:e} ({:#x})", s, g, g.to_bits(), exact, exact.to_bits())),
                None => ctx.fail("f64-accepts-infinite", format!("from_str::<f64>({:?}) = {:e}", s, g)),
            }
        }
        (Err(_), Some(RefNum::Inf)) | (Err(_), None) => {}
        (Ok(g), None) => ctx.fail("f64-accepts-invalid", format!("from_str::<f64>({:?}) = {:e} but the literal is not a JSON number", s, g)),
        (Err(e), Some(w)) => ctx.fail("f64-rejects-valid", format!("from_str::<f64>({:?}) failed: {} ; literal is {}", s, crate::mon::common::err_brief(&e), fmt_refnum(w))),
    }
    match (sonic_rs::from_str::<f32>(s), want) {
        (Ok(g), Some(w)) if !matches!(w, RefNum::Inf) => {
            // an integer literal within 64 bits reaches the f32 visitor as that exact integer and
            // is converted in one rounding (what serde and serde_json do: C04); every other
            // literal is the f64 result narrowed once
            let exact: f64 = s.parse().unwrap();
            let wf = match w {
                RefNum::U(u) => u as f32,
                RefNum::I(i) => i as f32,
                _ => exact as f32,
            };
            if g.to_bits() != wf.to_bits() && !(is_neg_zero_int_literal(lit) && g == 0.0) {
                ctx.fail("f32-value", format!("from_str::<f32>({:?}) = {:e} ({:#x}), f64 narrowed once = {:e} ({:#x})", s, g, g.to_bits(), wf, wf.to_bits()));
            }
        }
        (Ok(g), Some(_)) => ctx.fail("f32-accepts-infinite", format!("from_str::<f32>({:?}) = {:e}", s, g)),
        (Ok(g), None) => ctx.fail("f32-accepts-invalid", format!("from_str::<f32>({:?}) = {:e}", s, g)),
        (Err(e), Some(w)) if !matches!(w, RefNum::Inf) => ctx.fail("f32-rejects-valid", format!("from_str::<f32>({:?}) failed: {}", s, crate::mon::common::err_brief(&e))),
        _ => {}
    }
    match (sonic_rs::from_str::<Number>(s), want) {
        (Ok(n), Some(w)) if !matches!(w, RefNum::Inf) => {
            if !num_agrees(number_class(&n), w, lit) {
                ctx.fail("Number-class", format!("from_str::<Number>({:?}) = {} but reference {}", s, fmt_refnum(number_class(&n)), fmt_refnum(w)));
            }
            let _ = (n.is_f64(), n.as_f64());
        }
        (Ok(n), _) => ctx.fail("Number-accepts", format!("from_str::<Number>({:?}) = {}", s, fmt_refnum(number_class(&n)))),
        (Err(e), Some(w)) if !matches!(w, RefNum::Inf) => ctx.fail("Number-rejects-valid", format!("from_str::<Number>({:?}) failed: {}", s, crate::mon::common::err_brief(&e))),
        _ => {}
    }
    if !cfg!(feature = "arbitrary_precision") {
        match (sonic_rs::from_str::<Value>(s), want) {
            (Ok(v), Some(w)) if !matches!(w, RefNum::Inf) => match v.as_number() {
                Some(n) if num_agrees(number_class(&n), w, lit) => {
                    let arr = format!("[{} ,{}]", s, s);
                    // the same literal inside a container, followed by blank / bracket
                    if let Ok(a) = sonic_rs::from_str::<Value>(&arr) {
                        for i in 0..2 {
                            match a[i].as_number() {
                                Some(m) if num_agrees(number_class(&m), w, lit) => {}
                                other => ctx.fail("Value-class-in-array", format!("{:?}[{}] = {:?}, reference {}", arr, i, other.map(|m| fmt_refnum(number_class(&m))), fmt_refnum(w))),
                            }
                        }
                    } else {
                        ctx.fail("Value-rejects-valid-in-array", format!("{:?} rejected", arr));
                    }
                }
                other => ctx.fail("Value-class", format!("from_str::<Value>({:?}) = {:?} but reference {}", s, other.map(|n| fmt_refnum(number_class(&n))), fmt_refnum(w))),
            },
            (Ok(_), _) => ctx.fail("Value-accepts", format!("from_str::<Value>({:?}) accepted", s)),
            (Err(e), Some(w)) if !matches!(w, RefNum::Inf) => ctx.fail("Value-rejects-valid", format!("from_str::<Value>({:?}) failed: {}", s, crate::mon::common::err_brief(&e))),
            _ => {}
        }
    }
    // ---- integer targets of every width
    int_target!(ctx, lit, s, u8, valid);
    int_target!(ctx, lit, s, u16, valid);
    int_target!(ctx, lit, s, u32, valid);
    int_target!(ctx, lit, s, u64, valid);
    int_target!(ctx, lit, s, u128, valid);
    int_target!(ctx, lit, s, usize, valid);
    int_target!(ctx, lit, s, i8, valid);
    int_target!(ctx, lit, s, i16, valid);
    int_target!(ctx, lit, s, i32, valid);
    int_target!(ctx, lit, s, i64, valid);
    int_target!(ctx, lit, s, i128, valid);
}

const ALPHA: &[u8] = b"019-.eE+";

impl Check for C07 {
    fn id(&self) -> &'static str {
        "C07"
    }
    fn generate(&self, g: &GenParams, emit: &mut dyn FnMut(Case)) {
        // (a) exhaustive strings over {0,1,9,-,.,e,E,+}
        let maxlen = if g.tier == Tier::Quick { 6 } else { 8 };
        let maxlen = if g.scale < 0.5 { maxlen - 1 } else { maxlen };
        let mut idx = 0u64;
        for len in 1..=maxlen {
            let total = (ALPHA.len() as u64).pow(len as u32);
            // batches of 4096 strings per case
            let mut start = 0;
            while start < total {
                if g.mine(idx) {
                    emit(Case::with("enum", vec![], &[len as i64, start as i64, 4096.min(total - start) as i64]));
                }
                idx += 1;
                start += 4096;
            }
        }
        // (b) digit counts 1..800, (c) powers of ten with 1..20-digit mantissas
        for n in 1..=800i64 {
            if g.mine(idx) {
                emit(Case::with("digits", vec![], &[n]));
            }
            idx += 1;
        }
        for e in -400..=400i64 {
            if g.mine(idx) {
                emit(Case::with("pow10", vec![], &[e]));
            }
            idx += 1;
        }
        // (d) halfway and near-halfway cases from f64 bit patterns
        let mut r = g.rng(7);
        let n = g.count(60_000, 1_200_000);
        for _ in 0..n {
            emit(Case::with("halfway", vec![], &[r.next() as i64]));
        }
        // (e..h) hostile and random literals
        let n = g.count(400_000, 12_000_000);
        let per = 256;
        for _ in 0..(n / per).max(1) {
            emit(Case::with("hostile", vec![], &[r.next() as i64, per as i64]));
        }
    }
    fn exec(&self, ctx: &mut Ctx, c: &Case) {
        match c.entry.as_str() {
            "enum" => {
                let (len, start, n) = (c.p(0) as usize, c.p(1) as u64, c.p(2) as u64);
                let mut buf = vec![0u8; len];
                for k in start..start + n {
                    let mut x = k;
                    for j in (0..len).rev() {
                        buf[j] = ALPHA[(x % ALPHA.len() as u64) as usize];
                        x /= ALPHA.len() as u64;
                    }
                    check_literal(ctx, &buf);
                }
                ctx.class("gen:exhaustive-small-grammar");
                ctx.nontrivial();
                ctx.sample("enum");
            }
            "digits" => {
                let n = c.p(0) as usize;
                let mut r = Rng::new(n as u64);
                for lead in [b'1', b'9', b'4'] {
                    let mut s: Vec<u8> = vec![lead];
                    for _ in 1..n {
                        s.push(b'0' + r.below(10) as u8);
                    }
                    check_literal(ctx, &s);
                    let mut neg = vec![b'-'];
                    neg.extend_from_slice(&s);
                    check_literal(ctx, &neg);
                    // the same digits as a fraction and with the point at a random offset
                    let mut f = b"0.".to_vec();
                    f.extend_from_slice(&s);
                    check_literal(ctx, &f);
                    let mut m = s.clone();
                    m.insert(r.range(1, n), b'.');
                    if m.last() != Some(&b'.') {
                        check_literal(ctx, &m);
                    }
                    let mut e = s.clone();
                    e.extend_from_slice(format!("e-{}", n).as_bytes());
                    check_literal(ctx, &e);
                }
                ctx.class("gen:digit-counts");
                ctx.nontrivial();
                ctx.sample("digits");
            }
            "pow10" => {
                let e = c.p(0);
                let mut r = Rng::new(e as u64 + 1000);
                for nd in 1..=20usize {
                    let mut m = String::new();
                    m.push((b'1' + r.below(9) as u8) as char);
                    for _ in 1..nd {
                        m.push((b'0' + r.below(10) as u8) as char);
                    }
                    check_literal(ctx, format!("{}e{}", m, e).as_bytes());
                    check_literal(ctx, format!("{}.{}E{}", &m[..1], if nd > 1 { &m[1..] } else { "0" }, e).as_bytes());
                }
                check_literal(ctx, format!("1e{}", e).as_bytes());
                check_literal(ctx, format!("-1e{:+}", e).as_bytes());
                ctx.class("gen:powers-of-ten");
                ctx.nontrivial();
                ctx.sample("pow10");
            }
            "halfway" => {
                let mut r = Rng::new(c.p(0) as u64);
                let x = numlit::random_f64_bits(&mut r);
                if let Some(lits) = numlit::halfway(x) {
                    for l in &lits {
                        check_literal(ctx, l.as_bytes());
                        let rs = numlit::respell(&mut r, l);
                        check_literal(ctx, rs.as_bytes());
                        check_literal(ctx, format!("-{}", l).as_bytes());
                        if l.len() < 400 {
                            check_literal(ctx, numlit::respell_int(&mut r, l).as_bytes());
                        }
                    }
                    // f64 rounding boundaries next to an f64 that is itself halfway between two f32:
                    // the narrowing of an f32 target then hinges on the last bit of the f64 result
                    // (literals just below / at / just above the boundary on either side of it)
                    {
                        let bits = match r.below(3) {
                            0 => (r.next() as u32) & 0x7f7f_ffff,
                            1 => ((127 + r.below(64) as u32) << 23) | (r.next() as u32 & 0x7f_ffff),
                            _ => ((127 - r.below(40) as u32) << 23) | (r.below(16) as u32),
                        };
                        let x32 = f32::from_bits(bits);
                        let y32 = f32::from_bits(bits + 1);
                        if x32.is_finite() && y32.is_finite() && x32 > 0.0 {
                            let m = (x32 as f64 + y32 as f64) / 2.0;
                            for base in [m, f64::from_bits(m.to_bits() - 1)] {
                                if let Some(lits) = numlit::halfway(base) {
                                    for l in &lits {
                                        check_literal(ctx, l.as_bytes());
                                        check_literal(ctx, numlit::respell_int(&mut r, l).as_bytes());
                                        check_literal(ctx, numlit::respell(&mut r, l).as_bytes());
                                        check_literal(ctx, format!("-{}", l).as_bytes());
                                    }
                                }
                            }
                            // the f32 tie itself with dropped digits behind it
                            let (i, f) = numlit::exact_dec(m);
                            let exact = numlit::render(&(i, f));
                            for tail in ["", "0000000000000000000001", "00000000000000000000000000000000000000001"] {
                                let l = if exact.contains('.') { format!("{}{}", exact, tail) } else if tail.is_empty() { exact.clone() } else { format!("{}.{}", exact, tail) };
                                check_literal(ctx, l.as_bytes());
                                check_literal(ctx, numlit::respell_int(&mut r, &l).as_bytes());
                            }
                            ctx.class("gen:f32-boundary");
                        }
                    }
                    // ties of at most 19 significant digits (the whole significand fits the fast
                    // path's 64-bit integer), spelled with an integer significand and an exponent
                    for _ in 0..2 {
                        if let Some(lits) = numlit::halfway(numlit::short_tie_base(&mut r)) {
                            for l in &lits {
                                check_literal(ctx, l.as_bytes());
                                check_literal(ctx, numlit::respell_int(&mut r, l).as_bytes());
                                check_literal(ctx, numlit::respell(&mut r, l).as_bytes());
                            }
                            ctx.class("gen:short-tie");
                        }
                    }
                    // deviations from the tie that lie beyond the 768th significant digit
                    let x2 = match r.below(3) {
                        0 => x,
                        // short ties: integers just above 2^53, dyadic fractions
                        1 => ((1u64 << 53) + 2 * r.below(1 << 20)) as f64 * (2.0f64).powi(r.below(11) as i32),
                        _ => (1.0 + r.below(1 << 30) as f64 * (2.0f64).powi(-52)) * (2.0f64).powi(r.below(60) as i32 - 30),
                    };
                    if let Some(far) = numlit::halfway_far(x2, *r.pick(&[760usize, 767, 768, 769, 770, 800, 1100])) {
                        for l in &far {
                            check_literal(ctx, l.as_bytes());
                            check_literal(ctx, format!("-{}", l).as_bytes());
                        }
                        ctx.class("gen:halfway-far-deviation");
                    }
                    ctx.class("gen:halfway");
                    if x.to_bits() < 0x0010_0000_0000_0000 {
                        ctx.class("gen:halfway-subnormal");
                    }
                    ctx.nontrivial();
                    if ctx.samples.len() < 12 {
                        ctx.sample("halfway");
                        if let Some(l) = ctx.samples.last_mut() {
                            if l["label"] == "halfway" {
                                l["literals"] = serde_json::json!(lits.iter().map(|s| crate::core::truncate(s, 80)).collect::<Vec<_>>());
                            }
                        }
                    }
                }
            }
            _ => {
                let mut r = Rng::new(c.p(0) as u64);
                for _ in 0..c.p(1) {
                    let l = numlit::hostile(&mut r);
                    check_literal(ctx, l.as_bytes());
                }
                ctx.class("gen:hostile");
                ctx.nontrivial();
                ctx.sample("hostile");
            }
        }
    }
    fn required_classes(&self, _b: &str, _t: Tier) -> Vec<&'static str> {
        vec!["gen:exhaustive-small-grammar", "gen:digit-counts", "gen:powers-of-ten", "gen:halfway", "gen:short-tie", "gen:f32-boundary", "gen:halfway-far-deviation", "gen:halfway-subnormal", "gen:hostile", "class:u64", "class:i64", "class:f64", "class:infinite", "literal:invalid", "literal:>19-bytes"]
    }
}
