//! C11 — multi-path and schema extraction agree with single-path get.
use std::collections::BTreeMap;

use sonic_rs::{JsonValueTrait, PointerNode, PointerTree, Value};

use crate::core::{Case, Check, Ctx, GenParams, Tier};
use crate::gen::doc::{self, DocOpts};
use crate::mon::c01::to_pointer;
use crate::mon::common::{exact, tree_eq};
use crate::refmodel::lookup::{all_paths, lookup, LookErr, PathEl};
use crate::refmodel::recog::{self, K, R};
use crate::rng::Rng;

pub struct C11;

fn fmt_paths(ps: &[Vec<PathEl>]) -> String {
    let mut s = String::new();
    for p in ps {
        s.push('[');
        for e in p {
            match e {
                PathEl::Key(k) => s.push_str(&format!("{:?},", k)),
                PathEl::Idx(i) => s.push_str(&format!("{},", i)),
            }
        }
        s.push_str("] ");
    }
    s
}

/// choose a shape-consistent path set from the document
fn path_set(r: &mut Rng, root: &R) -> Vec<Vec<PathEl>> {
    let all = all_paths(root, 200);
    let mut cands: Vec<Vec<PathEl>> = vec![];
    let n = r.range(1, 8);
    for _ in 0..n {
        let p = r.pick(&all).clone();
        match r.below(10) {
            0 | 1 => {
                // missing key below an object / after a resolving prefix
                if let Ok(node) = lookup(root, &p) {
                    if matches!(node.k, K::Obj(_)) {
                        let mut q = p.clone();
                        q.push(PathEl::Key(if r.chance(1, 2) { "__nope__".into() } else { "zz\"q".into() }));
                        cands.push(q);
                        continue;
                    }
                }
                cands.push(p);
            }
            2 => {
                // repeated path
                cands.push(p.clone());
                cands.push(p);
            }
            3 => {
                // a prefix that is also a target
                if p.len() > 1 {
                    cands.push(p[..p.len() - 1].to_vec());
                }
                cands.push(p);
            }
            _ => cands.push(p),
        }
    }
    if r.chance(1, 12) {
        cands.push(vec![]);
    }
    // shape consistency: every tree node has only key children or only index children
    let mut kinds: BTreeMap<Vec<PathEl>, bool> = BTreeMap::new();
    let mut out = vec![];
    'next: for p in cands {
        let mut staged: Vec<(Vec<PathEl>, bool)> = vec![];
        for i in 0..p.len() {
            let pre = p[..i].to_vec();
            let is_key = matches!(p[i], PathEl::Key(_));
            let known = kinds.get(&pre).copied().or_else(|| staged.iter().find(|(q, _)| *q == pre).map(|x| x.1));
            match known {
                Some(k) if k != is_key => continue 'next,
                Some(_) => {}
                None => staged.push((pre, is_key)),
            }
        }
        for (k, v) in staged {
            kinds.insert(k, v);
        }
        out.push(p);
    }
    out
}

fn check_get_many(ctx: &mut Ctx, b: &[u8], root: &R, paths: &[Vec<PathEl>], unchecked: bool) {
    let ex = exact(b);
    let mut tree = PointerTree::new();
    for p in paths {
        let pn: Vec<PointerNode> = to_pointer(p);
        tree.add_path(&pn);
    }
    ctx.ops(1);
    if tree.size() != paths.len() {
        ctx.fail("tree-size", format!("PointerTree::size {} after adding {} paths", tree.size(), paths.len()));
    }
    let api = if unchecked { "get_many_unchecked" } else { "get_many" };
    let res = if unchecked { unsafe { sonic_rs::get_many_unchecked(&ex[..], &tree) } } else { sonic_rs::get_many(&ex[..], &tree) };
    let want: Vec<Result<&R, LookErr>> = paths.iter().map(|p| lookup(root, p)).collect();
    let all_resolve = want.iter().all(|w| w.is_ok());
    ctx.class(if all_resolve { "set:all-resolve" } else { "set:some-missing" });
    match res {
        Ok(slots) => {
            if slots.len() != paths.len() {
                ctx.fail(&format!("slot-count:{}", api), format!("{} slots for {} paths ({})", slots.len(), paths.len(), fmt_paths(paths)));
                return;
            }
            for (i, (slot, w)) in slots.iter().zip(want.iter()).enumerate() {
                // the model: what single-path get returns
                let single = sonic_rs::get(&ex[..], &to_pointer(&paths[i]));
                match (slot, w) {
                    (Some(lv), Ok(node)) => {
                        let raw = lv.as_raw_str();
                        if raw.as_bytes() != &b[node.start..node.end] {
                            ctx.fail(&format!("slot-differs:{}", api), format!("slot {} of {} holds {:?}, the source span is {:?}", i, fmt_paths(paths), crate::core::truncate(raw, 120), crate::core::truncate(&String::from_utf8_lossy(&b[node.start..node.end]), 120)));
                        } else if (raw.as_ptr() as usize).wrapping_sub(ex.as_ptr() as usize) != node.start {
                            ctx.fail(&format!("slot-offset:{}", api), format!("slot {} of {} points to another occurrence of the same text", i, fmt_paths(paths)));
                        }
                        match &single {
                            Ok(s) if s.as_raw_str() == raw => {}
                            other => ctx.fail(&format!("slot-vs-get:{}", api), format!("slot {} = {:?} but get = {:?}", i, crate::core::truncate(raw, 100), other.as_ref().map(|x| x.as_raw_str().to_string()).map_err(|e| e.to_string()))),
                        }
                    }
                    (Some(lv), Err(_)) => ctx.fail(&format!("slot-filled-unresolvable:{}", api), format!("slot {} of {} holds {:?} but the path does not resolve", i, fmt_paths(paths), crate::core::truncate(lv.as_raw_str(), 100))),
                    (None, Ok(_)) => ctx.fail(&format!("slot-empty-resolvable:{}", api), format!("slot {} of {} is empty but the path resolves", i, fmt_paths(paths))),
                    (None, Err(le)) => {
                        let last_is_key = matches!(paths[i].last(), Some(PathEl::Key(_)));
                        if !(matches!(le, LookErr::NotFound) && last_is_key) && !unchecked {
                            // an empty slot must correspond to a missing *key*
                            let single_nf = matches!(&single, Err(e) if e.is_not_found());
                            if !single_nf {
                                ctx.fail(&format!("slot-empty-not-missing-key:{}", api), format!("slot {} of {} is empty, reference says {:?}", i, fmt_paths(paths), le));
                            }
                        }
                    }
                }
            }
            // repeated paths receive identical results
            for i in 0..paths.len() {
                for j in i + 1..paths.len() {
                    if paths[i] == paths[j] {
                        ctx.class("set:repeated-path");
                        let a = slots[i].as_ref().map(|x| (x.as_raw_str().as_ptr() as usize, x.as_raw_str().len()));
                        let c = slots[j].as_ref().map(|x| (x.as_raw_str().as_ptr() as usize, x.as_raw_str().len()));
                        if a != c {
                            ctx.fail(&format!("repeated-differ:{}", api), format!("repeated path slots {} and {} differ ({})", i, j, fmt_paths(paths)));
                        }
                    }
                }
            }
        }
        Err(e) => {
            if all_resolve {
                ctx.fail(&format!("failed-although-all-resolve:{}", api), format!("{} on {}: {}", api, fmt_paths(paths), crate::mon::common::err_brief(&e)));
            }
        }
    }
}

/// "each filled slot holding exactly what get returns": not only the raw text — the same type, the
/// same decoded string, number and bool, for every input carrier (`&str`, `&String`, `&[u8]`,
/// `&Bytes`, `&FastStr`) and both entry points.
fn check_slot_views(ctx: &mut Ctx, b: &[u8], paths: &[Vec<PathEl>], all_resolve: bool) {
    use sonic_rs::JsonValueTrait;
    let Ok(st) = std::str::from_utf8(b) else { return };
    let owned = st.to_string();
    let by = bytes::Bytes::copy_from_slice(b);
    let fs = faststr::FastStr::new(st);
    let mut tree = PointerTree::new();
    for p in paths {
        tree.add_path(&to_pointer(p));
    }
    fn view(v: &sonic_rs::LazyValue) -> String {
        format!("{:?}|{:?}|{:?}|{:?}|{:?}|{}", v.get_type(), v.as_str(), v.as_f64().map(|f| f.to_bits()), v.as_bool(), v.as_u64(), v.as_raw_str())
    }
    let singles: Vec<Option<String>> = paths.iter().map(|p| sonic_rs::get(st, &to_pointer(p)).ok().map(|v| view(&v))).collect();
    let mut routes: Vec<(&str, sonic_rs::Result<Vec<Option<sonic_rs::LazyValue>>>)> = vec![
        ("get_many(&str)", sonic_rs::get_many(st, &tree)),
        ("get_many(&String)", sonic_rs::get_many(&owned, &tree)),
        ("get_many(&Bytes)", sonic_rs::get_many(&by, &tree)),
        ("get_many(&FastStr)", sonic_rs::get_many(&fs, &tree)),
    ];
    if all_resolve {
        routes.push(("get_many_unchecked(&str)", unsafe { sonic_rs::get_many_unchecked(st, &tree) }));
        routes.push(("get_many_unchecked(&[u8])", unsafe { sonic_rs::get_many_unchecked(b, &tree) }));
        routes.push(("get_many_unchecked(&Bytes)", unsafe { sonic_rs::get_many_unchecked(&by, &tree) }));
        routes.push(("get_many_unchecked(&FastStr)", unsafe { sonic_rs::get_many_unchecked(&fs, &tree) }));
    }
    ctx.ops(routes.len() as u64);
    for (name, res) in &routes {
        let Ok(slots) = res else { continue };
        for (i, slot) in slots.iter().enumerate() {
            if let (Some(lv), Some(Some(want))) = (slot, singles.get(i)) {
                let got = view(lv);
                if &got != want {
                    ctx.fail(&format!("slot-view-vs-get:{}", name), format!("slot {} of {}: {:?}, get gives {:?}", i, fmt_paths(paths), crate::core::truncate(&got, 160), crate::core::truncate(want, 160)));
                    return;
                }
                // and as an owned value
                let o = sonic_rs::OwnedLazyValue::from(lv.clone());
                if o.as_str().map(|s| s.to_string()) != lv.as_str().map(|s| s.to_string()) {
                    ctx.fail(&format!("slot-owned-view:{}", name), format!("slot {} of {}: OwnedLazyValue::from(slot).as_str() = {:?}", i, fmt_paths(paths), o.as_str()));
                    return;
                }
            }
        }
    }
    ctx.class("set:slot-views");
}

// ---- get_by_schema

fn to_sj(r: &R, b: &[u8]) -> serde_json::Value {
    serde_json::from_slice(&b[r.start..r.end]).unwrap_or(serde_json::Value::Null)
}

/// schema derived from the document + the expected result
fn gen_schema(r: &mut Rng, node: &R, b: &[u8], depth: usize) -> (serde_json::Value, serde_json::Value) {
    use serde_json::{Map, Value as J};
    let defaults = |r: &mut Rng| -> J {
        match r.below(7) {
            0 => J::Null,
            1 => J::Bool(true),
            2 => serde_json::json!(12345),
            3 => serde_json::json!("default"),
            4 => serde_json::json!([]),
            5 => serde_json::json!({}),
            _ => serde_json::json!({"inner": "d", "n": [1, 2]}),
        }
    };
    match &node.k {
        K::Obj(ms) if depth < 5 => {
            let mut schema = Map::new();
            let mut want = Map::new();
            for (k, v) in ms {
                let Some(ks) = k.key_str() else { continue };
                if r.chance(1, 3) {
                    continue;
                }
                if schema.contains_key(ks) {
                    continue;
                }
                if matches!(v.k, K::Obj(_)) && r.chance(2, 3) {
                    let (s, w) = gen_schema(r, v, b, depth + 1);
                    schema.insert(ks.to_string(), s);
                    want.insert(ks.to_string(), w);
                } else {
                    schema.insert(ks.to_string(), defaults(r));
                    want.insert(ks.to_string(), to_sj(v, b));
                }
            }
            // absent keys keep their defaults
            for _ in 0..r.below(3) {
                let k = format!("absent{}", r.below(5));
                if !schema.contains_key(&k) && !ms.iter().any(|(kk, _)| kk.key_str() == Some(k.as_str())) {
                    let d = defaults(r);
                    schema.insert(k.clone(), d.clone());
                    want.insert(k, d);
                }
            }
            if schema.is_empty() {
                // an empty object schema is replaced by the document's value
                return (J::Object(schema), to_sj(node, b));
            }
            (J::Object(schema), J::Object(want))
        }
        _ => {
            // non-object document value: whatever the schema is, it is replaced
            (defaults(r), to_sj(node, b))
        }
    }
}

/// the property's rule, literally: every schema key present in the document is replaced
/// (recursively for non-empty object schemas meeting an object), absent keys keep their default
fn merge(schema: &serde_json::Value, doc: &R, b: &[u8]) -> serde_json::Value {
    match (schema, &doc.k) {
        (serde_json::Value::Object(sm), K::Obj(ms)) if !sm.is_empty() => {
            let mut out = serde_json::Map::new();
            for (k, sv) in sm {
                match ms.iter().find(|(kk, _)| kk.key_str() == Some(k.as_str())) {
                    Some((_, dv)) => out.insert(k.clone(), merge(sv, dv, b)),
                    None => out.insert(k.clone(), sv.clone()),
                };
            }
            serde_json::Value::Object(out)
        }
        _ => to_sj(doc, b),
    }
}

fn check_schema(ctx: &mut Ctx, b: &[u8], root: &R, seed: u64) {
    let mut r = Rng::new(seed);
    let (schema, _) = gen_schema(&mut r, root, b, 0);
    let want = merge(&schema, root, b);
    let schema_txt = serde_json::to_string(&schema).unwrap();
    let want_txt = serde_json::to_string(&want).unwrap();
    let Ok(schema_v) = sonic_rs::from_str::<Value>(&schema_txt) else {
        ctx.class("skipped:schema-unparsable");
        return;
    };
    let ex = exact(b);
    ctx.ops(1);
    ctx.class("schema:checked");
    // the schema value comes in every representation: parsed, rebuilt through the mutation API
    // (owned containers, also the empty ones), to_value of the model's value
    fn rebuild(v: &Value) -> Value {
        use sonic_rs::{JsonContainerTrait, JsonValueMutTrait};
        if let Some(a) = v.as_array() {
            let mut out = sonic_rs::Array::with_capacity(a.len() + 1);
            for x in a.iter() {
                out.push(rebuild(x));
            }
            out.into_value()
        } else if let Some(o) = v.as_object() {
            let mut out = sonic_rs::Object::with_capacity(o.len() + 1);
            out.insert("\u{1}tmp", 0);
            for (k, x) in o.iter() {
                out.insert(k, rebuild(x));
            }
            out.remove(&"\u{1}tmp");
            let mut val = out.into_value();
            let _ = val.as_object_mut();
            val
        } else {
            v.clone()
        }
    }
    let schema_v = match seed % 3 {
        0 => schema_v,
        1 => rebuild(&schema_v),
        _ => sonic_rs::to_value(&schema).unwrap_or(schema_v),
    };
    match sonic_rs::get_by_schema(&ex[..], schema_v) {
        Ok(v) => {
            let got_txt = sonic_rs::to_string(&v).unwrap_or_default();
            let gd = recog::parse_document(got_txt.as_bytes());
            let wd = recog::parse_document(want_txt.as_bytes());
            match (gd, wd) {
                (Ok(mut gd), Ok(mut wd)) => {
                    // member order of the result is not part of the property
                    crate::mon::common::sort_members(&mut gd.root);
                    crate::mon::common::sort_members(&mut wd.root);
                    if let Err(m) = tree_eq(&gd.root, got_txt.as_bytes(), &wd.root, want_txt.as_bytes(), &mut String::new()) {
                        ctx.fail("schema-result-differs", format!("{} ; schema {} ; got {} ; want {}", m, crate::core::truncate(&schema_txt, 200), crate::core::truncate(&got_txt, 200), crate::core::truncate(&want_txt, 200)));
                    }
                }
                _ => ctx.fail("schema-result-malformed", format!("result does not serialise to JSON: {:?}", crate::core::truncate(&got_txt, 200))),
            }
            let _ = v.is_object();
            // a replaced member is what a parse of its own text gives in this build (raw literals
            // under arbitrary_precision, lossy strings under utf8_lossy): compared as serialised text
            if let (K::Obj(ms), Some(so)) = (&root.k, schema.as_object()) {
                for (k, dv) in ms.iter() {
                    let Some(ks) = k.key_str() else { continue };
                    if !so.contains_key(ks) || matches!(dv.k, K::Obj(_)) {
                        continue;
                    }
                    let Some(member) = v.get(ks) else { continue };
                    let got = sonic_rs::to_string(member).unwrap_or_default();
                    let alone = sonic_rs::from_slice::<Value>(&b[dv.start..dv.end]).ok().and_then(|x| sonic_rs::to_string(&x).ok());
                    if alone.as_deref() != Some(got.as_str()) {
                        ctx.fail("schema-member-not-as-parsed-alone", format!("member {:?}: get_by_schema gives {:?}, parsing its text {:?} alone gives {:?}", ks, crate::core::truncate(&got, 100), crate::core::truncate(&String::from_utf8_lossy(&b[dv.start..dv.end]), 100), alone.map(|a| crate::core::truncate(&a, 100))));
                        break;
                    }
                }
            }
        }
        Err(e) => ctx.fail("schema-failed", format!("get_by_schema failed on a well-formed document: {} ; schema {}", crate::mon::common::err_brief(&e), crate::core::truncate(&schema_txt, 200))),
    }
}

/// A `PointerTree` is an object with a history: it is used, more paths are added, it is used again
/// (also on another document in between). Whatever it remembers from earlier calls must not show:
/// the tree grown in steps gives what a tree built at once gives.
fn check_grown_tree(ctx: &mut Ctx, b: &[u8], paths: &[Vec<PathEl>], seed: u64) {
    if paths.len() < 2 {
        return;
    }
    let ex = exact(b);
    let mut r = Rng::new(seed);
    let mut fresh = PointerTree::new();
    for p in paths {
        fresh.add_path(&to_pointer(p));
    }
    let mut grown = PointerTree::new();
    let cut1 = 1 + r.below(paths.len() as u64 - 1) as usize;
    let cut2 = cut1 + r.below((paths.len() - cut1) as u64 + 1) as usize;
    for p in &paths[..cut1] {
        grown.add_path(&to_pointer(p));
    }
    let _ = sonic_rs::get_many(&ex[..], &grown);
    let _ = unsafe { sonic_rs::get_many_unchecked(&ex[..], &grown) };
    for p in &paths[cut1..cut2] {
        grown.add_path(&to_pointer(p));
    }
    // in between: another document (shorter arrays, other keys)
    let _ = sonic_rs::get_many(&b"{\"a\":[1],\"outer\":{\"k1\":[]},\"arr\":[0]}"[..], &grown);
    let _ = sonic_rs::get_many(&ex[..], &grown);
    for p in &paths[cut2..] {
        grown.add_path(&to_pointer(p));
    }
    ctx.ops(2);
    for unchecked in [false, true] {
        let render = |t: &PointerTree| -> Result<Vec<Option<String>>, String> {
            let res = if unchecked { unsafe { sonic_rs::get_many_unchecked(&ex[..], t) } } else { sonic_rs::get_many(&ex[..], t) };
            res.map(|v| v.into_iter().map(|o| o.map(|l| l.as_raw_str().to_string())).collect()).map_err(|e| e.to_string())
        };
        let (f, g) = (render(&fresh), render(&grown));
        // the unchecked variant is only defined when every path resolves
        if unchecked && f.as_ref().map(|v| v.iter().any(|o| o.is_none())).unwrap_or(true) {
            continue;
        }
        if f != g {
            ctx.fail(if unchecked { "grown-tree-differs:get_many_unchecked" } else { "grown-tree-differs:get_many" }, format!("{} paths added in three steps with calls in between: {:?}; the tree built at once gives {:?}", paths.len(), g.map(|v| v.len()).map_err(|e| crate::core::truncate(&e, 100)), f.map(|v| v.len()).map_err(|e| crate::core::truncate(&e, 100))));
        }
    }
    ctx.class("set:grown-tree");
}

impl Check for C11 {
    fn id(&self) -> &'static str {
        "C11"
    }
    fn generate(&self, g: &GenParams, emit: &mut dyn FnMut(Case)) {
        let mut r = g.rng(11);
        // members nested up to the limit (255 containers) below paths of depth 1 and 2
        let mut idx = 0u64;
        for depth in [5usize, 60, 100, 200, 240, 250, 251, 252, 253, 254] {
            for _ in 0..3 {
                idx += 1;
                if g.mine(idx) {
                    let a = String::from_utf8(doc::nested(&mut r, depth)).unwrap();
                    let c1 = String::from_utf8(doc::nested(&mut r, depth.saturating_sub(1).max(1))).unwrap();
                    emit(Case::new("deep-member", format!("{{\"a\":{},\"b\":1,\"c\":[{},\"x\"]}}", a, c1).into_bytes()));
                }
            }
        }
        // wide path sets: tens to hundreds of targeted siblings below one node (keys and indexes)
        for (i, w) in [1usize, 31, 32, 33, 62, 63, 64, 65, 66, 100, 127, 128, 129, 200, 256, 257, 300, 520].iter().enumerate() {
            if g.mine(1000 + i as u64) {
                emit(Case::with("wide-set", vec![], &[*w as i64, r.next() as i64]));
            }
        }
        let n = g.count(150_000, 8_000_000);
        for k in 0..n {
            let mut o = DocOpts::random(&mut r);
            o.dup_keys = false;
            o.wild_numbers = k % 2 == 0;
            if o.budget < 8 {
                o.budget = 20;
            }
            emit(Case::with("doc", doc::gen_doc(&mut r, &o), &[r.next() as i64]));
        }
    }
    fn exec(&self, ctx: &mut Ctx, c: &Case) {
        let b = &c.input;
        if c.entry == "deep-member" {
            // a deeply nested value below a short path: get and get_many must keep agreeing up
            // to the nesting limit
            let Ok(d) = recog::parse_document(b) else { return };
            ctx.nontrivial();
            ctx.class("set:deep-member");
            let sets: Vec<Vec<Vec<PathEl>>> = vec![
                vec![vec![PathEl::Key("a".into())], vec![PathEl::Key("b".into())]],
                vec![vec![PathEl::Key("b".into())], vec![PathEl::Key("c".into()), PathEl::Idx(1)]],
                vec![vec![PathEl::Key("c".into()), PathEl::Idx(0)], vec![PathEl::Key("c".into()), PathEl::Idx(1)], vec![PathEl::Key("a".into())]],
            ];
            for ps in &sets {
                // only when single-path get resolves every path (the nesting limit may refuse)
                let ex = exact(b);
                if ps.iter().all(|p| sonic_rs::get(&ex[..], &to_pointer(p)).is_ok()) {
                    check_get_many(ctx, b, &d.root, ps, false);
                    check_get_many(ctx, b, &d.root, ps, true);
                }
            }
            ctx.sample("deep-member");
            return;
        }
        if c.entry == "wide-set" {
            let (w, seed) = (c.p(0) as usize, c.p(1) as u64);
            let mut r = Rng::new(seed);
            ctx.nontrivial();
            ctx.class("set:wide");
            let members: Vec<String> = (0..w).map(|i| format!("\"k{}\":{}", i, match i % 4 { 0 => format!("{}", i), 1 => format!("\"v{}\"", i), 2 => format!("[{}]", i), _ => format!("{{\"z\":{}}}", i) })).collect();
            let elems: Vec<String> = (0..w).map(|i| format!("{}", i * 3)).collect();
            let doc = format!("{{\"pre\":0,\"outer\":{{{}}},\"arr\":[{}],\"post\":{{\"in\":[1,2]}}}}", members.join(","), elems.join(" , "));
            let Ok(d) = recog::parse_document(doc.as_bytes()) else { return };
            // every sibling in a shuffled order; the same with a few missing names mixed in; every
            // index; a prefix of the siblings plus targets elsewhere
            let mut order: Vec<usize> = (0..w).collect();
            for i in (1..order.len()).rev() {
                order.swap(i, r.below(i as u64 + 1) as usize);
            }
            let all_keys: Vec<Vec<PathEl>> = order.iter().map(|i| vec![PathEl::Key("outer".into()), PathEl::Key(format!("k{}", i))]).collect();
            let mut with_missing = all_keys.clone();
            for j in 0..3 {
                let at = r.below(with_missing.len() as u64 + 1) as usize;
                with_missing.insert(at, vec![PathEl::Key("outer".into()), PathEl::Key(format!("absent{}", j))]);
            }
            let all_idx: Vec<Vec<PathEl>> = order.iter().map(|i| vec![PathEl::Key("arr".into()), PathEl::Idx(*i)]).collect();
            let mut mixed: Vec<Vec<PathEl>> = all_keys.iter().take(w / 2 + 1).cloned().collect();
            mixed.push(vec![PathEl::Key("post".into()), PathEl::Key("in".into()), PathEl::Idx(1)]);
            mixed.push(vec![PathEl::Key("pre".into())]);
            mixed.extend(all_idx.iter().take(w / 2 + 1).cloned());
            let deeper: Vec<Vec<PathEl>> = order.iter().filter(|i| *i % 4 == 3).map(|i| vec![PathEl::Key("outer".into()), PathEl::Key(format!("k{}", i)), PathEl::Key("z".into())]).chain(order.iter().filter(|i| *i % 4 == 2).map(|i| vec![PathEl::Key("outer".into()), PathEl::Key(format!("k{}", i)), PathEl::Idx(0)])).collect();
            for ps in [&all_keys, &with_missing, &all_idx, &mixed, &deeper] {
                if ps.is_empty() {
                    continue;
                }
                check_grown_tree(ctx, doc.as_bytes(), ps, seed ^ ps.len() as u64);
                check_get_many(ctx, doc.as_bytes(), &d.root, ps, false);
                if ps.iter().all(|p| lookup(&d.root, p).is_ok()) {
                    check_get_many(ctx, doc.as_bytes(), &d.root, ps, true);
                }
            }
            ctx.sample("wide-set");
            return;
        }
        let d = match recog::parse_document(b) {
            Ok(d) if d.full_ok() && d.flags.max_depth <= 64 && !d.flags.has_dup_keys => d,
            _ => {
                ctx.class("skipped:not-valid-or-dup");
                return;
            }
        };
        let mut r = Rng::new(c.p(0) as u64);
        for _ in 0..3 {
            let ps = path_set(&mut r, &d.root);
            if ps.is_empty() {
                continue;
            }
            if ps.len() > 1 {
                ctx.nontrivial();
            }
            ctx.class("set:checked");
            check_get_many(ctx, b, &d.root, &ps, false);
            check_get_many(ctx, b, &d.root, &ps, true);
            check_grown_tree(ctx, b, &ps, r.next());
            let all = ps.iter().all(|p| lookup(&d.root, p).is_ok());
            check_slot_views(ctx, b, &ps, all);
        }
        if matches!(d.root.k, K::Obj(_)) {
            check_schema(ctx, b, &d.root, r.next());
            check_schema(ctx, b, &d.root, r.next());
        }
        ctx.sample("doc");
    }
    fn required_classes(&self, _b: &str, _t: Tier) -> Vec<&'static str> {
        vec!["set:checked", "set:all-resolve", "set:some-missing", "set:repeated-path", "schema:checked", "set:deep-member", "set:wide", "set:grown-tree", "set:slot-views"]
    }
}
