//! Turn-based scheduler for the `verif_hooks` yield points (C18): the threads of a scenario are
//! serialised, the turn is handed over at every atomic operation of the lazy caches according to
//! a schedule vector, and weak compare-exchanges fail spuriously when the vector says so.
#![cfg(feature = "hooks")]
use std::cell::Cell;
use std::sync::{Arc, Condvar, Mutex};

use sonic_rs::verif::{Hook, Op};

#[derive(Clone, Debug, PartialEq, Eq, Hash)]
pub struct Event {
    pub thread: u8,
    pub op: u8,
    pub seen_null: bool,
    pub ok: bool,
}

struct State {
    turn: usize,
    done: Vec<bool>,
    schedule: Vec<u8>,
    pos: usize,
    fail_budget: u32,
    events: Vec<Event>,
    injected: u32,
    /// every decision point met: (choice taken, number of alternatives) - for systematic DFS
    decisions: Vec<(u8, u8)>,
}

pub struct Sched {
    st: Mutex<State>,
    cv: Condvar,
}

thread_local! {
    static TID: Cell<usize> = const { Cell::new(usize::MAX) };
}

impl Sched {
    pub fn new(nthreads: usize, schedule: Vec<u8>, fail_budget: u32) -> Arc<Sched> {
        Arc::new(Sched {
            st: Mutex::new(State { turn: 0, done: vec![false; nthreads], schedule, pos: 0, fail_budget, events: Vec::with_capacity(256), injected: 0, decisions: Vec::with_capacity(256) }),
            cv: Condvar::new(),
        })
    }

    /// a decision among `n` alternatives: taken from the schedule vector (0 beyond its end)
    fn next_choice(st: &mut State, n: usize) -> usize {
        let c = st.schedule.get(st.pos).copied().unwrap_or(0) as usize % n;
        st.pos += 1;
        st.decisions.push((c as u8, n as u8));
        c
    }

    fn pick_next(st: &mut State) {
        let runnable: Vec<usize> = (0..st.done.len()).filter(|i| !st.done[*i]).collect();
        match runnable.len() {
            0 => {}
            1 => st.turn = runnable[0],
            n => {
                let c = Self::next_choice(st, n);
                st.turn = runnable[c];
            }
        }
    }

    /// called by a scenario thread before it starts
    pub fn enter(&self, id: usize) {
        TID.with(|t| t.set(id));
        let mut st = self.st.lock().unwrap();
        while st.turn != id {
            st = self.cv.wait(st).unwrap();
        }
    }

    /// called by a scenario thread when it is finished
    pub fn leave(&self) {
        let id = TID.with(|t| t.get());
        let mut st = self.st.lock().unwrap();
        st.done[id] = true;
        Self::pick_next(&mut st);
        TID.with(|t| t.set(usize::MAX));
        self.cv.notify_all();
    }

    pub fn events(&self) -> (Vec<Event>, u32) {
        let st = self.st.lock().unwrap();
        (st.events.clone(), st.injected)
    }

    pub fn decisions(&self) -> Vec<(u8, u8)> {
        self.st.lock().unwrap().decisions.clone()
    }
}

impl Hook for Sched {
    fn before(&self, op: Op) -> bool {
        let id = TID.with(|t| t.get());
        if id == usize::MAX {
            return false; // not a scenario thread
        }
        let mut st = self.st.lock().unwrap();
        // hand the turn over (possibly to ourselves), then wait for it
        Self::pick_next(&mut st);
        self.cv.notify_all();
        while st.turn != id {
            st = self.cv.wait(st).unwrap();
        }
        if op == Op::CasWeak && st.fail_budget > 0 {
            let c = Self::next_choice(&mut st, 2);
            if c == 1 {
                st.fail_budget -= 1;
                st.injected += 1;
                return true;
            }
        }
        false
    }

    fn after(&self, op: Op, seen_null: bool, ok: bool) {
        let id = TID.with(|t| t.get());
        if id == usize::MAX {
            return;
        }
        let mut st = self.st.lock().unwrap();
        st.events.push(Event {
            thread: id as u8,
            op: match op {
                Op::Load => 0,
                Op::Cas => 1,
                Op::CasWeak => 2,
            },
            seen_null,
            ok,
        });
    }
}
